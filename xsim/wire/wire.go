// Package wire holds the types exchanged between worker processes, the driver and replay files.
// It has no dependency on xupercore so that the driver builds without the overlay.
package wire

import (
	"encoding/json"
	"fmt"
)

// Violation is a property violation found by an oracle.
type Violation struct {
	Prop   string `json:"prop"`
	Clause string `json:"clause"` // oracle clause id, stable
	Step   int    `json:"step"`
	Op     string `json:"op"`  // kind of the operation after which it was detected
	Msg    string `json:"msg"` // human description (not part of the fingerprint)
}

// KnownFinding is one entry of /verif/known_findings.json.
type KnownFinding struct {
	Status      string `json:"status"` // "open" or "fixed"
	Property    string `json:"property"`
	Fingerprint string `json:"fingerprint"`            // exact Violation.Fingerprint() (open findings only)
	MsgContains string `json:"msg_contains,omitempty"` // further restriction on the violation message
	What        string `json:"what"`
	Commit      string `json:"commit,omitempty"`
	// Replay (open findings, optional): committed replay file, relative to /verif. When the seeded
	// search of a run happens not to hit the finding, the driver re-executes this file so that the
	// KNOWN-FINDING line of a listed finding does not depend on the luck of the draw.
	Replay string `json:"replay,omitempty"`
}

// WorkerOut is what one worker process reports to the driver.
type WorkerOut struct {
	Prop        string            `json:"prop"`
	Seed        uint64            `json:"seed"`
	Runs        int               `json:"runs"`
	NonTrivial  int               `json:"non_trivial"`
	Distinct    []string          `json:"distinct"` // digests of non-trivial runs (distinctness across workers)
	Faults      map[string]int    `json:"faults"`
	Probes      map[string]int    `json:"probes"`
	Ops         map[string]int    `json:"ops"`
	States      int               `json:"states"`
	StateSet    []string          `json:"state_set,omitempty"`
	Traces      int               `json:"traces"`
	Steps       int               `json:"steps"`
	SimSeconds  float64           `json:"sim_seconds"`
	WallSeconds float64           `json:"wall_seconds"`
	Samples     []interface{}     `json:"samples"`
	Known       map[string]int    `json:"known"`
	KnownWhat   map[string]string `json:"known_what"`
	Violation   *Violation        `json:"violation,omitempty"`
	Plan        json.RawMessage   `json:"plan,omitempty"`
	Log         []string          `json:"log,omitempty"`
	LogDigest   string            `json:"log_digest,omitempty"`
	Digests     []string          `json:"digests,omitempty"` // per-run event-log digests (determinism self-test)
	Panic       string            `json:"panic,omitempty"`
}

// ReplayFile is the on-disk replay format.
type ReplayFile struct {
	Property  string          `json:"property"`
	Seed      uint64          `json:"seed"`
	Violation *Violation      `json:"violation"`
	LogDigest string          `json:"log_digest"`
	Plan      json.RawMessage `json:"plan"`
	Log       []string        `json:"event_log"`
	Note      string          `json:"note"`
}

func (v *Violation) Error() string {
	return fmt.Sprintf("%s/%s at step %d (%s): %s", v.Prop, v.Clause, v.Step, v.Op, v.Msg)
}

// Fingerprint identifies the class of a violation (known-findings matching).
func (v *Violation) Fingerprint() string { return v.Prop + "/" + v.Clause + "/" + v.Op }
