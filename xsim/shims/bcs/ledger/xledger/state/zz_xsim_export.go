package state

// XsimSetModifyBlockAddr configures the regulatory address whose signature lets a "marked"
// transaction pass verification (UtxoVM.SetModifyBlockAddr; the utxo table is not reachable from
// outside the package, embedding chains set it at start-up).
func (t *State) XsimSetModifyBlockAddr(addr string) { t.utxo.SetModifyBlockAddr(addr) }
