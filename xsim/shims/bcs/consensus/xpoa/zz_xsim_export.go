package xpoa

// XsimMinerScheduling exposes the package-private slot schedule of a live xpoa instance.
func XsimMinerScheduling(c interface{}, timestamp int64, n int) (term int64, pos int64, blockPos int64, ok bool) {
	x, is := c.(*xpoaConsensus)
	if !is || x == nil {
		return 0, 0, 0, false
	}
	term, pos, blockPos = x.election.minerScheduling(timestamp, n)
	return term, pos, blockPos, true
}

// XsimValidators returns the validator list the instance currently schedules.
func XsimValidators(c interface{}) []string {
	x, is := c.(*xpoaConsensus)
	if !is || x == nil {
		return nil
	}
	out := make([]string, len(x.election.validators))
	copy(out, x.election.validators)
	return out
}
