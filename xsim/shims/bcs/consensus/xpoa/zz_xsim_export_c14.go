package xpoa

// XsimExpectedValidators returns the validator list the live instance itself applies when it checks
// the producer of a block of height `round` (GetLocalValidates as CheckMinerMatch calls it for a
// block without a rollback target). Used by the C14 engine to learn, height by height, from which
// view on a validator change made on chain is in force; nil = the instance cannot tell (yet).
func XsimExpectedValidators(c interface{}, round int64) []string {
	x, is := c.(*xpoaConsensus)
	if !is || x == nil {
		return nil
	}
	v := x.election.GetLocalValidates(0, round, nil)
	if v == nil {
		return nil
	}
	out := make([]string, len(v))
	copy(out, v)
	return out
}
