package tdpos

import (
	cctx "github.com/xuperchain/xupercore/kernel/consensus/context"
	"github.com/xuperchain/xupercore/kernel/consensus/def"
)

// XsimMinerScheduling exposes the package-private slot schedule of a live tdpos instance.
func XsimMinerScheduling(c interface{}, timestamp int64) (term int64, pos int64, blockPos int64, ok bool) {
	tp, is := c.(*tdposConsensus)
	if !is || tp == nil {
		return 0, 0, 0, false
	}
	term, pos, blockPos = tp.election.minerScheduling(timestamp)
	return term, pos, blockPos, true
}

// XsimValidators returns the validator list the instance currently schedules.
func XsimValidators(c interface{}) []string {
	tp, is := c.(*tdposConsensus)
	if !is || tp == nil {
		return nil
	}
	out := make([]string, len(tp.election.validators))
	copy(out, tp.election.validators)
	return out
}

// XsimNewStandalone builds a tdpos instance over a node's consensus context without putting it in
// charge of the chain. Its constructor registers the real nominate / revoke / vote / revoke-vote
// kernel methods of the $tdpos contract in the node's registry (they read the election records
// through ledger snapshots and lock governance tokens through $govern_token).
func XsimNewStandalone(c cctx.ConsensusCtx, cfgJSON string) bool {
	return NewTdposConsensus(c, def.ConsensusConfig{ConsensusName: "tdpos", Config: cfgJSON, StartHeight: 0, Index: 0}) != nil
}
