package tdpos

// XsimMinerScheduling exposes the package-private slot schedule of a live tdpos instance.
func XsimMinerScheduling(c interface{}, timestamp int64) (term int64, pos int64, blockPos int64, ok bool) {
	tp, is := c.(*tdposConsensus)
	if !is || tp == nil {
		return 0, 0, 0, false
	}
	term, pos, blockPos = tp.election.minerScheduling(timestamp)
	return term, pos, blockPos, true
}

// XsimValidators returns the validator list the instance currently schedules.
func XsimValidators(c interface{}) []string {
	tp, is := c.(*tdposConsensus)
	if !is || tp == nil {
		return nil
	}
	out := make([]string, len(tp.election.validators))
	copy(out, tp.election.validators)
	return out
}
