package pow

import "math/big"

// XsimIsProofed evaluates the package's proof check for a plugin configured with the given
// maximum-difficulty encoding (bitcoin style when bitcoin is true, leading-zero style otherwise).
func XsimIsProofed(bitcoin bool, maxTarget uint32, id []byte, bits uint32) bool {
	p := &PoWConsensus{bitcoinFlag: bitcoin, maxDifficulty: big.NewInt(int64(maxTarget))}
	if bitcoin {
		md, _, _ := SetCompact(maxTarget)
		p.maxDifficulty = md
	}
	return p.IsProofed(id, bits)
}

// XsimRefresh runs the retarget computation of a live instance.
func XsimRefresh(c interface{}, tipHash []byte, nextHeight int64) (uint32, error, bool) {
	p, is := c.(*PoWConsensus)
	if !is || p == nil {
		return 0, nil, false
	}
	b, err := p.refreshDifficulty(tipHash, nextHeight)
	return b, err, true
}
