package consensus

import cctx "github.com/xuperchain/xupercore/kernel/consensus/context"

// XsimCurrent returns the plugin instance currently in charge (tail of the pluggable list).
func XsimCurrent(ci ConsensusInterface) interface{} {
	pc, ok := ci.(*PluggableConsensus)
	if !ok || pc == nil {
		return nil
	}
	return pc.stepConsensus.tail()
}

// XsimCtx returns the consensus context the pluggable consensus of a node was built with.
func XsimCtx(ci ConsensusInterface) (cctx.ConsensusCtx, bool) {
	pc, ok := ci.(*PluggableConsensus)
	if !ok || pc == nil {
		return cctx.ConsensusCtx{}, false
	}
	return pc.ctx, true
}
