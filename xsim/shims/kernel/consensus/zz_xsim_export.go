package consensus

// XsimCurrent returns the plugin instance currently in charge (tail of the pluggable list).
func XsimCurrent(ci ConsensusInterface) interface{} {
	pc, ok := ci.(*PluggableConsensus)
	if !ok || pc == nil {
		return nil
	}
	return pc.stepConsensus.tail()
}
