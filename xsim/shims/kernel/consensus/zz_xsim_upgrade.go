package consensus

import (
	"github.com/xuperchain/xupercore/kernel/consensus/base"
	cctx "github.com/xuperchain/xupercore/kernel/consensus/context"
	"github.com/xuperchain/xupercore/kernel/consensus/def"
)

// XsimInstances returns the length of the pluggable list of instances and how many of its entries
// are nil (an entry whose construction failed).
func XsimInstances(ci ConsensusInterface) (int, int) {
	pc, ok := ci.(*PluggableConsensus)
	if !ok || pc == nil {
		return 0, 0
	}
	n, nils := 0, 0
	for _, c := range pc.stepConsensus.cons {
		n++
		if c == nil {
			nils++
		}
	}
	return n, nils
}

// XsimHookConstructors wraps every registered plugin constructor: hook(name, index, false, false) is
// called right before an instance is built from a configuration entry (index = its position in the
// chain's history of configurations), hook(name, index, true, built) right after. The returned
// function puts the original constructors back.
func XsimHookConstructors(hook func(name string, index int, done bool, built bool)) func() {
	saved := map[string]NewStepConsensus{}
	for name, f := range consensusMap {
		saved[name] = f
	}
	wrap := func(name string, f NewStepConsensus) NewStepConsensus {
		return func(c cctx.ConsensusCtx, cfg def.ConsensusConfig) base.ConsensusImplInterface {
			hook(name, cfg.Index, false, false)
			r := f(c, cfg)
			hook(name, cfg.Index, true, r != nil)
			return r
		}
	}
	for name, f := range saved {
		consensusMap[name] = wrap(name, f)
	}
	return func() {
		for name, f := range saved {
			consensusMap[name] = f
		}
	}
}
