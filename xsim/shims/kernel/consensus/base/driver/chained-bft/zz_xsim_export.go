package chained_bft

// Export shim for the xsim C15 engine (overlay only; /repo is not modified): the package-private
// message handlers as synchronous calls and read access to the pending tree / vote store.

import (
	chainedBftPb "github.com/xuperchain/xupercore/kernel/consensus/base/driver/chained-bft/pb"
	"github.com/xuperchain/xupercore/lib/utils"
	xuperp2p "github.com/xuperchain/xupercore/protos"
)

// XsimHandleProposal runs handleReceivedProposal on the caller's goroutine.
func (s *Smr) XsimHandleProposal(msg *xuperp2p.XuperMessage) { s.handleReceivedProposal(msg) }

// XsimHandleVote runs handleReceivedVoteMsg on the caller's goroutine.
func (s *Smr) XsimHandleVote(msg *xuperp2p.XuperMessage) error { return s.handleReceivedVoteMsg(msg) }

// XsimTree returns the node's pending tree.
func (s *Smr) XsimTree() *QCPendingTree { return s.qcTree }

// XsimVotes returns the signatures collected for a proposal id.
func (s *Smr) XsimVotes(id []byte) []*chainedBftPb.QuorumCertSign {
	v, ok := s.qcVoteMsgs.Load(utils.F(id))
	if !ok {
		return nil
	}
	signs, _ := v.([]*chainedBftPb.QuorumCertSign)
	return signs
}

// XsimHasNode reports whether the pending tree holds a node for the proposal id (C14 engine).
func (s *Smr) XsimHasNode(id []byte) bool { return s.qcTree.DFSQueryNode(id) != nil }
