package miner

import xctx "github.com/xuperchain/xupercore/kernel/common/xcontext"

// XsimMining runs one round of the node's own block production (state sync, consensus
// pre-processing, packing from the pool under the size budget, confirmation, broadcast).
func (t *Miner) XsimMining(ctx xctx.XContext) error { return t.mining(ctx) }
