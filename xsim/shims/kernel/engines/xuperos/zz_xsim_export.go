package xuperos

import "github.com/xuperchain/xupercore/kernel/engines/xuperos/miner"

// XsimMiner returns the chain's block producer.
func (t *Chain) XsimMiner() *miner.Miner { return t.miner }
