package props

import (
	"xsim/sim"

	"pgregory.net/rapid"
)

func init() {
	Engines["C16"] = &sim.Engine{
		Prop:    "C16",
		Gen:     func(rt *rapid.T, tier string) interface{} { return sim.GenC16Plan(rt, tier) },
		NewPlan: func() interface{} { return &sim.C16Plan{} },
		Exec: func(plan interface{}, rc *sim.RunCtx) *sim.Violation {
			return sim.ExecC16(plan.(*sim.C16Plan), rc)
		},
		Seed:   func(plan interface{}) uint64 { return plan.(*sim.C16Plan).Seed },
		Sample: func(plan interface{}) interface{} { return plan },
		NonTrivial: func(st *sim.RunStats) bool {
			p := st.Probes
			tile := p["tile-complete-terms"] >= 3 && p["tile-label-boundaries"] > 0 && p["tile-instants"] > p["tile-nobody-instants"]
			acc := p["acc-accepted"] > 0 && p["acc-bad-refused"] > 0
			cmp := p["compact-proof-accepted"] > 0 && p["compact-proof-refused"] > 0
			up := p["upgrade-in-force"] > 0 && p["upgrade-old-producer-refused"] > 0 && p["upgrade-new-rule-accepted"] > 0
			return tile || acc || cmp || up
		},
		Level: "exploration",
	}
}
