package props

import (
	"xsim/sim"

	"pgregory.net/rapid"
)

func chainEngine(prop string, cfg *sim.ChainCfg, gp func(tier string) *sim.GenParams, rule string, nontrivial func(st *sim.RunStats) bool) *sim.Engine {
	cfg.Prop = prop
	return &sim.Engine{
		Prop:    prop,
		Gen:     func(rt *rapid.T, tier string) interface{} { return sim.GenChainPlan(rt, gp(tier)) },
		NewPlan: func() interface{} { return &sim.ChainPlan{} },
		Exec: func(plan interface{}, rc *sim.RunCtx) *sim.Violation {
			return sim.ExecChain(plan.(*sim.ChainPlan), cfg, rc)
		},
		Seed:       func(plan interface{}) uint64 { return plan.(*sim.ChainPlan).Seed },
		Sample:     func(plan interface{}) interface{} { return plan },
		NonTrivial: nontrivial,
		Rule:       rule,
		Level:      "exploration",
	}
}

func steps(tier string, q, th int) int {
	if tier == "thorough" {
		return th
	}
	return q
}

func init() {
	Engines["C01"] = chainEngine("C01", &sim.ChainCfg{Diff: true, Model: true, RealMiner: true},
		func(tier string) *sim.GenParams {
			return &sim.GenParams{Mix: sim.OpMix{"tx": 6, "kvtx": 5, "mine": 5, "deliver": 4, "walk": 4, "reopen": 1, "bg": 1, "clock": 1, "badblock": 2}, MaxSteps: steps(tier, 24, 40), MaxNodes: 3, Windows: []int{0}, MapOrders: true, SmallCache: true, Defer: true}
		}, "",
		func(st *sim.RunStats) bool {
			return st.Probes["walk-undo"] > 0 && st.Probes["fresh-replay-compared"] > 0
		})

	Engines["C02"] = chainEngine("C02", &sim.ChainCfg{Conserve: true, RealMiner: true},
		func(tier string) *sim.GenParams {
			return &sim.GenParams{Mix: sim.OpMix{"tx": 8, "kvtx": 3, "badtx": 5, "mine": 5, "deliver": 4, "walk": 4, "reopen": 1, "badblock": 2, "clock": 1}, MaxSteps: steps(tier, 24, 40), MaxNodes: 3, Windows: []int{0, 2}, MapOrders: true, SmallCache: true, Defer: true}
		}, "", func(st *sim.RunStats) bool { return st.Probes["tx-admitted"] > 1 && st.Probes["blocks-with-txs"] > 0 })

	Engines["C03"] = chainEngine("C03", &sim.ChainCfg{Admit: true, PoolOrder: true, Conserve: true, RealMiner: true},
		func(tier string) *sim.GenParams {
			return &sim.GenParams{Mix: sim.OpMix{"tx": 6, "kvtx": 6, "respend": 5, "mine": 5, "deliver": 5, "walk": 3, "reopen": 1, "bg": 1, "clock": 1, "badblock": 2}, MaxSteps: steps(tier, 24, 40), MaxNodes: 3, Windows: []int{0}, MapOrders: true, SmallCache: true, Defer: true}
		}, "", func(st *sim.RunStats) bool { return st.Probes["tx-refused"] > 0 && st.Probes["tx-admitted"] > 1 })

	Engines["C04"] = chainEngine("C04", &sim.ChainCfg{LedgerM: true},
		func(tier string) *sim.GenParams {
			return &sim.GenParams{Mix: sim.OpMix{"tx": 4, "mine": 6, "deliver": 8, "walk": 2, "reopen": 1, "truncate": 2, "badblock": 2}, MaxSteps: steps(tier, 26, 44), MaxNodes: 3, Windows: []int{0}, MapOrders: true, SmallCache: true, ReorgMotif: true}
		}, "", func(st *sim.RunStats) bool { return st.Probes["trunk-switch"] > 0 || st.Probes["truncate"] > 0 })

	Engines["C05"] = chainEngine("C05", &sim.ChainCfg{Reopen: true, NoTrace: true, RealMiner: true, Admit: true},
		func(tier string) *sim.GenParams {
			return &sim.GenParams{Mix: sim.OpMix{"tx": 6, "kvtx": 4, "badtx": 4, "respend": 2, "mine": 5, "deliver": 5, "walk": 4, "badblock": 3, "truncate": 1, "clock": 1}, MaxSteps: steps(tier, 20, 36), MaxNodes: 2, Windows: []int{0, 2}, MapOrders: true, SmallCache: true, StorFaults: true}
		}, "", func(st *sim.RunStats) bool {
			return st.Probes["failed-op-checked"] > 0 && st.Probes["reopen-compared"] > 3
		})

	Engines["C09"] = chainEngine("C09", &sim.ChainCfg{Model: true, Conserve: true, Diff: true, DiffEveryN: 4},
		func(tier string) *sim.GenParams {
			return &sim.GenParams{Mix: sim.OpMix{"invoke": 12, "tx": 4, "kvtx": 2, "mine": 4, "deliver": 2, "walk": 1, "badblock": 2}, MaxSteps: steps(tier, 20, 36), MaxNodes: 2, Windows: []int{0}, MapOrders: true, SmallCache: true, NoTinyUtxo: true}
		}, "", func(st *sim.RunStats) bool {
			return st.Probes["commit-effect-checked"] > 0 && st.Probes["invoke-admitted"] > 1
		})

	Engines["C13"] = chainEngine("C13", &sim.ChainCfg{PoolOrder: true, Diff: true, DiffEveryN: 1, RealMiner: true, BigTx: true},
		func(tier string) *sim.GenParams {
			return &sim.GenParams{Mix: sim.OpMix{"tx": 8, "kvtx": 8, "mine": 5, "deliver": 3, "clock": 1}, MaxSteps: steps(tier, 22, 40), MaxNodes: 2, Windows: []int{0}, MapOrders: true, SmallCache: true}
		}, "", func(st *sim.RunStats) bool {
			return st.Probes["blocks-with-txs"] > 0 && st.Probes["fresh-replay-compared"] > 0
		})

	Engines["C06"] = chainEngine("C06", &sim.ChainCfg{Crash: true, NoStepOrcl: true, RealMiner: true},
		func(tier string) *sim.GenParams {
			return &sim.GenParams{Mix: sim.OpMix{"tx": 6, "kvtx": 4, "mine": 5, "deliver": 5, "walk": 2, "truncate": 1, "respend": 1}, MaxSteps: steps(tier, 10, 14), MaxNodes: 2, Windows: []int{0, 2}, MapOrders: true, SmallCache: true, NoTinyUtxo: true, CatchUpMotif: true}
		}, "", func(st *sim.RunStats) bool { return st.Probes["crash-image-synced"] > 3 })
	Engines["C06"].Level = "fault_enumeration"

	Engines["C17"] = chainEngine("C17", &sim.ChainCfg{Irr: true},
		func(tier string) *sim.GenParams {
			return &sim.GenParams{Mix: sim.OpMix{"tx": 3, "mine": 8, "deliver": 6, "walk": 7, "reopen": 2, "truncate": 1}, MaxSteps: steps(tier, 28, 46), MaxNodes: 3, Windows: []int{0, 1, 2, 3, 5}, MapOrders: true, SmallCache: true}
		}, "", func(st *sim.RunStats) bool { return st.Probes["walk-failed"] > 0 || st.Probes["walk-undo"] > 0 })

	Engines["C18"] = chainEngine("C18", &sim.ChainCfg{Snap: true},
		func(tier string) *sim.GenParams {
			return &sim.GenParams{Mix: sim.OpMix{"kvtx": 10, "tx": 2, "mine": 6, "deliver": 4, "walk": 2, "reopen": 1}, MaxSteps: steps(tier, 24, 40), MaxNodes: 2, Windows: []int{0}, MapOrders: true, SmallCache: true, KV: true, ReorgMotif: true}
		}, "", func(st *sim.RunStats) bool { return st.Probes["snapshot-below-tip"] > 2 })
}
