package props

import (
	"xsim/sim"

	"pgregory.net/rapid"
)

func chainEngine(prop string, cfg *sim.ChainCfg, gp func(tier string) *sim.GenParams, rule string, nontrivial func(st *sim.RunStats) bool) *sim.Engine {
	cfg.Prop = prop
	return &sim.Engine{
		Prop:    prop,
		Gen:     func(rt *rapid.T, tier string) interface{} { return sim.GenChainPlan(rt, gp(tier)) },
		NewPlan: func() interface{} { return &sim.ChainPlan{} },
		Exec: func(plan interface{}, rc *sim.RunCtx) *sim.Violation {
			return sim.ExecChain(plan.(*sim.ChainPlan), cfg, rc)
		},
		Seed:       func(plan interface{}) uint64 { return plan.(*sim.ChainPlan).Seed },
		Sample:     func(plan interface{}) interface{} { return plan },
		NonTrivial: nontrivial,
		Rule:       rule,
		Level:      "exploration",
	}
}

func steps(tier string, q, th int) int {
	if tier == "thorough" {
		return th
	}
	return q
}

func init() {
	Engines["C01"] = chainEngine("C01", &sim.ChainCfg{Diff: true, Model: true},
		func(tier string) *sim.GenParams {
			return &sim.GenParams{Mix: sim.OpMix{"tx": 6, "kvtx": 5, "mine": 5, "deliver": 4, "walk": 4, "reopen": 1, "bg": 1, "clock": 1}, MaxSteps: steps(tier, 24, 40), MaxNodes: 3, Windows: []int{0}, MapOrders: true, SmallCache: true, Defer: true}
		},
		"seeded plans of tx / kv-contract tx / mine / deliver / walk / reopen steps on 1-3 nodes; non-trivial = a run in which at least one walk undid a block or crossed a fork and a fresh replay was compared; distinct = distinct event-log digests",
		func(st *sim.RunStats) bool {
			return st.Probes["walk-undo"] > 0 && st.Probes["fresh-replay-compared"] > 0
		})
}
