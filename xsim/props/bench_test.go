package props

import (
	"fmt"
	"os"
	"testing"
	"testing/synctest"
	"time"

	"xsim/sim"

	"github.com/xuperchain/xupercore/lib/xsimrt"
)

func TestBenchBoot(t *testing.T) {
	if os.Getenv("XSIM_BENCH") == "" {
		t.Skip()
	}
	defer sim.Cleanup()
	synctest.Test(t, func(t *testing.T) {
		xsimrt.Attach(&xsimrt.H{})
		defer xsimrt.Detach()
		g := &sim.Genesis{Predist: map[int]string{0: "1000000000"}}
		w := sim.NewWorld(g, nil)
		t0 := time.Now()
		_ = t0
		n, err := w.AddNode("n0", 0)
		if err != nil {
			t.Fatal(err)
		}
		for _, what := range []string{"fresh", "twin", "boot", "obs"} {
			r0 := nowReal()
			for i := 0; i < 50; i++ {
				switch what {
				case "fresh":
					f, err := w.Fresh("f", 0)
					if err != nil {
						t.Fatal(err)
					}
					f.Drop()
				case "twin":
					f, _ := n.Twin()
					f.Drop()
				case "boot":
					n.Boot()
				case "obs":
					u := &sim.Universe{Addrs: []string{"a", "b", "c", "d", "e"}}
					n.ObsAll(u, sim.StateObsOpts{Pool: true})
				}
			}
			fmt.Printf("%s: %.2f ms each\n", what, float64(nowReal()-r0)/50/1e6)
		}
		w.Close()
	})
}
