package props

import (
	"xsim/sim"

	"pgregory.net/rapid"
)

func init() {
	Engines["C07"] = &sim.Engine{
		Prop:    "C07",
		Gen:     func(rt *rapid.T, tier string) interface{} { return sim.GenTxPlan(rt, tier) },
		NewPlan: func() interface{} { return &sim.TxPlan{} },
		Exec:    func(plan interface{}, rc *sim.RunCtx) *sim.Violation { return sim.ExecTx(plan.(*sim.TxPlan), rc) },
		Seed:    func(plan interface{}) uint64 { return plan.(*sim.TxPlan).Seed },
		Sample:  func(plan interface{}) interface{} { return plan },
		NonTrivial: func(st *sim.RunStats) bool {
			return st.Probes["mutations-tested"] > 100
		},
		Level: "exploration",
	}
}
