package props

import (
	"xsim/sim"

	"pgregory.net/rapid"
)

func init() {
	Engines["C11"] = &sim.Engine{
		Prop:    "C11",
		Gen:     func(rt *rapid.T, tier string) interface{} { return sim.GenC11Plan(rt, tier) },
		NewPlan: func() interface{} { return &sim.C11Plan{} },
		Exec: func(plan interface{}, rc *sim.RunCtx) *sim.Violation {
			return sim.ExecC11(plan.(*sim.C11Plan), rc)
		},
		Seed:   func(plan interface{}) uint64 { return plan.(*sim.C11Plan).Seed },
		Sample: func(plan interface{}) interface{} { return plan },
		NonTrivial: func(st *sim.RunStats) bool {
			return st.Probes["rules-enumerated"] > 0 && st.Probes["judged-admit"] > 0 && st.Probes["judged-refuse"] > 0
		},
		Level: "exploration",
	}
}
