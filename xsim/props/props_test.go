//go:debug randseednop=0
package props

import (
	"os"
	"testing"

	"xsim/sim"
)

// TestProp is the single entry point of the worker binary: XSIM_PROP selects the engine,
// XSIM_REPLAY (a replay file) switches from seeded search to exact replay.
func TestProp(t *testing.T) {
	prop := os.Getenv("XSIM_PROP")
	e, ok := Engines[prop]
	if !ok {
		t.Skipf("XSIM_PROP=%q: no such engine", prop)
	}
	if rp := os.Getenv("XSIM_REPLAY"); rp != "" {
		sim.Replay(t, e, rp)
		return
	}
	sim.Search(t, e)
}

// Engines maps a property id (or self-test name) to its engine.
var Engines = map[string]*sim.Engine{}
