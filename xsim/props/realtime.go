package props

import (
	_ "unsafe"
)

//go:linkname nanotime runtime.nanotime
func nanotime() int64

// nowReal returns the real monotonic clock (the bubble fakes package time).
func nowReal() int64 { return nanotime() }
