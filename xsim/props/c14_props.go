package props

import (
	"xsim/sim"

	"pgregory.net/rapid"
)

func init() {
	Engines["C14"] = &sim.Engine{
		Prop:    "C14",
		Gen:     func(rt *rapid.T, tier string) interface{} { return sim.GenC14Plan(rt, tier) },
		NewPlan: func() interface{} { return &sim.C14Plan{} },
		Exec: func(plan interface{}, rc *sim.RunCtx) *sim.Violation {
			return sim.ExecC14(plan.(*sim.C14Plan), rc)
		},
		Seed:   func(plan interface{}) uint64 { return plan.(*sim.C14Plan).Seed },
		Sample: func(plan interface{}) interface{} { return plan },
		NonTrivial: func(st *sim.RunStats) bool {
			return st.Probes["cert-accepted-sufficient"] > 0 && st.Probes["cert-refused-insufficient"] > 0 && st.Probes["organic-qc-accepted"] > 0
		},
		Level: "exploration",
	}
}
