package props

import (
	"xsim/sim"

	"pgregory.net/rapid"
)

func init() {
	Engines["C15"] = &sim.Engine{
		Prop:    "C15",
		Gen:     func(rt *rapid.T, tier string) interface{} { return sim.GenC15Plan(rt, tier) },
		NewPlan: func() interface{} { return &sim.C15Plan{} },
		Exec: func(plan interface{}, rc *sim.RunCtx) *sim.Violation {
			return sim.ExecC15(plan.(*sim.C15Plan), rc)
		},
		Seed:   func(plan interface{}) uint64 { return plan.(*sim.C15Plan).Seed },
		Sample: func(plan interface{}) interface{} { return plan },
		// non-trivial: the certified marker advanced and the run exercised an out-of-order arrival that
		// was later adopted, or a move of the committed root
		NonTrivial: func(st *sim.RunStats) bool {
			return st.Probes["highqc-advanced"] > 0 && (st.Probes["orphan-adopted"] > 0 || st.Probes["root-moved"] > 0)
		},
		Level: "exploration",
	}
}
