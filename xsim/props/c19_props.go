package props

import (
	"xsim/sim"

	"pgregory.net/rapid"
)

func init() {
	Engines["C19"] = &sim.Engine{
		Prop:    "C19",
		Gen:     func(rt *rapid.T, tier string) interface{} { return sim.GenC19Plan(rt, tier) },
		NewPlan: func() interface{} { return &sim.G19Plan{} },
		Exec: func(plan interface{}, rc *sim.RunCtx) *sim.Violation {
			return sim.ExecC19(plan.(*sim.G19Plan), rc)
		},
		Seed:   func(plan interface{}) uint64 { return plan.(*sim.G19Plan).Seed },
		Sample: func(plan interface{}) interface{} { return plan },
		NonTrivial: func(st *sim.RunStats) bool {
			return st.Probes["transfer-moved-tokens"] > 0 && st.Probes["state-with-locks-checked"] > 0
		},
		Level: "exploration",
	}
}
