package props

import (
	"xsim/sim"

	"pgregory.net/rapid"
)

func init() {
	Engines["C10"] = &sim.Engine{
		Prop:    "C10",
		Gen:     func(rt *rapid.T, tier string) interface{} { return sim.GenC10Plan(rt, tier) },
		NewPlan: func() interface{} { return &sim.C10Plan{} },
		Exec: func(plan interface{}, rc *sim.RunCtx) *sim.Violation {
			return sim.ExecC10(plan.(*sim.C10Plan), rc)
		},
		Seed:   func(plan interface{}) uint64 { return plan.(*sim.C10Plan).Seed },
		Sample: func(plan interface{}) interface{} { return plan },
		// a run counts when the full end-of-execution battery ran (RW-set checks, replay over the read
		// set) AND at least one scan had to merge own writes with keys of the underlying state
		NonTrivial: func(st *sim.RunStats) bool {
			return st.Probes["replay-compared"] > 0 && st.Probes["scan-merges-own-and-backing"] > 0
		},
		Level: "exploration",
	}
}
