package props

import (
	"xsim/sim"

	"pgregory.net/rapid"
)

func init() {
	Engines["C12"] = &sim.Engine{
		Prop:    "C12",
		Gen:     func(rt *rapid.T, tier string) interface{} { return sim.GenCoopPlan(rt, tier) },
		NewPlan: func() interface{} { return &sim.CoopPlan{} },
		Exec:    func(plan interface{}, rc *sim.RunCtx) *sim.Violation { return sim.ExecCoop(plan.(*sim.CoopPlan), rc) },
		Seed:    func(plan interface{}) uint64 { return plan.(*sim.CoopPlan).Chain.Seed },
		Sample:  func(plan interface{}) interface{} { return plan },
		NonTrivial: func(st *sim.RunStats) bool {
			return st.Probes["serialisable-checked-with-preemption"] > 0
		},
		Level: "exploration",
	}
}
