package props

import (
	"xsim/sim"

	"pgregory.net/rapid"
)

func init() {
	Engines["C08"] = &sim.Engine{
		Prop:    "C08",
		Gen:     func(rt *rapid.T, tier string) interface{} { return sim.GenBlockPlan(rt, tier) },
		NewPlan: func() interface{} { return &sim.BlockPlan{} },
		Exec:    func(plan interface{}, rc *sim.RunCtx) *sim.Violation { return sim.ExecBlock(plan.(*sim.BlockPlan), rc) },
		Seed:    func(plan interface{}) uint64 { return plan.(*sim.BlockPlan).Seed },
		Sample:  func(plan interface{}) interface{} { return plan },
		NonTrivial: func(st *sim.RunStats) bool {
			return st.Probes["block-mutants-tested"] > 100
		},
		Level: "exploration",
	}
}
