package props

import (
	"xsim/sim"

	"pgregory.net/rapid"
)

func init() {
	Engines["C20"] = &sim.Engine{
		Prop:    "C20",
		Gen:     func(rt *rapid.T, tier string) interface{} { return sim.GenP2PPlan(rt, tier) },
		NewPlan: func() interface{} { return &sim.P2PPlan{} },
		Exec:    func(plan interface{}, rc *sim.RunCtx) *sim.Violation { return sim.ExecP2P(plan.(*sim.P2PPlan), rc) },
		Seed:    func(plan interface{}) uint64 { return plan.(*sim.P2PPlan).Seed },
		Sample:  func(plan interface{}) interface{} { return plan },
		NonTrivial: func(st *sim.RunStats) bool {
			return st.Probes["linearizability-checked-with-preemption"] > 0 && st.Probes["dispatch-delivered"] > 0
		},
		Level: "exploration",
	}
}
