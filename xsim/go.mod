module xsim

go 1.26

require (
	github.com/anishathalye/porcupine v1.3.0
	github.com/golang/protobuf v1.4.3
	github.com/xuperchain/xupercore v0.0.0
	golang.org/x/tools v0.0.0-20200207183749-b753a1ba74fa
	pgregory.net/rapid v1.3.0
)

require (
	github.com/aws/aws-sdk-go v1.32.4 // indirect
	github.com/beorn7/perks v1.0.1 // indirect
	github.com/btcsuite/btcd v0.20.1-beta // indirect
	github.com/cloudflare/bn256 v0.0.0-20200818021822-8aba7cd1ae4c // indirect
	github.com/consensys/gnark v0.2.1-alpha // indirect
	github.com/consensys/gurvy v0.1.2-0.20200512111154-1662e289e29b // indirect
	github.com/davecgh/go-spew v1.1.1 // indirect
	github.com/emirpasic/gods v1.12.1-0.20201118132343-79df803e554c // indirect
	github.com/fsnotify/fsnotify v1.4.9 // indirect
	github.com/go-stack/stack v1.8.0 // indirect
	github.com/gogo/protobuf v1.3.1 // indirect
	github.com/golang/snappy v0.0.2-0.20200707131729-196ae77b8a26 // indirect
	github.com/hashicorp/golang-lru v0.5.4 // indirect
	github.com/hashicorp/hcl v1.0.0 // indirect
	github.com/ipfs/go-cid v0.0.7 // indirect
	github.com/ipfs/go-ipfs-addr v0.0.1 // indirect
	github.com/ipfs/go-log v1.0.4 // indirect
	github.com/ipfs/go-log/v2 v2.1.1 // indirect
	github.com/jmespath/go-jmespath v0.3.0 // indirect
	github.com/libp2p/go-buffer-pool v0.0.2 // indirect
	github.com/libp2p/go-libp2p-core v0.6.1 // indirect
	github.com/libp2p/go-libp2p-crypto v0.1.0 // indirect
	github.com/libp2p/go-libp2p-peer v0.2.0 // indirect
	github.com/magiconair/properties v1.8.1 // indirect
	github.com/matttproud/golang_protobuf_extensions v1.0.1 // indirect
	github.com/minio/blake2b-simd v0.0.0-20160723061019-3f5f724cb5b1 // indirect
	github.com/minio/sha256-simd v0.1.1 // indirect
	github.com/mitchellh/mapstructure v1.1.2 // indirect
	github.com/mr-tron/base58 v1.2.0 // indirect
	github.com/multiformats/go-base32 v0.0.3 // indirect
	github.com/multiformats/go-base36 v0.1.0 // indirect
	github.com/multiformats/go-multiaddr v0.3.1 // indirect
	github.com/multiformats/go-multibase v0.0.3 // indirect
	github.com/multiformats/go-multihash v0.0.14 // indirect
	github.com/multiformats/go-varint v0.0.6 // indirect
	github.com/opentracing/opentracing-go v1.2.0 // indirect
	github.com/patrickmn/go-cache v2.1.0+incompatible // indirect
	github.com/pelletier/go-toml v1.2.0 // indirect
	github.com/pmezard/go-difflib v1.0.0 // indirect
	github.com/prometheus/client_golang v1.1.0 // indirect
	github.com/prometheus/client_model v0.0.0-20190812154241-14fe0d1b01d4 // indirect
	github.com/prometheus/common v0.6.0 // indirect
	github.com/prometheus/procfs v0.0.5 // indirect
	github.com/spaolacci/murmur3 v1.1.0 // indirect
	github.com/spf13/afero v1.1.2 // indirect
	github.com/spf13/cast v1.3.0 // indirect
	github.com/spf13/jwalterweatherman v1.0.0 // indirect
	github.com/spf13/pflag v1.0.5 // indirect
	github.com/spf13/viper v1.6.2 // indirect
	github.com/stretchr/testify v1.6.1 // indirect
	github.com/subosito/gotenv v1.2.0 // indirect
	github.com/syndtr/goleveldb v1.0.1-0.20200815110645-5c35d600f0ca // indirect
	github.com/xuperchain/crypto v0.0.0-20201028025054-4d560674bcd6 // indirect
	github.com/xuperchain/log15 v0.0.0-20190620081506-bc88a9198230 // indirect
	go.uber.org/atomic v1.6.0 // indirect
	go.uber.org/multierr v1.5.0 // indirect
	go.uber.org/zap v1.15.0 // indirect
	golang.org/x/crypto v0.0.0-20200728195943-123391ffb6de // indirect
	golang.org/x/net v0.0.0-20200822124328-c89045814202 // indirect
	golang.org/x/sys v0.0.0-20200824131525-c12d262b63d8 // indirect
	golang.org/x/text v0.3.3 // indirect
	google.golang.org/genproto v0.0.0-20200526211855-cb27e3aa2013 // indirect
	google.golang.org/grpc v1.35.0 // indirect
	google.golang.org/protobuf v1.25.0 // indirect
	gopkg.in/ini.v1 v1.51.0 // indirect
	gopkg.in/yaml.v2 v2.3.0 // indirect
	gopkg.in/yaml.v3 v3.0.0-20200313102051-9f266ea9e77c // indirect
)

replace github.com/xuperchain/xupercore => /repo

replace github.com/hyperledger/burrow => github.com/xuperchain/burrow v0.30.6-0.20210317023017-369050d94f4a
