//go:build go1.21

// Package xsimrt is the tiny runtime that source files rewritten by simrewrite call into. It is
// injected into the build as github.com/xuperchain/xupercore/lib/xsimrt through `go -overlay`;
// nothing of it exists in /repo. With no simulation attached every entry point degenerates to
// the original Go operation, which is what `check selftest-rewrite` validates by running the
// repository's own tests on the rewritten build.
package xsimrt

import (
	"fmt"
	"hash/fnv"
	"sort"
	"sync"
	"sync/atomic"
	"time"
)

// H holds the hooks of the attached simulation. All fields may be nil.
type H struct {
	// MapSeed != 0 permutes map iteration orders (pure function of seed, epoch and key).
	MapSeed uint64
	// Go intercepts listed background `go` statements. Return true if the simulation took f.
	Go func(site string, f func()) bool
	// Yield is called at instrumented preemption points by the goroutine owning the run token.
	Yield func(site string)
	// Lock/Unlock intercept sync.Mutex / RWMutex operations (nil: real operation).
	Lock   func(mu any, kind int, site string)
	Unlock func(mu any, kind int, site string)
	// Sleep intercepts time.Sleep in instrumented code.
	Sleep func(d time.Duration) bool
	// Now returns the clock of the node owning the running task.
	Now func() (time.Time, bool)
	// Tune returns per-run values of tunable constants.
	Tune func(name string, def int) int
	// MapAccess reports an annotated access to a built-in map (focus functions and every step of
	// a rewritten map range): the simulation's happens-before checker decides whether it is ordered
	// with the accesses of the other tasks.
	MapAccess func(m any, write bool, site string)
}

var (
	cur   atomic.Pointer[H]
	epoch atomic.Uint64
	// Probes counts how often instrumented sites of interest were reached.
	probeMu sync.Mutex
	probes  = map[string]int{}
)

// Attach installs the hooks of a simulation; Detach removes them.
func Attach(h *H) { cur.Store(h) }
func Detach() {
	cur.Store(nil)
	epoch.Store(0)
	idMu.Lock()
	ids = map[interface{}]uint64{}
	idMu.Unlock()
}

// SetEpoch changes the map-order epoch (called by the harness between steps only).
func SetEpoch(e uint64) { epoch.Store(e) }

// Probe records that a site was reached.
func Probe(name string) {
	probeMu.Lock()
	probes[name]++
	probeMu.Unlock()
}

// TakeProbes returns and clears the probe counters.
func TakeProbes() map[string]int {
	probeMu.Lock()
	defer probeMu.Unlock()
	p := probes
	probes = map[string]int{}
	return p
}

func keyString(k any) string {
	switch v := k.(type) {
	case string:
		return v
	case []byte:
		return string(v)
	case int:
		return fmt.Sprintf("%020d", v)
	case int32:
		return fmt.Sprintf("%020d", v)
	case int64:
		return fmt.Sprintf("%020d", v)
	case uint32:
		return fmt.Sprintf("%020d", v)
	case uint64:
		return fmt.Sprintf("%020d", v)
	default:
		// pointers, interfaces, structs: a stable identity = order of first appearance in this run
		// (addresses differ between processes)
		idMu.Lock()
		id, ok := ids[k]
		if !ok {
			id = uint64(len(ids) + 1)
			ids[k] = id
		}
		idMu.Unlock()
		return fmt.Sprintf("#%020d", id)
	}
}

var (
	idMu sync.Mutex
	ids  = map[interface{}]uint64{}
)

// ResetRun forgets the identities and the map-order epoch of the previous run: a run must not depend
// on what ran before it in the same process.
func ResetRun() {
	idMu.Lock()
	ids = map[interface{}]uint64{}
	idMu.Unlock()
	epoch.Store(0)
}

func rank(seed, ep uint64, s string) uint64 {
	h := fnv.New64a()
	var b [16]byte
	for i := 0; i < 8; i++ {
		b[i] = byte(seed >> (8 * i))
		b[8+i] = byte(ep >> (8 * i))
	}
	h.Write(b[:])
	h.Write([]byte(s))
	return h.Sum64()
}

type keyed[K any] struct {
	k K
	s string
	r uint64
}

func order[K any](ks []keyed[K]) {
	h := cur.Load()
	if h != nil && h.MapSeed != 0 {
		ep := epoch.Load()
		for i := range ks {
			ks[i].r = rank(h.MapSeed, ep, ks[i].s)
		}
		sort.SliceStable(ks, func(i, j int) bool {
			if ks[i].r != ks[j].r {
				return ks[i].r < ks[j].r
			}
			return ks[i].s < ks[j].s
		})
		return
	}
	sort.SliceStable(ks, func(i, j int) bool { return ks[i].s < ks[j].s })
}

// Ent is one entry of a map iteration produced by Iter.
type Ent[K comparable, V any] struct {
	m map[K]V
	k K
}

// Live reports whether the entry is still present (Go never produces an entry removed before it
// is reached).
func (e Ent[K, V]) Live() bool {
	if h := cur.Load(); h != nil && h.MapAccess != nil {
		h.MapAccess(e.m, false, "range-step")
	}
	_, ok := e.m[e.k]
	return ok
}
func (e Ent[K, V]) K() K { return e.k }
func (e Ent[K, V]) V() V { return e.m[e.k] }

// Iter returns the entries of m in the order chosen by the simulation (sorted by key when no
// simulation is attached or MapSeed is 0). Go leaves map iteration order unspecified, so any
// order is a legal execution.
func Iter[M ~map[K]V, K comparable, V any](m M) []Ent[K, V] {
	if m != nil {
		if h := cur.Load(); h != nil && h.MapAccess != nil {
			h.MapAccess(map[K]V(m), false, "range-start")
		}
	}
	if len(m) == 0 {
		return nil
	}
	ks := make([]keyed[K], 0, len(m))
	for k := range m {
		ks = append(ks, keyed[K]{k: k, s: keyString(k)})
	}
	order(ks)
	out := make([]Ent[K, V], len(ks))
	for i := range ks {
		out[i] = Ent[K, V]{m: m, k: ks[i].k}
	}
	return out
}

// MapRead / MapWrite announce an access to a built-in map by the statement that follows.
func MapRead(m any, site string) {
	if h := cur.Load(); h != nil && h.MapAccess != nil {
		h.MapAccess(m, false, site)
	}
}
func MapWrite(m any, site string) {
	if h := cur.Load(); h != nil && h.MapAccess != nil {
		h.MapAccess(m, true, site)
	}
}

// SyncMapRange is sync.Map.Range with a simulation-chosen order.
func SyncMapRange(m *sync.Map, f func(k, v any) bool) {
	var ks []keyed[any]
	m.Range(func(k, v any) bool {
		ks = append(ks, keyed[any]{k: k, s: keyString(k)})
		return true
	})
	order(ks)
	for _, e := range ks {
		v, ok := m.Load(e.k)
		if !ok {
			continue
		}
		if !f(e.k, v) {
			return
		}
	}
}

// Go starts f as a goroutine, or hands it to the simulation when the site is a listed background
// site and a simulation is attached.
func Go(site string, f func()) {
	if h := cur.Load(); h != nil && h.Go != nil && h.Go(site, f) {
		return
	}
	go f()
}

// Yield is a preemption point.
func Yield(site string) {
	if h := cur.Load(); h != nil && h.Yield != nil {
		h.Yield(site)
	}
}

// Lock kinds.
const (
	KLock = iota
	KRLock
)

type locker interface {
	Lock()
	Unlock()
}
type rwlocker interface {
	locker
	RLock()
	RUnlock()
}

func MLock(mu *sync.Mutex, site string) {
	if h := cur.Load(); h != nil && h.Lock != nil {
		h.Lock(mu, KLock, site)
		return
	}
	mu.Lock()
}
func MUnlock(mu *sync.Mutex, site string) {
	if h := cur.Load(); h != nil && h.Unlock != nil {
		h.Unlock(mu, KLock, site)
		return
	}
	mu.Unlock()
}
func RWLock(mu *sync.RWMutex, site string) {
	if h := cur.Load(); h != nil && h.Lock != nil {
		h.Lock(mu, KLock, site)
		return
	}
	mu.Lock()
}
func RWUnlock(mu *sync.RWMutex, site string) {
	if h := cur.Load(); h != nil && h.Unlock != nil {
		h.Unlock(mu, KLock, site)
		return
	}
	mu.Unlock()
}
func RWRLock(mu *sync.RWMutex, site string) {
	if h := cur.Load(); h != nil && h.Lock != nil {
		h.Lock(mu, KRLock, site)
		return
	}
	mu.RLock()
}
func RWRUnlock(mu *sync.RWMutex, site string) {
	if h := cur.Load(); h != nil && h.Unlock != nil {
		h.Unlock(mu, KRLock, site)
		return
	}
	mu.RUnlock()
}

// Sleep is time.Sleep under simulation control.
func Sleep(d time.Duration) {
	if h := cur.Load(); h != nil && h.Sleep != nil && h.Sleep(d) {
		return
	}
	time.Sleep(d)
}

// Now is time.Now with per-node skew under simulation.
func Now() time.Time {
	if h := cur.Load(); h != nil && h.Now != nil {
		if t, ok := h.Now(); ok {
			return t
		}
	}
	return time.Now()
}

// Tune returns the per-run value of a tunable constant.
func Tune(name string, def int) int {
	if h := cur.Load(); h != nil && h.Tune != nil {
		return h.Tune(name, def)
	}
	return def
}

// Janitor returns the cleanup interval of a go-cache instance: 0 (no janitor goroutine) while a
// simulation is attached, because a goroutine parked forever on a ticker can never leave the
// bubble. go-cache checks expiry on every Get, so lookups behave identically.
func Janitor(d time.Duration) time.Duration {
	if cur.Load() != nil {
		return 0
	}
	return d
}
