package sim

import (
	"bytes"
	"crypto/ecdsa"
	"crypto/elliptic"
	"crypto/sha256"
	"encoding/hex"
	"encoding/json"
	"fmt"
	"github.com/xuperchain/xupercore/bcs/ledger/xledger/state/xmodel"
	"math/big"
	"strings"
	"time"

	"github.com/golang/protobuf/proto"
	"github.com/xuperchain/xupercore/bcs/ledger/xledger/state/utxo/txhash"
	lpb "github.com/xuperchain/xupercore/bcs/ledger/xledger/xldgpb"
	pb "github.com/xuperchain/xupercore/protos"
	"pgregory.net/rapid"
)

// C07 — transaction integrity and authorisation. Honest transactions of every supported form are
// produced by harness clients; between the signer and the node's admission path EVERY single-field
// mutation reachable by walking the pb.Transaction schema is applied (with and without recomputing
// the txid - the adversary can hash but cannot sign), plus signature swap / replay / foreign-key
// operators. A mutated transaction must never be admitted; the unmutated one must be.

// TxForm is one honest transaction form to test.
type TxForm struct {
	Kind string `json:"kind"` // transfer multi kvtx account
	Ver  int    `json:"ver"`
	A    int    `json:"a"`
	B    int    `json:"b"`
	C    int    `json:"c"`
	Amt  int    `json:"amt"`
	Prog []KOp  `json:"prog,omitempty"`
	Mine bool   `json:"mine"`
}

// TxPlan is the plan of one C07 run.
type TxPlan struct {
	Seed  uint64   `json:"seed"`
	NoFee bool     `json:"nofee"`
	Forms []TxForm `json:"forms"`
}

func GenTxPlan(rt *rapid.T, tier string) *TxPlan {
	pl := &TxPlan{Seed: rapid.Uint64Range(1, 1<<40).Draw(rt, "seed")}
	n := rapid.IntRange(1, 3).Draw(rt, "nforms")
	if tier == "thorough" {
		n = rapid.IntRange(1, 6).Draw(rt, "nforms2")
	}
	for i := 0; i < n; i++ {
		f := TxForm{Kind: rapid.SampledFrom([]string{"transfer", "transfer", "multi", "kvtx", "account", "unauthorised", "xsign"}).Draw(rt, "kind")}
		f.Ver = rapid.IntRange(1, 3).Draw(rt, "ver")
		f.A = rapid.IntRange(0, 2).Draw(rt, "a")
		f.B = rapid.IntRange(0, 5).Draw(rt, "b")
		f.C = rapid.IntRange(0, 4).Draw(rt, "c")
		f.Amt = rapid.IntRange(0, 30).Draw(rt, "amt")
		if f.Kind == "kvtx" {
			f.Prog = genProg(rt, 0)
		}
		f.Mine = rapid.IntRange(0, 2).Draw(rt, "mine") == 0
		pl.Forms = append(pl.Forms, f)
	}
	return pl
}

const c07Account = "XC4444444444444444@xuper"

// c07SetAccount is ruled by a key set {Accts[3], Accts[4]}: both have to sign.
const c07SetAccount = "XC5555555555555555@xuper"

type txRun struct {
	rc        *RunCtx
	w         *World
	n         *Node
	plan      *TxPlan
	digests   map[string]string // digest -> semantic bytes
	prevSig   map[string]*pb.SignatureInfo
	step      int
	acctOK    bool
	setAcctOK bool
	nAdm      int // admission questions asked so far
	// pendingKnown is reported at the end of the run if nothing else fails
	pendingKnowns []*Violation
}

// notePending remembers the first violation of each known-finding clause.
func (r *txRun) notePending(vi *Violation) {
	for _, p := range r.pendingKnowns {
		if p.Clause == vi.Clause {
			return
		}
	}
	r.pendingKnowns = append(r.pendingKnowns, vi)
}

func (r *txRun) viol(clause, format string, a ...interface{}) *Violation {
	return &Violation{Prop: "C07", Clause: clause, Step: r.step, Op: "form", Msg: fmt.Sprintf(format, a...)}
}

// semanticBytes returns the encoding of everything that influences the state transition or who
// authorised it: derived / transport fields and the signatures themselves are cleared.
func semanticBytes(tx *lpb.Transaction) []byte {
	c := CloneTx(tx)
	c.Txid, c.Blockid, c.ReceivedTimestamp, c.ModifyBlock = nil, nil, 0, nil
	c.InitiatorSigns, c.AuthRequireSigns, c.XuperSign = nil, nil, nil
	if c.HDInfo != nil && len(c.HDInfo.HdPublicKey) == 0 && len(c.HDInfo.OriginalHash) == 0 {
		c.HDInfo = nil // an empty sub-message says the same as an absent one
	}
	return detMarshal(c)
}

// compactAdjacentBytes moves the byte string of every (x, empty) / (empty, x) pair of adjacent byte
// fields that the version 1 / 2 digest leaves out when empty into the first field of the pair. Two
// transactions that become equal under this differ only in where such a byte string sits.
func compactAdjacentBytes(tx *lpb.Transaction) *lpb.Transaction {
	c := CloneTx(tx)
	pair := func(x, y *[]byte) {
		if len(*x) == 0 && len(*y) > 0 {
			*x, *y = *y, nil
		}
		if len(*x) == 0 {
			*x = nil
		}
		if len(*y) == 0 {
			*y = nil
		}
	}
	for _, in := range c.TxInputs {
		pair(&in.FromAddr, &in.Amount)
	}
	for _, in := range c.TxInputsExt {
		pair(&in.Key, &in.RefTxid)
	}
	for _, o := range c.TxOutputsExt {
		pair(&o.Key, &o.Value)
	}
	return c
}

// detMarshal is proto.Marshal with deterministic map order.
func detMarshal(m proto.Message) []byte {
	var b proto.Buffer
	b.SetDeterministic(true)
	if err := b.Marshal(m); err != nil {
		panic(err)
	}
	return append([]byte{}, b.Bytes()...)
}

// stillAuthorised is the independent verifier: every required signer (initiator and every listed
// signer) still has a valid signature over the transaction's digest somewhere it is looked for.
func stillAuthorised(tx *lpb.Transaction) bool {
	d, err := txhash.MakeTxDigestHash(tx)
	if err != nil {
		return false
	}
	if tx.XuperSign != nil {
		// aggregated form: one key per distinct address (initiator first), each bound to its address, and a
		// multi-signature (the only type that involves every key) that verifies under all of them
		addrs := []string{tx.Initiator}
		for _, ar := range tx.AuthRequire {
			parts := strings.Split(ar, "/")
			dup := false
			for _, a := range addrs {
				dup = dup || a == parts[len(parts)-1]
			}
			if !dup {
				addrs = append(addrs, parts[len(parts)-1])
			}
		}
		if len(addrs) != len(tx.XuperSign.PublicKeys) {
			return false
		}
		var keys []*ecdsa.PublicKey
		for i, pj := range tx.XuperSign.PublicKeys {
			k, err := Crypto.GetEcdsaPublicKeyFromJsonStr(string(pj))
			if err != nil {
				return false
			}
			if ok, _ := Crypto.VerifyAddressUsingPublicKey(addrs[i], k); !ok {
				return false
			}
			keys = append(keys, k)
		}
		var st struct{ SigType string }
		if json.Unmarshal(tx.XuperSign.Signature, &st) != nil || st.SigType != "MultiSig" {
			return false
		}
		ok, err := Crypto.VerifyXuperSignature(keys, tx.XuperSign.Signature, d)
		return err == nil && ok
	}
	validBy := func(addr string, si *pb.SignatureInfo) bool {
		if si == nil {
			return false
		}
		k, err := Crypto.GetEcdsaPublicKeyFromJsonStr(si.PublicKey)
		if err != nil {
			return false
		}
		if ok, _ := Crypto.VerifyAddressUsingPublicKey(addr, k); !ok {
			return false
		}
		ok, err := Crypto.VerifyECDSA(k, si.Sign, d)
		return err == nil && ok
	}
	if len(tx.InitiatorSigns) < 1 || !validBy(tx.Initiator, tx.InitiatorSigns[0]) {
		return false
	}
	if len(tx.AuthRequire) != len(tx.AuthRequireSigns) {
		return false
	}
	for i, ar := range tx.AuthRequire {
		parts := strings.Split(ar, "/")
		addr := parts[len(parts)-1]
		if addr == tx.Initiator {
			continue
		}
		found := validBy(addr, tx.AuthRequireSigns[i])
		for j := 0; j < i && !found; j++ {
			pj := strings.Split(tx.AuthRequire[j], "/")
			if pj[len(pj)-1] == addr && validBy(addr, tx.AuthRequireSigns[j]) {
				found = true
			}
		}
		if !found {
			return false
		}
	}
	return true
}

func excludedPath(p string) bool {
	return strings.HasPrefix(p, "Blockid") || strings.HasPrefix(p, "ReceivedTimestamp") || strings.HasPrefix(p, "ModifyBlock")
}

// ExecTx executes a C07 plan.
func ExecTx(plan *TxPlan, rc *RunCtx) *Violation {
	g := &Genesis{Predist: map[int]string{0: "1000000000", 1: "500000000", 2: "300000000"}, NoFee: plan.NoFee, Award: "1000000", NewAcctRes: 1000}
	w := NewWorld(g, &Knobs{})
	rc.OnCleanup(w.Close)
	w.OnBoot = append(w.OnBoot, RegisterXsim)
	n, err := w.AddNode("n0", 0)
	if err != nil {
		panic(err)
	}
	r := &txRun{rc: rc, w: w, n: n, plan: plan, digests: map[string]string{}, prevSig: map[string]*pb.SignatureInfo{}}
	for i := range plan.Forms {
		r.step = i
		rc.St.Steps++
		time.Sleep(time.Second) // the clock never stands still between two operations
		if v := r.doForm(&plan.Forms[i]); v != nil {
			return v
		}
	}
	// several known findings may have been seen: report one, chosen by the plan (so that every one of
	// them is reported by some run and each run stays a pure function of its plan)
	if len(r.pendingKnowns) > 0 {
		return r.pendingKnowns[int(plan.Seed%uint64(len(r.pendingKnowns)))]
	}
	return nil
}

func (r *txRun) spendable(addr string) []UtxoRef {
	us, _ := r.n.ListUtxos(addr)
	h := r.n.L.GetMeta().TrunkHeight
	var out []UtxoRef
	for _, u := range us {
		if u.Frozen != -1 && u.Frozen <= h {
			out = append(out, u)
		}
	}
	return out
}

// ensureAccount creates and funds the multi-key account (threshold over two keys).
func (r *txRun) ensureAccount() bool {
	if r.acctOK {
		return true
	}
	n := r.n
	payer := Accts[0]
	acl := fmt.Sprintf(`{"pm":{"rule":1,"acceptValue":1.0},"aksWeight":{"%s":0.6,"%s":0.6}}`, Accts[3].Addr, Accts[4].Addr)
	req := &pb.InvokeRequest{ModuleName: "xkernel", ContractName: "$acl", MethodName: "NewAccount", Args: map[string][]byte{"account_name": []byte("4444444444444444"), "acl": []byte(acl)}}
	resp, err := n.Chain.PreExec(n.BaseCtx(), []*pb.InvokeRequest{req}, payer.Addr, []string{payer.Addr})
	if err != nil {
		return false
	}
	sp := &TxSpec{From: payer, Version: 3, Invoke: resp}
	need := big.NewInt(resp.GasUsed + 5000)
	got := new(big.Int)
	for _, u := range r.spendable(payer.Addr) {
		if got.Cmp(need) >= 0 {
			break
		}
		sp.Inputs = append(sp.Inputs, u)
		got.Add(got, u.Amount)
	}
	if got.Cmp(need) < 0 {
		return false
	}
	for i := 0; i < 5; i++ {
		sp.Outs = append(sp.Outs, OutSpec{To: c07Account, Amount: big.NewInt(1000)})
	}
	tx, err := BuildTx(sp)
	if err != nil {
		return false
	}
	if err := n.Chain.SubmitTx(n.BaseCtx(), tx); err != nil {
		return false
	}
	if _, err := n.Mine(MineOpts{MaxTx: -1}); err != nil {
		return false
	}
	// a second account ruled by a key set: every member of the (one) set has to sign
	acl2 := fmt.Sprintf(`{"pm":{"rule":2},"akSets":{"sets":{"1":{"aks":["%s","%s"]}},"expression":"1"}}`, Accts[3].Addr, Accts[4].Addr)
	req2 := &pb.InvokeRequest{ModuleName: "xkernel", ContractName: "$acl", MethodName: "NewAccount", Args: map[string][]byte{"account_name": []byte("5555555555555555"), "acl": []byte(acl2)}}
	resp2, err2 := n.Chain.PreExec(n.BaseCtx(), []*pb.InvokeRequest{req2}, payer.Addr, []string{payer.Addr})
	if err2 != nil {
		r.rc.Log.Add("key-set account not created: %v", err2)
	}
	if err := err2; err == nil {
		sp2 := &TxSpec{From: payer, Version: 3, Invoke: resp2}
		need2 := big.NewInt(resp2.GasUsed + 5000)
		got2 := new(big.Int)
		for _, u := range r.spendable(payer.Addr) {
			if got2.Cmp(need2) >= 0 {
				break
			}
			sp2.Inputs = append(sp2.Inputs, u)
			got2.Add(got2, u.Amount)
		}
		for i := 0; i < 5; i++ {
			sp2.Outs = append(sp2.Outs, OutSpec{To: c07SetAccount, Amount: big.NewInt(1000)})
		}
		tx2, err := BuildTx(sp2)
		if err == nil && got2.Cmp(need2) < 0 {
			err = fmt.Errorf("payer has %s, needs %s", got2, need2)
		}
		if err == nil {
			err = n.Chain.SubmitTx(n.BaseCtx(), tx2)
		}
		if err == nil {
			time.Sleep(time.Second) // two award transactions of one instant would be identical
			_, err = n.Mine(MineOpts{MaxTx: -1})
		}
		if err == nil {
			r.setAcctOK = true
			r.rc.St.Probes["akset-account-created"]++
		} else {
			r.rc.Log.Add("key-set account not created: %v", err)
		}
	}
	r.acctOK = true
	return true
}

// buildForm builds the honest transaction of a form (nil if not possible in the current state).
func (r *txRun) buildForm(f *TxForm) (*lpb.Transaction, []*Acct, *Acct) {
	n := r.n
	switch f.Kind {
	case "transfer":
		from := Accts[f.A%3]
		us := r.spendable(from.Addr)
		if len(us) == 0 {
			return nil, nil, nil
		}
		u := us[f.B%len(us)]
		amt := new(big.Int).Div(new(big.Int).Mul(u.Amount, big.NewInt(int64(1+f.Amt%4))), big.NewInt(5))
		sp := &TxSpec{From: from, Version: int32(f.Ver), Inputs: []UtxoRef{u}, Outs: []OutSpec{{To: Accts[f.C%nAcct].Addr, Amount: amt, Frozen: int64(f.Amt % 3)}}, Desc: []byte("pay")}
		if !r.plan.NoFee && f.Amt%2 == 0 && new(big.Int).Sub(u.Amount, amt).Cmp(big.NewInt(3)) >= 0 {
			sp.Outs = append(sp.Outs, OutSpec{To: "$", Amount: big.NewInt(3)})
		}
		tx, err := BuildTx(sp)
		if err != nil {
			return nil, nil, nil
		}
		return tx, []*Acct{from}, from
	case "multi":
		// inputs of two owners: both are listed signers
		a, b := Accts[f.A%3], Accts[(f.A+1)%3]
		ua, ub := r.spendable(a.Addr), r.spendable(b.Addr)
		if len(ua) == 0 || len(ub) == 0 {
			return nil, nil, nil
		}
		x, y := ua[f.B%len(ua)], ub[f.C%len(ub)]
		tot := new(big.Int).Add(x.Amount, y.Amount)
		sp := &TxSpec{From: a, Version: int32(f.Ver), Inputs: []UtxoRef{x, y}, Outs: []OutSpec{{To: Accts[3].Addr, Amount: tot}}, AuthRequire: []string{a.Addr, b.Addr}, Signers: []*Acct{a, b}}
		tx, err := BuildTx(sp)
		if err != nil {
			return nil, nil, nil
		}
		return tx, []*Acct{a, b}, a
	case "xsign":
		// inputs of two owners authorised by ONE aggregated signature (the crypto client's multi-signature
		// over the sum of the public keys) in the XuperSign field instead of the two signature lists
		a, b := Accts[f.A%3], Accts[(f.A+1)%3]
		ua, ub := r.spendable(a.Addr), r.spendable(b.Addr)
		if len(ua) == 0 || len(ub) == 0 {
			return nil, nil, nil
		}
		x, y := ua[f.B%len(ua)], ub[f.C%len(ub)]
		tot := new(big.Int).Add(x.Amount, y.Amount)
		tx, err := BuildTx(&TxSpec{From: a, Version: int32(f.Ver), Inputs: []UtxoRef{x, y}, Outs: []OutSpec{{To: Accts[3].Addr, Amount: tot}}, AuthRequire: []string{a.Addr, b.Addr}, Signers: []*Acct{a, b}})
		if err != nil {
			return nil, nil, nil
		}
		tx.InitiatorSigns, tx.AuthRequireSigns = nil, nil
		dg, err := txhash.MakeTxDigestHash(tx)
		if err != nil {
			return nil, nil, nil
		}
		sig, err := Crypto.MultiSign([]*ecdsa.PrivateKey{a.SK, b.SK}, dg)
		if err != nil {
			panic(fmt.Sprintf("c07: multi-sign: %v", err))
		}
		tx.XuperSign = &lpb.XuperSignature{PublicKeys: [][]byte{[]byte(a.Pub), []byte(b.Pub)}, Signature: sig}
		if tx.Txid, err = txhash.MakeTransactionID(tx); err != nil {
			return nil, nil, nil
		}
		return tx, []*Acct{a, b}, a
	case "kvtx":
		from := Accts[f.A%3]
		resp, err := n.PreExecProg(from, f.Prog, nil)
		if err != nil {
			return nil, nil, nil
		}
		sp := &TxSpec{From: from, Version: int32(f.Ver), Invoke: resp}
		need := big.NewInt(resp.GasUsed)
		got := new(big.Int)
		for _, u := range r.spendable(from.Addr) {
			if got.Cmp(need) >= 0 && len(sp.Inputs) > 0 {
				break
			}
			sp.Inputs = append(sp.Inputs, u)
			got.Add(got, u.Amount)
		}
		if got.Cmp(need) < 0 || len(sp.Inputs) == 0 {
			return nil, nil, nil
		}
		tx, err := BuildTx(sp)
		if err != nil {
			return nil, nil, nil
		}
		return tx, []*Acct{from}, from
	case "account":
		if !r.ensureAccount() {
			return nil, nil, nil
		}
		acct := c07Account
		if r.setAcctOK && f.A%2 == 1 {
			acct = c07SetAccount
		}
		us := r.spendable(acct)
		if len(us) == 0 {
			return nil, nil, nil
		}
		u := us[f.B%len(us)]
		ini := Accts[3]
		if acct == c07SetAccount {
			r.rc.St.Ops["form-account-akset"]++
			sp := &TxSpec{From: ini, Version: 3, Inputs: []UtxoRef{u}, Outs: []OutSpec{{To: Accts[f.C%nAcct].Addr, Amount: u.Amount}}, NoChange: true,
				AuthRequire: []string{acct + "/" + Accts[3].Addr, acct + "/" + Accts[4].Addr}, Signers: []*Acct{Accts[3], Accts[4]}}
			tx, err := BuildTx(sp)
			if err != nil {
				return nil, nil, nil
			}
			return tx, []*Acct{Accts[3], Accts[4]}, ini
		}
		sp := &TxSpec{From: ini, Version: 3, Inputs: []UtxoRef{u}, Outs: []OutSpec{{To: Accts[f.C%nAcct].Addr, Amount: u.Amount}}, NoChange: true,
			AuthRequire: []string{c07Account + "/" + Accts[3].Addr, c07Account + "/" + Accts[4].Addr}, Signers: []*Acct{Accts[3], Accts[4]}}
		tx, err := BuildTx(sp)
		if err != nil {
			return nil, nil, nil
		}
		return tx, []*Acct{Accts[3], Accts[4]}, ini
	}
	return nil, nil, nil
}

// admitted reports whether the node would admit tx: VerifyTx, and if that passes, SubmitTx on a copy
// of the node (so that the live node is not changed by a mutant).
func (r *txRun) admitted(tx *lpb.Transaction) bool {
	// Admission is what the public entry point (Chain.SubmitTx) does. State.VerifyTx is only a cheap
	// pre-filter, and only where it refuses WITH an error; even then one refusal in thirty-two is put
	// through SubmitTx as well, so the oracle never rests on how SubmitTx reads VerifyTx's answer.
	ok, err := r.n.S.VerifyTx(CloneTx(tx))
	r.nAdm++
	if err != nil && (r.nAdm+int(r.plan.Seed%32))%32 != 0 {
		return false
	}
	switch {
	case err != nil:
		r.rc.St.Probes["verifytx-refusal-cross-checked-by-submit"]++
	case !ok:
		r.rc.St.Probes["verifytx-false-without-error"]++
	default:
		r.rc.St.Probes["mutant-passed-verifytx"]++
	}
	tw, err := r.n.Twin()
	if err != nil {
		panic(err)
	}
	defer tw.Drop()
	return tw.Chain.SubmitTx(tw.BaseCtx(), CloneTx(tx)) == nil
}

// admittedViaBlock packs tx (after the award) into a block signed by the chain's producer on a twin of
// the node and lets the twin process it like a block received from the network.
func (r *txRun) admittedViaBlock(tx *lpb.Transaction) bool {
	return r.admittedViaBlockOpt(tx, false)
}

func (r *txRun) admittedViaBlockOpt(tx *lpb.Transaction, asAward bool) bool {
	tw, err := r.n.Twin()
	if err != nil {
		panic(err)
	}
	defer tw.Drop()
	time.Sleep(time.Millisecond) // never the award of the instant of an earlier block
	blk, err := tw.PackBlock(MineOpts{MaxTx: -1, Txs: []*lpb.Transaction{CloneTx(tx)}, NoAward: asAward})
	if err != nil {
		return false
	}
	blk = CloneBlock(blk)
	if err := tw.Chain.ProcBlock(tw.BaseCtx(), blk); err != nil {
		return false
	}
	return bytes.Equal(tw.S.GetLatestBlockid(), blk.Blockid)
}

func (r *txRun) noteDigest(tx *lpb.Transaction, what string) *Violation {
	d, err := txhash.MakeTxDigestHash(tx)
	if err != nil {
		return nil
	}
	sb := string(semanticBytes(tx))
	if prev, ok := r.digests[string(d)]; ok && prev != sb {
		a, b := &lpb.Transaction{}, &lpb.Transaction{}
		proto.Unmarshal([]byte(prev), a)
		proto.Unmarshal([]byte(sb), b)
		vi := r.viol("digest-collision", "two transactions that differ in a covered field share the digest %x (%s): %s  VERSUS  %s", d[:6], what, proto.CompactTextString(a), proto.CompactTextString(b))
		if a.Version < 3 && b.Version < 3 && bytes.Equal(detMarshal(compactAdjacentBytes(a)), detMarshal(compactAdjacentBytes(b))) {
			// known finding: the version 1 / 2 digest writes values only and leaves out empty byte strings, so
			// a byte string can move between two adjacent such fields without changing the pre-image
			vi.Clause = "digest-collision-empty-bytes-omitted-v1v2"
			r.rc.St.Probes["known-digest-collision-v1v2"]++
			r.notePending(vi)
			return nil
		}
		return vi
	}
	r.digests[string(d)] = sb
	return nil
}

const c07Ghost = "XC9999999999999999@xuper" // a well-formed account name that is never created

// doUnauthorised submits correctly signed transactions whose signers do NOT own what they spend: an
// output of another address, an output of a threshold account with too little weight, an output of
// an account name that has no access-control rule at all. None may be admitted.
func (r *txRun) doUnauthorised(f *TxForm) *Violation {
	n := r.n
	thief := Accts[1+f.A%2]
	try := func(what string, sp *TxSpec) *Violation {
		tx, err := BuildTx(sp)
		if err != nil {
			return nil
		}
		r.rc.St.Probes["unauthorised-spend-tried"]++
		tw, err := n.Twin()
		if err != nil {
			panic(err)
		}
		defer tw.Drop()
		if tw.Chain.SubmitTx(tw.BaseCtx(), CloneTx(tx)) == nil {
			return r.viol("unauthorised-spend-admitted", "%s was admitted: %s signed by %v", what, descTx(tx), sp.AuthRequire)
		}
		// ... and packed into a block by an entitled producer, also flagged as auto-generated
		for _, auto := range []bool{false, true} {
			m := CloneTx(tx)
			if auto {
				m.Autogen = true
				m.Txid, _ = txhash.MakeTransactionID(m)
			}
			r.rc.St.Probes["unauthorised-spend-tried-through-block"]++
			if r.admittedViaBlock(m) {
				return r.viol("unauthorised-spend-admitted", "%s (autogen flag %v) was admitted THROUGH A BLOCK: %s signed by %v", what, auto, descTx(m), sp.AuthRequire)
			}
		}
		// ... and posing as the block's award: flagged coinbase, first output exactly the award, the rest
		// of the stolen amount behind it, no other award in the block
		if len(tx.TxInputs) > 0 && len(tx.TxOutputs) > 0 {
			m := CloneTx(tx)
			h := n.L.GetMeta().TrunkHeight + 1
			award := n.L.GenesisBlock.CalcAward(h)
			tot := new(big.Int)
			for _, in := range m.TxInputs {
				tot.Add(tot, new(big.Int).SetBytes(in.Amount))
			}
			if tot.Cmp(award) > 0 {
				to := m.TxOutputs[0].ToAddr
				m.TxOutputs = []*pb.TxOutput{{ToAddr: to, Amount: award.Bytes()}, {ToAddr: to, Amount: new(big.Int).Sub(tot, award).Bytes()}}
				m.Coinbase = true
				m.InitiatorSigns, m.AuthRequireSigns = nil, nil
				m.Txid, _ = txhash.MakeTransactionID(m)
				r.rc.St.Probes["unauthorised-spend-tried-as-award"]++
				if r.admittedViaBlockOpt(m, true) {
					return r.viol("unauthorised-spend-admitted", "%s, unsigned and posing as the award of the block (coinbase flag, first output = award), was admitted THROUGH A BLOCK: %s", what, descTx(m))
				}
			}
		}
		return nil
	}
	switch f.B % 4 {
	case 3: // key-set account: members named only as inner path elements, or one member missing
		if !r.ensureAccount() || !r.setAcctOK {
			return nil
		}
		us := r.spendable(c07SetAccount)
		if len(us) == 0 {
			return nil
		}
		u := us[f.C%len(us)]
		m3, m4 := Accts[3].Addr, Accts[4].Addr
		cases := []struct {
			what    string
			ar      []string
			signers []*Acct
			from    *Acct
		}{
			{"a spend of a key-set account's output naming the members only as inner elements of the thief's own signer paths", []string{c07SetAccount + "/" + m3 + "/" + thief.Addr, c07SetAccount + "/" + m4 + "/" + thief.Addr}, []*Acct{thief, thief}, thief},
			{"a spend of a key-set account's output signed by one of its two members", []string{c07SetAccount + "/" + m3}, []*Acct{Accts[3]}, Accts[3]},
			{"a spend of a key-set account's output signed by one member, the other named as an inner element", []string{c07SetAccount + "/" + m3, c07SetAccount + "/" + m4 + "/" + m3}, []*Acct{Accts[3], Accts[3]}, Accts[3]},
		}
		c := cases[f.A%len(cases)]
		return try(c.what, &TxSpec{From: c.from, Version: 3, Inputs: []UtxoRef{u}, Outs: []OutSpec{{To: c.from.Addr, Amount: u.Amount}}, NoChange: true, AuthRequire: c.ar, Signers: c.signers})
	case 0: // output of another address
		us := r.spendable(Accts[0].Addr)
		if len(us) == 0 {
			return nil
		}
		u := us[f.C%len(us)]
		if f.A%2 == 1 {
			// ... "justified" by a forged record of contract-performed inputs, with no contract request at
			// all: nothing is re-executed that could reproduce the record
			sp := &TxSpec{From: thief, Version: int32(f.Ver), Inputs: []UtxoRef{u}, Outs: []OutSpec{{To: thief.Addr, Amount: u.Amount}}, NoChange: true}
			tx, err := BuildTx(sp)
			if err != nil {
				return nil
			}
			rec, err := xmodel.MarshalMessages(tx.TxInputs)
			if err != nil {
				return nil
			}
			tx.TxOutputsExt = []*pb.TxOutputExt{{Bucket: "$transient", Key: []byte("ContractUtxo.Inputs"), Value: rec}}
			if err := SignTx(tx, thief, nil); err != nil {
				return nil
			}
			r.rc.St.Probes["unauthorised-spend-tried"]++
			r.rc.St.Probes["forged-contract-utxo-record-tried"]++
			tw, err := n.Twin()
			if err != nil {
				panic(err)
			}
			defer tw.Drop()
			if tw.Chain.SubmitTx(tw.BaseCtx(), CloneTx(tx)) == nil {
				return r.viol("unauthorised-spend-admitted", "a spend of another address's output carrying a forged record of contract-performed inputs and no contract request was admitted: %s", descTx(tx))
			}
			return nil
		}
		if f.A%2 == 0 && f.C%3 == 1 {
			// ... dressed as a transaction "marked" by the regulatory address (whose signature stands in
			// for the ordinary checks), with a well-formed signature that is not the regulator's over this
			// transaction: made by another key, or by the regulator over another transaction
			regulator := Accts[5]
			tx, err := BuildTx(&TxSpec{From: thief, Version: int32(f.Ver), Inputs: []UtxoRef{u}, Outs: []OutSpec{{To: thief.Addr, Amount: u.Amount}}, NoChange: true})
			if err != nil {
				return nil
			}
			signed := CloneTx(tx)
			signer, how := thief, "signed by another key"
			if f.B%8 >= 4 {
				signer, how = regulator, "carrying the regulator's signature over another transaction"
				signed.Desc = append(signed.Desc, 'x')
			}
			signed.ModifyBlock = &lpb.ModifyBlock{}
			dg, err := txhash.MakeTxDigestHash(signed)
			if err != nil {
				return nil
			}
			sig, err := Crypto.SignECDSA(signer.SK, dg)
			if err != nil {
				return nil
			}
			tx.ModifyBlock = &lpb.ModifyBlock{Marked: true, EffectiveHeight: 0, PublicKey: regulator.Pub, Sign: hex.EncodeToString(sig)}
			if tx.Txid, err = txhash.MakeTransactionID(tx); err != nil {
				return nil
			}
			r.rc.St.Probes["unauthorised-spend-tried"]++
			r.rc.St.Probes["forged-regulator-mark-tried"]++
			tw, err := n.Twin()
			if err != nil {
				panic(err)
			}
			defer tw.Drop()
			tw.S.XsimSetModifyBlockAddr(regulator.Addr)
			if ok, err := tw.S.VerifyTx(CloneTx(tx)); ok && err == nil {
				return r.viol("forged-regulator-mark-verified", "a spend of another address's output marked as regulated, %s, passed State.VerifyTx: %s", how, descTx(tx))
			}
			if tw.Chain.SubmitTx(tw.BaseCtx(), CloneTx(tx)) == nil {
				return r.viol("unauthorised-spend-admitted", "a spend of another address's output marked as regulated, %s, was admitted: %s", how, descTx(tx))
			}
			return nil
		}
		if f.C%3 == 0 && f.B == 4 {
			// ... under a multi-signature nobody but the thief made: the aggregate is checked against the SUM
			// of the listed public keys, so the thief lists a made-up key P' = x*G - P_owner (whose private
			// key nobody knows; only the address has to match the key) as the initiator's and signs with x
			victim := Accts[0]
			pv, err := Crypto.GetEcdsaPublicKeyFromJsonStr(victim.Pub)
			if err != nil {
				panic(err)
			}
			curve := pv.Curve
			x := new(big.Int).SetBytes(sha256Sum([]byte(fmt.Sprintf("rogue-x-%d-%d", r.plan.Seed, r.step))))
			k := new(big.Int).SetBytes(sha256Sum([]byte(fmt.Sprintf("rogue-k-%d-%d", r.plan.Seed, r.step))))
			xgx, xgy := curve.ScalarBaseMult(x.Bytes())
			rx, ry := curve.Add(xgx, xgy, pv.X, new(big.Int).Sub(curve.Params().P, pv.Y))
			rogue := &ecdsa.PublicKey{Curve: curve, X: rx, Y: ry}
			rogueAddr, err := Crypto.GetAddressFromPublicKey(rogue)
			if err != nil {
				panic(err)
			}
			roguePub := fmt.Sprintf(`{"Curvname":"P-256","X":%s,"Y":%s}`, rx, ry)
			tx, err := BuildTx(&TxSpec{From: thief, Version: int32(f.Ver), Inputs: []UtxoRef{u}, Outs: []OutSpec{{To: thief.Addr, Amount: u.Amount}}, NoChange: true, AuthRequire: []string{victim.Addr}, Signers: []*Acct{thief}})
			if err != nil {
				return nil
			}
			tx.Initiator = rogueAddr
			tx.InitiatorSigns, tx.AuthRequireSigns = nil, nil
			dg, err := txhash.MakeTxDigestHash(tx)
			if err != nil {
				return nil
			}
			keys := []*ecdsa.PublicKey{rogue, pv}
			c, err := Crypto.GetSharedPublicKeyForPublicKeys(keys)
			if err != nil {
				panic(err)
			}
			kgx, kgy := curve.ScalarBaseMult(k.Bytes())
			rr := elliptic.Marshal(curve, kgx, kgy)
			e := new(big.Int).SetBytes(sha256Sum(bytes.Join([][]byte{c, rr, dg}, nil)))
			sv := new(big.Int).Add(k, new(big.Int).Mul(e, x))
			sig, err := Crypto.GenerateMultiSignSignature(sv.Bytes(), rr)
			if err != nil {
				panic(err)
			}
			if ok, err := Crypto.VerifyXuperSignature(keys, sig, dg); !ok || err != nil {
				panic(fmt.Sprintf("c07: the rogue-key aggregate does not verify under the library: %v", err))
			}
			tx.XuperSign = &lpb.XuperSignature{PublicKeys: [][]byte{[]byte(roguePub), []byte(victim.Pub)}, Signature: sig}
			if tx.Txid, err = txhash.MakeTransactionID(tx); err != nil {
				return nil
			}
			r.rc.St.Probes["unauthorised-spend-tried"]++
			r.rc.St.Probes["rogue-key-aggregate-tried"]++
			tw, err := n.Twin()
			if err != nil {
				panic(err)
			}
			defer tw.Drop()
			if tw.Chain.SubmitTx(tw.BaseCtx(), CloneTx(tx)) == nil {
				r.rc.St.Probes["known-rogue-key-aggregate"]++
				r.notePending(r.viol("rogue-key-aggregate-admitted", "a spend of another address's output under a multi-signature the owner took no part in was admitted: the initiator's listed public key is x*G minus the owner's key, so the sum the aggregate is checked against is x*G and x signs alone | %s", descTx(tx)))
			}
			return nil
		}
		if f.A%2 == 0 && f.C%3 == 2 {
			// ... with the owner merely LISTED: initiator thief, owner named as required signer, and one
			// aggregated-signature field holding both public keys but only the thief's plain signature
			victim := Accts[0]
			tx, err := BuildTx(&TxSpec{From: thief, Version: int32(f.Ver), Inputs: []UtxoRef{u}, Outs: []OutSpec{{To: thief.Addr, Amount: u.Amount}}, NoChange: true, AuthRequire: []string{victim.Addr}, Signers: []*Acct{thief}})
			if err != nil {
				return nil
			}
			tx.InitiatorSigns, tx.AuthRequireSigns = nil, nil
			dg, err := txhash.MakeTxDigestHash(tx)
			if err != nil {
				return nil
			}
			sig, err := Crypto.SignECDSA(thief.SK, dg)
			if err != nil {
				return nil
			}
			tx.XuperSign = &lpb.XuperSignature{PublicKeys: [][]byte{[]byte(thief.Pub), []byte(victim.Pub)}, Signature: sig}
			if tx.Txid, err = txhash.MakeTransactionID(tx); err != nil {
				return nil
			}
			r.rc.St.Probes["unauthorised-spend-tried"]++
			r.rc.St.Probes["aggregate-field-with-single-signature-tried"]++
			tw, err := n.Twin()
			if err != nil {
				panic(err)
			}
			defer tw.Drop()
			if tw.Chain.SubmitTx(tw.BaseCtx(), CloneTx(tx)) == nil {
				return r.viol("unauthorised-spend-admitted", "a spend of another address's output whose aggregated-signature field lists the owner's public key but holds only the initiator's plain ECDSA signature was admitted: %s", descTx(tx))
			}
			return nil
		}
		return try("a spend of another address's output", &TxSpec{From: thief, Version: int32(f.Ver), Inputs: []UtxoRef{u}, Outs: []OutSpec{{To: thief.Addr, Amount: u.Amount}}, NoChange: true})
	case 1: // threshold account, one of two 0.6-weight keys against a threshold of 1.0
		if !r.ensureAccount() {
			return nil
		}
		us := r.spendable(c07Account)
		if len(us) == 0 {
			return nil
		}
		u := us[f.C%len(us)]
		one := Accts[3+f.A%2]
		for _, ar := range [][]string{{c07Account + "/" + one.Addr}, {c07Account + "/" + one.Addr, c07Account + "/" + one.Addr}} {
			signers := []*Acct{one}
			if len(ar) == 2 {
				signers = []*Acct{one, one}
			}
			if v := try("a spend of a threshold-account output with one key of weight 0.6 (threshold 1.0)", &TxSpec{From: one, Version: 3, Inputs: []UtxoRef{u}, Outs: []OutSpec{{To: one.Addr, Amount: u.Amount}}, NoChange: true, AuthRequire: ar, Signers: signers}); v != nil {
				return v
			}
		}
	case 2: // account name without any rule
		if us := r.spendable(c07Ghost); len(us) == 0 {
			payer := Accts[0]
			pu := r.spendable(payer.Addr)
			if len(pu) == 0 {
				return nil
			}
			tx, err := BuildTx(&TxSpec{From: payer, Version: 3, Inputs: []UtxoRef{pu[0]}, Outs: []OutSpec{{To: c07Ghost, Amount: big.NewInt(500)}, {To: c07Ghost, Amount: big.NewInt(501)}}})
			if err != nil || n.Chain.SubmitTx(n.BaseCtx(), tx) != nil {
				return nil
			}
			time.Sleep(time.Second)
			if _, err := n.Mine(MineOpts{MaxTx: -1}); err != nil {
				return nil
			}
		}
		us := r.spendable(c07Ghost)
		if len(us) == 0 {
			return nil
		}
		u := us[f.C%len(us)]
		for _, ar := range [][]string{{thief.Addr}, {c07Ghost + "/" + thief.Addr}} {
			if v := try("a spend of an output owned by an account name that has no access-control rule", &TxSpec{From: thief, Version: int32(1 + f.Ver%3), Inputs: []UtxoRef{u}, Outs: []OutSpec{{To: thief.Addr, Amount: u.Amount}}, NoChange: true, AuthRequire: ar, Signers: []*Acct{thief}}); v != nil {
				return v
			}
		}
	}
	return nil
}

func (r *txRun) doForm(f *TxForm) *Violation {
	if f.Kind == "unauthorised" {
		return r.doUnauthorised(f)
	}
	tx, signers, ini := r.buildForm(f)
	if tx == nil {
		r.rc.Log.Add("%d form %s: not buildable", r.step, f.Kind)
		return nil
	}
	r.rc.St.Ops["form-"+f.Kind]++
	// (iv) the unmutated honest transaction verifies
	if ok, err := r.n.S.VerifyTx(CloneTx(tx)); err != nil || !ok {
		return r.viol("honest-tx-rejected", "honest %s transaction (version %d) fails verification: %v | %s", f.Kind, tx.Version, err, descTx(tx))
	}
	if v := r.noteDigest(tx, "original"); v != nil {
		return v
	}
	orig := detMarshal(tx)
	muts := Mutations(tx)
	tested := 0
	try := func(m *lpb.Transaction, what string, semantic bool) *Violation {
		mb := detMarshal(m)
		if bytes.Equal(mb, orig) {
			return nil
		}
		tested++
		r.rc.St.Faults["tx-field-mutation"]++
		if v := r.noteDigest(m, what); v != nil {
			return v
		}
		if !semantic {
			return nil
		}
		adm, via := r.admitted(m), ""
		// the other way in: a producer packs the mutant into a block of its own and the node processes
		// that block (always for the producer-only flags, else one refused mutant in twenty-four)
		if !adm && (strings.HasPrefix(what, "Autogen") || strings.HasPrefix(what, "Coinbase") || (r.nAdm+int(r.plan.Seed%24))%24 == 0) {
			r.rc.St.Probes["mutant-tried-through-block"]++
			if r.admittedViaBlock(m) {
				adm, via = true, " THROUGH A BLOCK (packed by an entitled producer, processed by Chain.ProcBlock)"
			}
		}
		if adm {
			vi := r.viol("mutated-tx-admitted", "%s form: mutation %s was admitted%s | original %s | mutant %s", f.Kind, what, via, descTx(tx), descTx(m))
			if bytes.Equal(semanticBytes(m), semanticBytes(tx)) && stillAuthorised(m) {
				// known finding: only the signature lists differ and every required signer still has a valid
				// signature - the node ignores the altered entry (txid malleability), nothing unsigned happens
				vi.Clause = "signature-list-malleable"
				r.rc.St.Probes["known-signature-list-malleable"]++
				r.notePending(vi)
				return nil
			}
			return vi
		}
		return nil
	}
	for _, mu := range muts {
		if strings.HasPrefix(mu.Path, "Txid") {
			m := CloneTx(tx)
			mu.Apply(m)
			if v := try(m, mu.String(), true); v != nil {
				return v
			}
			continue
		}
		for _, recompute := range []bool{false, true} {
			m := CloneTx(tx)
			mu.Apply(m)
			what := mu.String()
			if recompute {
				m.Txid, _ = txhash.MakeTransactionID(m)
				what += "+txid-recomputed"
			}
			if v := try(m, what, !excludedPath(mu.Path)); v != nil {
				return v
			}
		}
	}
	// signature operators (on the two signature lists; the aggregated form has none)
	other := Accts[(ini.Idx+1)%len(Accts)]
	if tx.XuperSign != nil {
		other = nil
	}
	sigOps := []struct {
		name string
		f    func(m *lpb.Transaction)
	}{
		{"initiator signs with a different key, public key kept", func(m *lpb.Transaction) {
			s, _ := txhash.ProcessSignTx(Crypto, m, []byte(other.Priv))
			m.InitiatorSigns[0].Sign = s
		}},
		{"initiator signs with a different key, public key replaced", func(m *lpb.Transaction) {
			s, _ := txhash.ProcessSignTx(Crypto, m, []byte(other.Priv))
			m.InitiatorSigns[0] = &pb.SignatureInfo{PublicKey: other.Pub, Sign: s}
		}},
		{"listed signer's signature replaced by a foreign key's", func(m *lpb.Transaction) {
			s, _ := txhash.ProcessSignTx(Crypto, m, []byte(other.Priv))
			m.AuthRequireSigns[len(m.AuthRequireSigns)-1] = &pb.SignatureInfo{PublicKey: other.Pub, Sign: s}
		}},
		{"signature replayed from an earlier transaction of the same signer", func(m *lpb.Transaction) {
			if p, ok := r.prevSig[signers[0].Addr]; ok {
				m.InitiatorSigns[0] = p
				m.AuthRequireSigns[0] = p
			}
		}},
		{"signatures of initiator and last signer swapped", func(m *lpb.Transaction) {
			m.InitiatorSigns[0], m.AuthRequireSigns[len(m.AuthRequireSigns)-1] = m.AuthRequireSigns[len(m.AuthRequireSigns)-1], m.InitiatorSigns[0]
		}},
		{"all listed signers' signatures removed", func(m *lpb.Transaction) { m.AuthRequireSigns = nil }},
		{"initiator signature removed", func(m *lpb.Transaction) { m.InitiatorSigns = nil }},
	}
	for _, so := range sigOps {
		if other == nil {
			break
		}
		m := CloneTx(tx)
		so.f(m)
		m.Txid, _ = txhash.MakeTransactionID(m)
		// swapping is only a change when the two signatures differ in key
		if so.name == "signatures of initiator and last signer swapped" && m.InitiatorSigns[0].PublicKey == m.AuthRequireSigns[len(m.AuthRequireSigns)-1].PublicKey {
			continue
		}
		if v := try(m, so.name, true); v != nil {
			return v
		}
	}
	r.rc.St.Probes["mutations-tested"] += tested
	r.rc.Log.Add("%d form %s v%d: %d mutation sites, %d distinct mutants tested | %s", r.step, f.Kind, tx.Version, len(muts), tested, descTx(tx))
	// the honest transaction itself is admitted
	if err := r.n.Chain.SubmitTx(r.n.BaseCtx(), CloneTx(tx)); err != nil {
		return r.viol("honest-tx-rejected", "honest %s transaction (version %d) refused by SubmitTx: %v | %s", f.Kind, tx.Version, err, descTx(tx))
	}
	r.rc.St.Probes["honest-admitted-"+f.Kind]++
	if len(tx.InitiatorSigns) > 0 {
		r.prevSig[signers[0].Addr] = tx.InitiatorSigns[0]
	}
	// While the honest transaction is pending, a producer's block carries DIFFERENT content under its
	// id (a node skips verifying block transactions it already holds as pending). Whatever the node
	// does with that block, its ledger must not end up holding content no client signed.
	if len(tx.TxOutputs) > 0 && (r.step+int(r.plan.Seed))%2 == 0 {
		for _, marked := range []bool{false, true} {
			forged := CloneTx(tx)
			forged.TxOutputs[0].ToAddr = []byte(Accts[7].Addr)
			if marked {
				forged.ModifyBlock = &lpb.ModifyBlock{Marked: true}
			}
			r.rc.St.Probes["pending-txid-reused-in-block"]++
			tw, err := r.n.Twin()
			if err != nil {
				panic(err)
			}
			time.Sleep(time.Millisecond)
			if blk, err := tw.PackBlock(MineOpts{MaxTx: -1, Txs: []*lpb.Transaction{forged}}); err == nil {
				blk = CloneBlock(blk)
				tw.Chain.ProcBlock(tw.BaseCtx(), blk)
				// (the ledger stores a block before the state machine judges its body; only a block the state
				// machine APPLIED counts as accepted)
				if lt, err := tw.L.QueryTransaction(tx.Txid); err == nil && bytes.Equal(tw.S.GetLatestBlockid(), blk.Blockid) && !bytes.Equal(semanticBytes(lt), semanticBytes(tx)) {
					in := tw.L.IsTxInTrunk(tx.Txid)
					tw.Drop()
					return r.viol("ledger-holds-unsigned-content", "a block carrying different content under the id of the pending transaction %s (first output redirected, marked=%v) was APPLIED by the state machine; the ledger now answers QueryTransaction with the forged content (in trunk: %v)", hx(tx.Txid), marked, in)
				}
			}
			tw.Drop()
		}
	}
	if f.Mine {
		time.Sleep(time.Second)
		if _, err := r.n.Mine(MineOpts{MaxTx: -1}); err != nil {
			return r.viol("honest-block-failed", "mining the honest transactions failed: %v", err)
		}
		// the ledger only ever holds what a client signed
		lt, err := r.n.L.QueryTransaction(tx.Txid)
		if err != nil || !bytes.Equal(semanticBytes(lt), semanticBytes(tx)) {
			return r.viol("ledger-holds-unsigned-content", "confirmed transaction %s differs from what the client signed", hx(tx.Txid))
		}
	}
	return nil
}

func sha256Sum(b []byte) []byte {
	h := sha256.Sum256(b)
	return h[:]
}
