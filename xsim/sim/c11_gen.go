package sim

import (
	"pgregory.net/rapid"
)

// C11Sig selects the signers of one transaction. Modes other than 0 are resolved at execution time
// against the REFERENCE model (never against the code under test), so that boundary cases (exactly
// enough, one short, enough only for the pending / undone rule) are frequent.
type C11Sig struct {
	Mode int  `json:"mode"` // 0 mask; 1 minimal satisfying set of the confirmed rule; 2 such a set minus one signer; 3 minimal set of the pending rule; 4 minimal set of the rule undone by the last reorganisation; 5 every key directly
	Mask int  `json:"mask,omitempty"`
	Pick int  `json:"pick,omitempty"`
	Var  int  `json:"var,omitempty"` // 0 none; 1 one entry repeated; 2 a key signing for another account; 3 a member name as inner path element of somebody else's signature
	Arg  int  `json:"arg,omitempty"`
	Rev  bool `json:"rev,omitempty"`
}

// C11Step is one step of a C11 plan.
type C11Step struct {
	Op    string   `json:"op"` // setacl setmacl spend invoke mine reorg enum
	T     int      `json:"t,omitempty"`
	Rule  *C11Rule `json:"rule,omitempty"`
	Sig   C11Sig   `json:"sig"`
	Depth int      `json:"depth,omitempty"`
	FR    int      `json:"fr,omitempty"` // k > 0: the k-th storage read of the node's admission of this transaction fails
}

// C11Plan is a complete C11 scenario.
type C11Plan struct {
	Seed    uint64    `json:"seed"`
	MapSeed uint64    `json:"map_seed,omitempty"`
	RuleA   *C11Rule  `json:"rule_a"`
	RuleB   *C11Rule  `json:"rule_b"`
	RuleF   *C11Rule  `json:"rule_f"`
	RuleM   *C11Rule  `json:"rule_m,omitempty"`
	Steps   []C11Step `json:"steps"`
}

func c11Positive(r *C11Rule) float64 {
	s := 0.0
	for _, m := range r.Mem {
		if m.W > 0 {
			s += m.W
		}
	}
	return s
}

// genC11Rule draws a rule over the keys and the allowed member accounts. Weights are small
// multiples of 1, 1/2 or 1/4 (exact in binary floating point); the threshold is placed exactly at,
// one unit below or one unit above the weight of a drawn member subset.
func genC11Rule(rt *rapid.T, accts []int, satisfiable bool) *C11Rule {
	return genC11RuleOver(rt, []int{0, 1, 2, 3, 4}, accts, satisfiable)
}

func genC11RuleOver(rt *rapid.T, keys []int, accts []int, satisfiable bool) *C11Rule {
	cands := append([]int(nil), keys...)
	cands = append(cands, accts...)
	pickMembers := func(max int, label string) []int {
		n := rapid.IntRange(1, max).Draw(rt, label)
		pool := append([]int(nil), cands...)
		var out []int
		for i := 0; i < n && len(pool) > 0; i++ {
			var j int
			// prefer a nested account now and then: it is the rare case
			if len(accts) > 0 && i == 0 && rapid.IntRange(0, 2).Draw(rt, "nest") == 2 {
				j = len(pool) - 1
			} else {
				j = rapid.IntRange(0, len(pool)-1).Draw(rt, "member")
			}
			out = append(out, pool[j])
			pool = append(pool[:j], pool[j+1:]...)
		}
		return out
	}
	r := &C11Rule{}
	if rapid.IntRange(0, 9).Draw(rt, "rulekind") >= 7 {
		r.Kind = 1
		ns := rapid.IntRange(1, 3).Draw(rt, "nsets")
		for i := 0; i < ns; i++ {
			r.Sets = append(r.Sets, pickMembers(3, "setsize"))
		}
		return r
	}
	unit := rapid.SampledFrom([]float64{1, 0.5, 0.25}).Draw(rt, "unit")
	mem := pickMembers(4, "nmem")
	for _, m := range mem {
		w := rapid.SampledFrom([]int{1, 2, 1, 3, 0, 2, 4, 1, -1}).Draw(rt, "weight")
		r.Mem = append(r.Mem, C11Mem{M: m, W: float64(w) * unit})
	}
	// threshold relative to a member subset
	sum := 0.0
	any := false
	for _, m := range r.Mem {
		if rapid.Bool().Draw(rt, "intarget") {
			sum += m.W
			any = true
		}
	}
	if !any {
		sum = r.Mem[0].W
	}
	delta := rapid.SampledFrom([]int{0, 0, 1, -1, 0, 1}).Draw(rt, "delta")
	r.Thr = sum + float64(delta)*unit
	if r.Thr <= 0 && rapid.IntRange(0, 7).Draw(rt, "zerothr") != 7 {
		r.Thr = unit
	}
	if satisfiable && c11Positive(r) < r.Thr {
		r.Thr = c11Positive(r)
		if r.Thr <= 0 {
			r.Mem[0].W = unit
			r.Thr = unit
		}
	}
	return r
}

func genC11Sig(rt *rapid.T, bits int) C11Sig {
	s := C11Sig{}
	s.Mode = rapid.SampledFrom([]int{1, 0, 2, 3, 1, 4, 0, 2, 5, 3}).Draw(rt, "sigmode")
	s.Mask = rapid.IntRange(0, (1<<uint(bits))-1).Draw(rt, "mask")
	s.Pick = rapid.IntRange(0, 7).Draw(rt, "pick")
	s.Var = rapid.SampledFrom([]int{0, 0, 0, 1, 2, 3, 0, 3}).Draw(rt, "variant")
	s.Arg = rapid.IntRange(0, 24).Draw(rt, "arg")
	s.Rev = rapid.Bool().Draw(rt, "rev")
	return s
}

// GenC11Plan draws a C11 plan.
func GenC11Plan(rt *rapid.T, tier string) *C11Plan {
	pl := &C11Plan{}
	pl.Seed = rapid.Uint64Range(1, 1<<40).Draw(rt, "seed")
	if rapid.Bool().Draw(rt, "maporder") {
		pl.MapSeed = rapid.Uint64Range(1, 1<<30).Draw(rt, "mapseed")
	}
	// B's members are mostly the keys that also sign on B's behalf in the enumerated universe
	pl.RuleB = genC11RuleOver(rt, []int{2, 3, 4, 1}, nil, true)
	pl.RuleF = genC11Rule(rt, nil, true)
	pl.RuleA = genC11Rule(rt, []int{C11B}, true)
	if rapid.IntRange(0, 3).Draw(rt, "initmethodrule") > 0 {
		pl.RuleM = genC11Rule(rt, []int{C11B}, false)
	}
	maxSteps, maxEnum := 12, 2
	if tier == "thorough" {
		maxSteps, maxEnum = 30, 6
	}
	ops := []string{"setacl", "mine", "setacl", "invoke", "spend", "setmacl", "reorg", "mine", "setacl", "enum", "invoke", "reorg", "setaclB", "mine"}
	ns := rapid.IntRange(3, maxSteps).Draw(rt, "nsteps")
	enums := 0
	for i := 0; i < ns; i++ {
		st := C11Step{Op: rapid.SampledFrom(ops).Draw(rt, "op")}
		switch st.Op {
		case "setacl":
			st.T = C11A
			st.Rule = genC11Rule(rt, []int{C11B}, rapid.IntRange(0, 4).Draw(rt, "maylock") > 0)
			st.Sig = genC11Sig(rt, 8)
		case "setaclB":
			st.Op = "setacl"
			st.T = C11B
			st.Rule = genC11RuleOver(rt, []int{2, 3, 4, 1}, nil, true)
			st.Sig = genC11Sig(rt, 5)
		case "setmacl":
			st.Rule = genC11Rule(rt, []int{C11B}, false)
			st.Sig = genC11Sig(rt, 8)
		case "spend":
			st.Sig = genC11Sig(rt, 8)
		case "invoke":
			st.Sig = genC11Sig(rt, 8)
		case "reorg":
			st.Depth = rapid.IntRange(1, 2).Draw(rt, "depth")
		case "enum":
			if enums >= maxEnum {
				st.Op = "mine"
			} else {
				enums++
			}
		}
		pl.Steps = append(pl.Steps, st)
	}
	// every scenario ends with confirming what is pending and one exhaustive evaluation
	pl.Steps = append(pl.Steps, C11Step{Op: "mine"}, C11Step{Op: "enum"})
	// storage read faults during admission (drawn last; the smallest draw is "none"): a rule that cannot
	// be read may fail the transaction but must never open the account
	nf := rapid.IntRange(0, 3).Draw(rt, "nreadfaults")
	for i := 0; i < nf && len(pl.Steps) > 2; i++ {
		j := rapid.IntRange(0, len(pl.Steps)-3).Draw(rt, "readfault-step")
		pl.Steps[j].FR = rapid.IntRange(1, 24).Draw(rt, "readfault-at")
	}
	return pl
}
