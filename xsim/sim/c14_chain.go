package sim

// C14 chain path: a real node is booted with xpoa+BFT or tdpos+BFT (xuperos.LoadChain), receives a
// real first block through ProcBlock, and then certificates are presented as the `justify` of
// correctly slotted, correctly signed blocks of height 2 to the consensus plugin's
// CheckMinerMatch (the call ProcBlock makes); the last accepted candidate also goes through the
// whole ProcBlock. xpoa plans with a validator change (C14Plan.VC) then go on in c14_vc.go: the
// validator list is changed on chain and certificates are judged at every following height - under
// the old list, at the boundary block and under the new list.

import (
	"bytes"
	"fmt"
	"time"

	"github.com/xuperchain/xupercore/bcs/ledger/xledger/state"
	"github.com/xuperchain/xupercore/bcs/ledger/xledger/tx"
	lpb "github.com/xuperchain/xupercore/bcs/ledger/xledger/xldgpb"
	ccommon "github.com/xuperchain/xupercore/kernel/consensus/base/common"
	cbft "github.com/xuperchain/xupercore/kernel/consensus/base/driver/chained-bft"
	bftpb "github.com/xuperchain/xupercore/kernel/consensus/base/driver/chained-bft/pb"
)

const c14Period = 3000 // ms

// c14SlotTime returns a block timestamp (ns) inside the production slot of validator pos, in a
// term that has begun not later than `after` (harness scheduling arithmetic, not an oracle).
func c14SlotTime(kind string, n int, pos int, initNS, after int64) int64 {
	ms := int64(time.Millisecond)
	switch kind {
	case "xpoa":
		// block_num = 1: term = n slots of one period, anchored at the epoch
		termTime := int64(c14Period) * int64(n)
		t := after/ms - (after/ms)%termTime + termTime
		return (t + int64(pos)*c14Period + 100) * ms
	default:
		// tdpos, block_num = 1, alternate_interval = period, term_interval = 2 * period
		termTime := int64(2*c14Period) + int64(n-1)*c14Period
		initT := initNS / ms
		term := (after/ms-initT)/termTime + 2
		termBegin := initT + (term-1)*termTime + c14Period
		return (termBegin + int64(pos)*c14Period + 100) * ms
	}
}

func execC14Chain(h *c14H) {
	p, rc := h.p, h.rc
	k0 := h.k
	op := p.Chain + "-check-miner-match"
	initNS := time.Now().UnixNano()
	var cons map[string]interface{}
	switch p.Chain {
	case "xpoa":
		cons = map[string]interface{}{"period": c14Period, "block_num": 1, "init_proposer": map[string]interface{}{"address": k0.Addrs()}, "bft_config": map[string]interface{}{}}
	case "tdpos":
		cons = map[string]interface{}{
			"timestamp": fmt.Sprint(initNS), "proposer_num": fmt.Sprint(p.N), "period": fmt.Sprint(c14Period),
			"alternate_interval": fmt.Sprint(c14Period), "term_interval": fmt.Sprint(2 * c14Period), "block_num": "1",
			"vote_unit_price": "1", "init_proposer": map[string]interface{}{"1": k0.Addrs()}, "bft_config": map[string]interface{}{},
		}
	default:
		panic("c14: chain kind " + p.Chain)
	}
	g := &Genesis{Consensus: p.Chain, ConsConfig: cons, Predist: map[int]string{0: "1000000000"}, NoFee: true, Award: "1000000"}
	w := NewWorld(g, &Knobs{})
	rc.OnCleanup(w.Close)
	n, err := w.AddNode("acc", h.accAcct.Idx)
	if err != nil {
		panic("c14 harness: boot " + p.Chain + ": " + err.Error())
	}
	rc.BG = nil // smr.Start of the booted plugin is not needed: the harness calls the plugin directly
	time.Sleep(time.Duration(p.N+4) * c14Period * time.Millisecond)

	// block 1 (no justify needed at the start height), produced by the member before the collector
	genesisID := n.L.GetMeta().TipBlockid
	mk := func(proposer *Acct, pos int, pre []byte, height int64, qc *lpb.QuorumCert, after int64) *lpb.InternalBlock {
		award, err := tx.GenerateAwardTx(proposer.Addr, n.L.GenesisBlock.CalcAward(height).String(), []byte("award"))
		must(err)
		ts := c14SlotTime(p.Chain, p.N, pos, initNS, after)
		term := int64(0)
		if p.Chain == "tdpos" {
			ms := int64(time.Millisecond)
			termTime := int64(2*c14Period) + int64(p.N-1)*c14Period
			term = (ts/ms-initNS/ms)/termTime + 1
		}
		b, err := n.L.FormatMinerBlock([]*lpb.Transaction{award}, []byte(proposer.Addr), proposer.SK, ts, term, 0, pre, 0, n.S.GetTotal(), qc, nil, height)
		must(err)
		return b
	}
	pos1 := (p.Collector + p.N - 1) % p.N
	b1 := mk(k0.Members[pos1], pos1, genesisID, 1, nil, initNS)
	if d := time.Until(time.Unix(0, b1.Timestamp)); d > 0 {
		time.Sleep(d + time.Second)
	}
	if err := n.Chain.ProcBlock(n.BaseCtx(), CloneBlock(b1)); err != nil {
		panic("c14 harness: first block refused: " + err.Error())
	}
	rc.BG = nil
	if !bytes.Equal(n.L.GetMeta().TipBlockid, b1.Blockid) {
		panic("c14 harness: first block not adopted")
	}

	// identities are the same, the certified id is the real block id
	k := newC14Keys(p.N, p.Rot, p.Collector)
	k.IDCert, k.IDParent = b1.Blockid, genesisID
	hk := *h
	hk.k = k

	var certs []*C14Cert
	if p.Mode == "sample" {
		for i := range p.Certs {
			certs = append(certs, &p.Certs[i])
		}
	} else {
		certs = h.chainPick
	}
	if len(certs) > p.ChainMax && p.ChainMax > 0 {
		certs = certs[:p.ChainMax]
	}
	var lastOK *lpb.InternalBlock
	var lastV c14Verdict
	var lastC *C14Cert
	for i, c := range certs {
		hk.step = i
		signs := make([]*bftpb.QuorumCertSign, len(c.E))
		for j, e := range c.E {
			signs[j] = k.Build(e)
		}
		v := k.Judge(signs)
		old, err := ccommon.NewToOldQC(&cbft.QuorumCert{
			VoteInfo:  &cbft.VoteInfo{ProposalId: b1.Blockid, ProposalView: 1, ParentId: genesisID, ParentView: 0},
			SignInfos: signs,
		})
		must(err)
		b2 := mk(h.coll, p.Collector, b1.Blockid, 2, old, b1.Timestamp)
		ok, err := n.Ctx.Consensus.CheckMinerMatch(n.BaseCtx(), state.NewBlockAgent(b2))
		rc.St.Ops[op]++
		acc := ok && err == nil
		hk.judge(acc, v, op, c)
		rc.Log.Add("chain %s cert %d %s others=%d/%d accepted=%v", p.Chain, i, c.String(), v.Others, v.Thr, acc)
		if acc {
			lastOK, lastV, lastC = b2, v, c
		}
	}
	h.listedAll, h.otherAll = hk.listedAll, hk.otherAll
	h.step = len(certs)
	if lastOK != nil {
		if d := time.Until(time.Unix(0, lastOK.Timestamp)); d > 0 {
			time.Sleep(d + time.Second)
		}
		err := n.Chain.ProcBlock(n.BaseCtx(), CloneBlock(lastOK))
		rc.BG = nil
		adopted := err == nil && bytes.Equal(n.L.GetMeta().TipBlockid, lastOK.Blockid)
		rc.St.Ops[p.Chain+"-proc-block"]++
		rc.Log.Add("chain %s procblock adopted=%v err=%v", p.Chain, adopted, err)
		if adopted {
			rc.St.Probes["chain-procblock-adopted"]++
			if !lastV.Sufficient() {
				hk.step = len(certs)
				hk.judge(true, lastV, p.Chain+"-proc-block", lastC)
				h.listedAll, h.otherAll = hk.listedAll, hk.otherAll
			}
		} else {
			rc.St.Probes["chain-procblock-refused"]++
		}
	}
	if p.VC != nil && p.Chain == "xpoa" {
		// the validator list is changed on chain and certificates keep being judged (c14_vc.go)
		hk.step = len(certs) + 1
		execC14VC(h, &hk, n, certs)
		h.listedAll, h.otherAll = hk.listedAll, hk.otherAll
	}
}
