package sim

import (
	"bytes"
	"fmt"
	"math/big"

	lpb "github.com/xuperchain/xupercore/bcs/ledger/xledger/xldgpb"
)

func acctByAddr(addr string) *Acct {
	for _, a := range Accts {
		if a.Addr == addr {
			return a
		}
	}
	return nil
}

// doAdversarial executes conflicting / malformed submissions: respend, badtx, badblock.
func (r *chainRun) doAdversarial(st *CStep, n *Node, v *nodeView, failed *bool, failKind *string) *Violation {
	switch st.Op {
	case "respend":
		// a second, correctly signed transaction consuming an input of an earlier transaction
		var cands []*lpb.Transaction
		for _, id := range r.u.Txs {
			if t, ok := r.txs[string(id)]; ok && len(t.TxInputs) > 0 && !t.Coinbase {
				cands = append(cands, t)
			}
		}
		if len(cands) == 0 {
			return nil
		}
		old := cands[abs(st.A)%len(cands)]
		in := old.TxInputs[abs(st.B)%len(old.TxInputs)]
		owner := acctByAddr(string(in.FromAddr))
		if owner == nil {
			return nil
		}
		sp := &TxSpec{From: owner, Version: 3}
		sp.Inputs = []UtxoRef{{Addr: string(in.FromAddr), Txid: in.RefTxid, Offset: in.RefOffset, Amount: new(big.Int).SetBytes(in.Amount), Frozen: in.FrozenHeight}}
		sp.Outs = []OutSpec{{To: Accts[abs(st.C)%nAcct].Addr, Amount: new(big.Int).SetBytes(in.Amount)}}
		tx, err := BuildTx(sp)
		if err != nil {
			return nil
		}
		r.u.AddTx(tx.Txid)
		r.txs[string(tx.Txid)] = CloneTx(tx)
		r.logf("built respend of %s: %s", hx(old.Txid), descTx(tx))
		var exp string
		if r.cfg.Admit {
			exp = r.expectAdmission(n, tx)
		}
		err = n.Chain.SubmitTx(n.BaseCtx(), CloneTx(tx))
		r.logf("submit %s to %s: %v", hx(tx.Txid), n.Name, err != nil)
		*failed = err != nil
		if r.cfg.Admit && st.FW == 0 && st.FR == 0 && !st.Full { // a step with an armed storage fault may refuse for that reason
			if err == nil && exp != "" {
				return r.viol("admit-not-current", "conflicting tx %s admitted by %s although %s", hx(tx.Txid), n.Name, exp)
			}
			if err != nil && exp == "" {
				return r.viol("refused-current", "tx %s refused by %s (%v) although all inputs are current", hx(tx.Txid), n.Name, err)
			}
		}
		if err == nil {
			r.rc.St.Probes["respend-admitted"]++
		} else {
			r.rc.St.Probes["respend-refused"]++
		}
	case "badtx":
		tx, what := r.buildBadTx(n, st)
		if tx == nil {
			return nil
		}
		r.u.AddTx(tx.Txid)
		err := n.Chain.SubmitTx(n.BaseCtx(), CloneTx(tx))
		r.logf("submit bad tx (%s) %s to %s: refused=%v", what, hx(tx.Txid), n.Name, err != nil)
		*failed = err != nil
		if err == nil {
			return r.viol("bad-tx-admitted", "malformed transaction (%s) %s was admitted by %s", what, descTx(tx), n.Name)
		}
		r.rc.St.Probes["badtx-refused"]++
	case "badblock":
		return r.doBadBlock(st, n, v, failed, failKind)
	case "invoke":
		return r.doInvoke(st, n, failed)
	}
	return nil
}

// buildBadTx builds a transaction that must be refused.
func (r *chainRun) buildBadTx(n *Node, st *CStep) (*lpb.Transaction, string) {
	from := Accts[abs(st.B)%2]
	us, err := n.ListUtxos(from.Addr)
	if err != nil || len(us) == 0 {
		return nil, ""
	}
	h := n.L.GetMeta().TrunkHeight
	var sp []UtxoRef
	for _, u := range us {
		if u.Frozen != -1 && u.Frozen <= h {
			sp = append(sp, u)
		}
	}
	if len(sp) == 0 {
		return nil, ""
	}
	u := sp[abs(st.C)%len(sp)]
	to := Accts[abs(st.D)%nAcct].Addr
	spec := &TxSpec{From: from, Version: 3, NoChange: true}
	what := ""
	resign := true
	switch abs(st.A) % 10 {
	case 0:
		what = "outputs exceed inputs by 1"
		spec.Inputs = []UtxoRef{u}
		spec.Outs = []OutSpec{{To: to, Amount: new(big.Int).Add(u.Amount, big.NewInt(1))}}
	case 1:
		what = "outputs below inputs by 1"
		if u.Amount.Sign() == 0 {
			return nil, ""
		}
		spec.Inputs = []UtxoRef{u}
		spec.Outs = []OutSpec{{To: to, Amount: new(big.Int).Sub(u.Amount, big.NewInt(1))}}
	case 2:
		what = "same input twice"
		spec.Inputs = []UtxoRef{u, u}
		spec.Outs = []OutSpec{{To: to, Amount: new(big.Int).Mul(u.Amount, big.NewInt(2))}}
	case 3:
		what = "coinbase flag on a submitted transaction"
		spec.Inputs = []UtxoRef{u}
		spec.Outs = []OutSpec{{To: to, Amount: new(big.Int).Add(u.Amount, big.NewInt(1000))}}
	case 4:
		what = "input cites a larger amount than the output holds"
		big2 := u
		big2.Amount = new(big.Int).Add(u.Amount, big.NewInt(5))
		spec.Inputs = []UtxoRef{big2}
		spec.Outs = []OutSpec{{To: to, Amount: big2.Amount}}
	case 5:
		what = "output of 2^70 from small inputs"
		spec.Inputs = []UtxoRef{u}
		spec.Outs = []OutSpec{{To: to, Amount: new(big.Int).Lsh(big.NewInt(1), 70)}}
	case 6:
		what = "input that never existed"
		ghost := u
		ghost.Txid = bytes.Repeat([]byte{0xab}, 32)
		spec.Inputs = []UtxoRef{ghost}
		spec.Outs = []OutSpec{{To: to, Amount: u.Amount}}
	case 7:
		what = "signed by a key that does not own the input"
		spec.Inputs = []UtxoRef{u}
		spec.Outs = []OutSpec{{To: to, Amount: u.Amount}}
		thief := Accts[(from.Idx+1)%nAcct]
		spec.From = thief
		spec.Initiator = thief.Addr
		spec.AuthRequire = []string{thief.Addr}
	case 8:
		what = "input amount encoded with a leading zero byte"
		spec.Inputs = []UtxoRef{u}
		spec.Outs = []OutSpec{{To: to, Amount: u.Amount}}
	case 9:
		what = "two inputs, output equals only one of them plus 2^64 wrap"
		if len(sp) < 2 {
			return nil, ""
		}
		spec.Inputs = []UtxoRef{sp[0], sp[1]}
		spec.Outs = []OutSpec{{To: to, Amount: new(big.Int).Add(new(big.Int).Add(sp[0].Amount, sp[1].Amount), new(big.Int).Lsh(big.NewInt(1), 64))}}
	}
	tx, err := BuildTx(spec)
	if err != nil {
		return nil, ""
	}
	switch abs(st.A) % 10 {
	case 3:
		tx.Coinbase = true
	case 8:
		tx.TxInputs[0].Amount = append([]byte{0}, tx.TxInputs[0].Amount...)
	default:
		resign = false
	}
	if resign {
		signer := spec.From
		if err := SignTx(tx, signer, nil); err != nil {
			return nil, ""
		}
	}
	return tx, what
}

// doBadBlock lets node n assemble a defective block and hands it to a node.
func (r *chainRun) doBadBlock(st *CStep, n *Node, v *nodeView, failed *bool, failKind *string) *Violation {
	if !bytes.Equal(n.L.GetMeta().TipBlockid, n.S.GetLatestBlockid()) {
		return nil
	}
	kind := abs(st.A) % 7
	o := MineOpts{MaxTx: -1}
	what := ""
	viaProc := st.Via%2 == 0
	switch kind {
	case 0:
		what = "second coinbase"
		o.SecondAward = true
	case 1:
		what = "inflated award"
		o.AwardAmount = "777777777"
		viaProc = true // only the sync path validates the award amount
	case 2:
		what = "two transactions spending one output"
		us, _ := n.ListUtxos(Accts[0].Addr)
		if len(us) == 0 {
			return nil
		}
		var txs []*lpb.Transaction
		for i := 0; i < 2; i++ {
			tx, err := BuildTx(&TxSpec{From: Accts[0], Inputs: []UtxoRef{us[0]}, Outs: []OutSpec{{To: Accts[1+i].Addr, Amount: us[0].Amount}}})
			if err != nil {
				return nil
			}
			txs = append(txs, tx)
		}
		o.Txs = txs
	case 3:
		what = "repeats a transaction confirmed below"
		path, _ := r.cm.Path(n.S.GetLatestBlockid())
		var old *lpb.Transaction
		for _, mb := range path[1:] {
			for _, t := range mb.Block.Transactions {
				if !t.Coinbase && !t.Autogen {
					old = t
				}
			}
		}
		if old == nil {
			return nil
		}
		o.Txs = []*lpb.Transaction{CloneTx(old)}
		o.Txs[0].Blockid = nil
	case 4:
		what = "corrupted proposer signature"
		viaProc = true
	case 5:
		what = "unbalanced transaction inside"
		us, _ := n.ListUtxos(Accts[0].Addr)
		if len(us) == 0 {
			return nil
		}
		tx, err := BuildTx(&TxSpec{From: Accts[0], NoChange: true, Inputs: []UtxoRef{us[0]}, Outs: []OutSpec{{To: Accts[2].Addr, Amount: new(big.Int).Add(us[0].Amount, big.NewInt(9))}}})
		if err != nil {
			return nil
		}
		o.Txs = []*lpb.Transaction{tx}
	case 6:
		// two contract transactions pre-executed against the same state: the first overwrites or deletes
		// a key, the second declares the version of that key from BEFORE the first (it read or
		// overwrites it). Alone each is valid; together the second's declared read is not current.
		what = "two transactions consuming one key version"
		key := kvKeys[abs(st.B)%len(kvKeys)]
		first := []KOp{{Op: "put", K: key, V: "w"}}
		if abs(st.B)/4%2 == 1 {
			first = []KOp{{Op: "del", K: key}}
		}
		second := []KOp{{Op: "get", K: key}, {Op: "put", K: kvKeys[(abs(st.B)+1)%len(kvKeys)], V: "x"}}
		if abs(st.B)/8%2 == 1 {
			second = []KOp{{Op: "put", K: key, V: "y"}}
		}
		var txs []*lpb.Transaction
		for i, prog := range [][]KOp{first, second} {
			from := Accts[i]
			resp, err := n.PreExecProg(from, prog, nil)
			if err != nil {
				if i == 0 && first[0].Op == "del" { // nothing to delete: overwrite instead
					first = []KOp{{Op: "put", K: key, V: "w"}}
					if resp, err = n.PreExecProg(from, first, nil); err != nil {
						return nil
					}
				} else {
					return nil
				}
			}
			sp := &TxSpec{From: from, Version: 3, Invoke: resp}
			need, got := big.NewInt(resp.GasUsed), new(big.Int)
			us, _ := n.ListUtxos(from.Addr)
			h := n.L.GetMeta().TrunkHeight
			for _, u := range us {
				if u.Frozen == -1 || u.Frozen > h {
					continue
				}
				if got.Cmp(need) >= 0 && len(sp.Inputs) > 0 {
					break
				}
				sp.Inputs = append(sp.Inputs, u)
				got.Add(got, u.Amount)
			}
			if got.Cmp(need) < 0 || len(sp.Inputs) == 0 {
				return nil
			}
			tx, err := BuildTx(sp)
			if err != nil {
				return nil
			}
			txs = append(txs, tx)
		}
		// the block is only defective if the two really declare the same version of the key and the first
		// writes it (an injected read error during pre-execution may have dropped a read)
		conflict := false
		for _, ia := range txs[0].TxInputsExt {
			for _, ib := range txs[1].TxInputsExt {
				if ia.Bucket == ib.Bucket && string(ia.Key) == key && string(ib.Key) == key && bytes.Equal(ia.RefTxid, ib.RefTxid) && ia.RefOffset == ib.RefOffset {
					for _, oa := range txs[0].TxOutputsExt {
						if oa.Bucket == ia.Bucket && string(oa.Key) == key {
							conflict = true
						}
					}
				}
			}
		}
		if !conflict {
			return nil
		}
		o.Txs = txs
		r.rc.St.Probes["badblock-key-version-conflict-"+first[0].Op]++
	}
	blk, err := n.PackBlock(o)
	if err != nil {
		return nil
	}
	// the defective block is an adversary's: it holds its own copies of the transactions, never the
	// packing node's pool objects (Ledger.ConfirmBlock stamps the block id into the objects it is given)
	blk = CloneBlock(blk)
	if kind == 4 && len(blk.Sign) > 4 {
		blk.Sign[len(blk.Sign)/2] ^= 0x55
	}
	// target: the producer itself or another node
	tn, tv, _ := r.node(st.N + abs(st.B)%len(r.w.Nodes))
	if !tv.storedSet[string(blk.PreHash)] {
		tn, tv = n, v
	}
	pristine := CloneBlock(blk)
	for _, t := range blk.Transactions {
		r.u.AddTx(t.Txid)
	}
	stTipBefore := tn.S.GetLatestBlockid()
	var perr error
	if viaProc {
		perr = tn.Chain.ProcBlock(tn.BaseCtx(), blk)
		*failKind = "walk"
	} else {
		cs := tn.L.ConfirmBlock(blk, false)
		if !cs.Succ {
			perr = fmt.Errorf("confirm refused")
			*failKind = "all"
		} else {
			perr = tn.S.Walk(tn.L.GetMeta().TipBlockid, false)
			*failKind = "walk"
		}
	}
	*failed = perr != nil
	stored := tn.L.ExistBlock(pristine.Blockid)
	r.logf("bad block (%s) %s -> %s via proc=%v: err=%v (%v) stored=%v state at %s txs %s", what, hx(pristine.Blockid), tn.Name, viaProc, perr != nil, perr, stored, hx(tn.S.GetLatestBlockid()), descTxids(pristine.Transactions))
	r.rc.St.Probes["badblock-"+what]++
	if stored {
		// the ledger does not validate bodies; the block is part of the stored tree from now on
		mb := r.registerBlock(pristine)
		mb.Valid = false
		tv.noteStored(r.cm, mb.ID)
	}
	// whatever the ledger did, the state machine must not have applied the block
	if bytes.Equal(tn.S.GetLatestBlockid(), pristine.Blockid) {
		return r.viol("bad-block-applied", "%s applied a block with %s", tn.Name, what)
	}
	_ = stTipBefore // a refused block may still let the sync path walk the state to the ledger tip
	r.noteApplied(tn, tv)
	return nil
}
