package sim

import (
	"bytes"
	"fmt"
	"time"

	"xsim/simkv"
)

// Crash-point enumeration (C06): the scenario runs uninterrupted on node 0 with the write journal
// on; then for every prefix of the sequence of write units (single puts, deletes and batches,
// across the ledger and the state database) a node is restarted on that image and must satisfy
// the invariants of C01, C02 and C04, sync to its ledger tip and keep working.

func (r *chainRun) crashEnumerate(base *simkv.Disk, journal []simkv.Unit, stepAt []int) *Violation {
	n0 := r.w.Nodes[0]
	v0 := r.views[0]
	W := len(journal)
	r.rc.St.Probes["crash-scenario-write-units"] += W
	// which boundaries: all when W <= 64, else every boundary of the last three steps plus a sample
	check := map[int]bool{}
	if W <= 64 {
		for k := 0; k <= W; k++ {
			check[k] = true
		}
	} else {
		from := 0
		if len(stepAt) > 3 {
			from = stepAt[len(stepAt)-3]
		}
		for k := from; k <= W; k++ {
			check[k] = true
		}
		for k := 0; k < from; k += 1 + W/40 {
			check[k] = true
		}
		r.rc.St.Probes["crash-scenario-sampled"]++
	}
	// final observation of the uninterrupted run, synced to its ledger tip
	finalTip := append([]byte{}, n0.L.GetMeta().TipBlockid...)
	img := base.Clone()
	for k := 0; k <= W; k++ {
		if k > 0 {
			img.Apply(journal[k-1])
		}
		if !check[k] {
			continue
		}
		r.step = k
		r.op = "crash"
		if vi := r.checkCrashImage(img.Clone(), k, W, v0, finalTip); vi != nil {
			return vi
		}
		r.rc.St.Faults["crash-restart"]++
	}
	return nil
}

func (r *chainRun) checkCrashImage(d *simkv.Disk, k, W int, v0 *nodeView, finalTip []byte) *Violation {
	time.Sleep(time.Second) // a restart takes time; the clock never stands still
	c, err := r.w.NodeOnDisk("crash", 0, d)
	if err != nil {
		return r.viol("crash-restart-fails", "after a crash at write boundary %d/%d ledger / state do not open: %v", k, W, err)
	}
	defer c.Drop()
	// ledger: build the view of what this image actually contains
	cv := &nodeView{storedSet: map[string]bool{}, applied: map[string]bool{}}
	maxH := int64(-1)
	for _, mb := range r.cm.Order {
		if c.L.ExistBlock(mb.ID) {
			cv.stored = append(cv.stored, string(mb.ID))
			cv.storedSet[string(mb.ID)] = true
			if mb.Height > maxH {
				maxH = mb.Height
			}
		}
	}
	m := c.L.GetMeta()
	if !cv.storedSet[string(m.TipBlockid)] {
		return r.viol("crash-ledger-tip-missing", "crash at %d/%d: ledger tip %s is not a stored block", k, W, hx(m.TipBlockid))
	}
	cv.tip = string(m.TipBlockid)
	if r.cm.Blocks[cv.tip].Height < maxH && !r.sawTruncate {
		return r.viol("crash-ledger-tip-not-highest", "crash at %d/%d: tip height %d but a stored block has height %d", k, W, r.cm.Blocks[cv.tip].Height, maxH)
	}
	for _, id := range cv.stored {
		if pre := r.cm.Blocks[id].Pre; len(pre) > 0 && !cv.storedSet[string(pre)] {
			return r.viol("crash-ledger-orphan", "crash at %d/%d: block %s is stored without its parent", k, W, hx([]byte(id)))
		}
	}
	saveStep, saveOp := r.step, r.op
	if vi := r.checkLedger(c, cv); vi != nil {
		vi.Clause = "crash-" + vi.Clause
		vi.Msg = fmt.Sprintf("crash at %d/%d: %s", k, W, vi.Msg)
		return vi
	}
	// state: pointer names a stored block; C01 / C02 hold there
	sp := c.S.GetLatestBlockid()
	if !cv.storedSet[string(sp)] {
		return r.viol("crash-state-pointer-unknown", "crash at %d/%d: state pointer %s names a block the ledger does not hold", k, W, hx(sp))
	}
	r.w.Nodes = append(r.w.Nodes, c)
	r.views = append(r.views, cv)
	defer func() {
		r.w.Nodes = r.w.Nodes[:len(r.w.Nodes)-1]
		r.views = r.views[:len(r.views)-1]
		r.step, r.op = saveStep, saveOp
	}()
	cur, _, vi := r.poolModel(c)
	if vi != nil {
		vi.Clause = "crash-" + vi.Clause
		vi.Msg = fmt.Sprintf("crash at %d/%d: %s", k, W, vi.Msg)
		return vi
	}
	for _, f := range []func() *Violation{
		func() *Violation { return r.checkConservation(c, cur) },
		func() *Violation { return r.checkModelState(c, cur) },
		func() *Violation { return r.checkFreshReplay(c) },
	} {
		if vi := f(); vi != nil {
			vi.Clause = "crash-" + vi.Clause
			vi.Msg = fmt.Sprintf("crash at %d/%d (state at %s): %s", k, W, hx(sp), vi.Msg)
			return vi
		}
	}
	// sync the state to the ledger tip (unless the tip is a block whose body is invalid)
	tipMB := r.cm.Blocks[cv.tip]
	validChain := true
	path, _ := r.cm.Path(tipMB.ID)
	for _, mb := range path {
		if !mb.Valid {
			validChain = false
		}
	}
	// ... and unless getting there means undoing a block at or below the recovered node's irreversible
	// height: with a finality window the state machine rightly refuses that walk (C17), crash or not
	if validChain {
		irr := c.S.GetMeta().GetIrreversibleBlockHeight()
		spPath, _ := r.cm.Path(sp)
		for _, mb := range spPath {
			if mb.Height > 0 && mb.Height <= irr && !r.cm.IsAncestor(mb.ID, tipMB.ID) && !bytes.Equal(mb.ID, tipMB.ID) {
				validChain = false
				r.rc.St.Probes["crash-walk-to-tip-barred-by-finality"]++
			}
		}
	}
	if validChain {
		if err := c.S.Walk(tipMB.ID, false); err != nil {
			return r.viol("crash-walk-to-tip-fails", "crash at %d/%d: Walk(ledger tip %s) from %s fails: %v", k, W, hx(tipMB.ID), hx(sp), err)
		}
		r.rc.RunBG()
		cur2, _, vi := r.poolModel(c)
		if vi != nil {
			vi.Clause = "crash-" + vi.Clause
			return vi
		}
		if vi := r.checkModelState(c, cur2); vi != nil {
			vi.Clause = "crash-after-sync-" + vi.Clause
			vi.Msg = fmt.Sprintf("crash at %d/%d, after Walk to tip: %s", k, W, vi.Msg)
			return vi
		}
		if vi := r.checkFreshReplay(c); vi != nil {
			vi.Clause = "crash-after-sync-" + vi.Clause
			vi.Msg = fmt.Sprintf("crash at %d/%d, after Walk to tip: %s", k, W, vi.Msg)
			return vi
		}
		if bytes.Equal(tipMB.ID, finalTip) {
			r.rc.St.Probes["crash-reached-final-tip"]++
		}
		// bounded liveness after the fault: the node keeps working
		blk, err := c.MineReal()
		if err != nil {
			return r.viol("crash-node-stuck", "crash at %d/%d: restarted node cannot mine a further block: %v", k, W, err)
		}
		r.registerBlock(blk)
		us, _ := c.ListUtxos(Accts[0].Addr)
		for _, u := range us {
			if u.Frozen == 0 {
				tx, err := BuildTx(&TxSpec{From: Accts[0], Inputs: []UtxoRef{u}, Outs: []OutSpec{{To: Accts[1].Addr, Amount: u.Amount}}})
				if err == nil {
					if err := c.Chain.SubmitTx(c.BaseCtx(), tx); err != nil {
						return r.viol("crash-node-stuck", "crash at %d/%d: restarted node refuses a plain transfer of a current output: %v", k, W, err)
					}
				}
				break
			}
		}
		r.rc.St.Probes["crash-image-synced"]++
	}
	r.rc.St.Probes["crash-image-checked"]++
	return nil
}
