package sim

import (
	"encoding/json"
	"fmt"
	"strings"

	pb "github.com/xuperchain/xupercore/protos"
)

// ---- C11: names -------------------------------------------------------------------------------
//
// Identifiers used in plans, rules and signer paths:
//   0..4  the key universe K0..K4 (Accts[1..5])
//   9     the payer / outsider key (Accts[0]); it initiates every transaction and is in no rule
//   10    account A (the account under test)
//   11    account B (may be a member of A's rule and of the method rule: nesting depth 2)
//   12    account F (a foreign account: its signers must never count for A or B)

const (
	C11Keys  = 5
	C11Payer = 9
	C11A     = 10
	C11B     = 11
	C11F     = 12
)

var c11AcctNum = map[int]string{C11A: "1111111111111111", C11B: "2222222222222222", C11F: "3333333333333333"}

// C11Contract is the kernel contract whose method "guard" is put under a method rule.
const (
	C11Contract = "$c11"
	C11Method   = "guard"
	C11Bucket   = "c11"
)

func c11IsKey(id int) bool { return id < 10 }

func c11KeyAcct(id int) *Acct {
	if id == C11Payer {
		return Accts[0]
	}
	if id < 0 || id >= C11Keys {
		panic(fmt.Sprintf("c11: bad key id %d", id))
	}
	return Accts[1+id]
}

// c11Name renders an identifier as the on-chain name (address or account name).
func c11Name(id int) string {
	if c11IsKey(id) {
		return c11KeyAcct(id).Addr
	}
	num, ok := c11AcctNum[id]
	if !ok {
		panic(fmt.Sprintf("c11: bad id %d", id))
	}
	return "XC" + num + "@xuper"
}

func c11Short(id int) string {
	switch {
	case id == C11Payer:
		return "P"
	case id == C11A:
		return "A"
	case id == C11B:
		return "B"
	case id == C11F:
		return "F"
	}
	return fmt.Sprintf("K%d", id)
}

// c11URI renders a signer path as the URI the kernel sees.
func c11URI(p []int) string {
	parts := make([]string, len(p))
	for i, id := range p {
		parts[i] = c11Name(id)
	}
	return strings.Join(parts, "/")
}

func c11URIs(ps [][]int) []string {
	out := make([]string, 0, len(ps))
	for _, p := range ps {
		out = append(out, c11URI(p))
	}
	return out
}

func c11PathStr(ps [][]int) string {
	var sb strings.Builder
	for i, p := range ps {
		if i > 0 {
			sb.WriteByte(' ')
		}
		for j, id := range p {
			if j > 0 {
				sb.WriteByte('/')
			}
			sb.WriteString(c11Short(id))
		}
	}
	return "[" + sb.String() + "]"
}

// ---- rules ------------------------------------------------------------------------------------

// C11Mem is one weighted member of a threshold rule.
type C11Mem struct {
	M int     `json:"m"`
	W float64 `json:"w"`
}

// C11Rule is a generated access rule: Kind 0 = weighted threshold, Kind 1 = key sets.
type C11Rule struct {
	Kind int      `json:"kind"`
	Thr  float64  `json:"thr,omitempty"`
	Mem  []C11Mem `json:"mem,omitempty"`
	Sets [][]int  `json:"sets,omitempty"`
}

func (r *C11Rule) String() string {
	if r == nil {
		return "<none>"
	}
	var sb strings.Builder
	nm := c11Short
	if r.Kind == 0 {
		fmt.Fprintf(&sb, "thr>=%v{", r.Thr)
		for i, m := range r.Mem {
			if i > 0 {
				sb.WriteByte(',')
			}
			fmt.Fprintf(&sb, "%s:%v", nm(m.M), m.W)
		}
		sb.WriteByte('}')
		return sb.String()
	}
	sb.WriteString("sets{")
	for i, s := range r.Sets {
		if i > 0 {
			sb.WriteByte('|')
		}
		for j, m := range s {
			if j > 0 {
				sb.WriteByte('&')
			}
			sb.WriteString(nm(m))
		}
	}
	sb.WriteByte('}')
	return sb.String()
}

// ACL renders the rule as the kernel's rule record.
func (r *C11Rule) ACL() *pb.Acl {
	a := &pb.Acl{}
	if r.Kind == 0 {
		a.Pm = &pb.PermissionModel{Rule: pb.PermissionRule_SIGN_THRESHOLD, AcceptValue: r.Thr}
		a.AksWeight = map[string]float64{}
		for _, m := range r.Mem {
			a.AksWeight[c11Name(m.M)] = m.W
		}
		return a
	}
	a.Pm = &pb.PermissionModel{Rule: pb.PermissionRule_SIGN_AKSET}
	a.AkSets = &pb.AkSets{Sets: map[string]*pb.AkSet{}}
	for i, s := range r.Sets {
		set := &pb.AkSet{}
		for _, m := range s {
			set.Aks = append(set.Aks, c11Name(m))
		}
		a.AkSets.Sets[fmt.Sprint(i+1)] = set
	}
	return a
}

// JSON is the argument format of NewAccount / SetAccountAcl / SetMethodAcl.
func (r *C11Rule) JSON() []byte {
	b, err := json.Marshal(r.ACL())
	must(err)
	return b
}

// NonNeg reports whether every weight is non-negative (monotonicity is only claimed then).
func (r *C11Rule) NonNeg() bool {
	for _, m := range r.Mem {
		if m.W < 0 {
			return false
		}
	}
	return true
}

// AcctMembers lists the account identifiers named by the rule.
func (r *C11Rule) AcctMembers() []int {
	var out []int
	seen := map[int]bool{}
	add := func(m int) {
		if !c11IsKey(m) && !seen[m] {
			seen[m] = true
			out = append(out, m)
		}
	}
	for _, m := range r.Mem {
		add(m.M)
	}
	for _, s := range r.Sets {
		for _, m := range s {
			add(m)
		}
	}
	return out
}

// ---- reference evaluator (written from the property statement) ----------------------------------
//
// A signer path names the verified key LAST; everything before it only says on whose behalf the
// key signs. A rule is satisfied iff the weights of its distinct satisfied members reach the
// threshold, or one listed key set consists of satisfied members only. A key member is satisfied
// iff that key itself signed for exactly this account (path = [account, key]); an account member
// is satisfied iff at least one signer signed on its behalf below this account and those signers
// satisfy the member account's own rule. Everything else (keys outside the rule, names that appear
// in a path but did not sign, repeated entries, paths that start with another account) adds nothing.
//
// lenient=true is NOT the property: it additionally lets a key name that merely appears as an
// inner path element count as if it had signed. It is only used to tell the one catalogued defect
// apart from any other disagreement.

type c11Rules map[int]*C11Rule

func (rs c11Rules) clone() c11Rules {
	o := c11Rules{}
	for k, v := range rs {
		o[k] = v
	}
	return o
}

// c11EvalAcct: do the signer paths satisfy the rule of account acct?
func c11EvalAcct(rs c11Rules, acct int, paths [][]int, lenient bool, depth int) bool {
	rule := rs[acct]
	if rule == nil {
		panic(fmt.Sprintf("c11: reference evaluator asked about account %d without a rule", acct))
	}
	var tails [][]int
	for _, p := range paths {
		if len(p) >= 2 && p[0] == acct {
			tails = append(tails, p[1:])
		}
	}
	return c11EvalRule(rs, rule, tails, lenient, depth)
}

// c11EvalMethod: do the signer paths (full URIs: [key] or [account, ..., key]) satisfy a method rule?
func c11EvalMethod(rs c11Rules, rule *C11Rule, paths [][]int, lenient bool) bool {
	return c11EvalRule(rs, rule, paths, lenient, 0)
}

func c11EvalRule(rs c11Rules, rule *C11Rule, tails [][]int, lenient bool, depth int) bool {
	if depth > 3 {
		panic("c11: nesting deeper than the engine decides")
	}
	memo := map[int]bool{}
	sat := func(m int) bool {
		if v, ok := memo[m]; ok {
			return v
		}
		res := false
		if c11IsKey(m) {
			for _, t := range tails {
				if t[0] == m && (len(t) == 1 || lenient) {
					res = true
					break
				}
			}
		} else if rs[m] != nil {
			var sub [][]int
			for _, t := range tails {
				if len(t) >= 2 && t[0] == m {
					sub = append(sub, t)
				}
			}
			if len(sub) > 0 {
				res = c11EvalAcct(rs, m, sub, lenient, depth+1)
			}
		}
		memo[m] = res
		return res
	}
	if rule.Kind == 0 {
		sum := 0.0
		seen := map[int]bool{}
		for _, m := range rule.Mem {
			if seen[m.M] {
				continue
			}
			seen[m.M] = true
			if sat(m.M) {
				sum += m.W // generated weights are dyadic: the sum is exact in any order
			}
		}
		return sum >= rule.Thr
	}
	for _, s := range rule.Sets {
		if len(s) == 0 {
			continue // never generated (the statement is silent on an empty key set)
		}
		all := true
		for _, m := range s {
			if !sat(m) {
				all = false
				break
			}
		}
		if all {
			return true
		}
	}
	return false
}

// ---- signer universes -------------------------------------------------------------------------

// c11NestKeys are the keys that also appear as signers on behalf of a nested account.
var c11NestKeys = []int{2, 3, 4}

// c11AcctUniverse lists the elementary signer paths for evaluating account acct: every key
// directly, and (for A) three keys signing on behalf of B below A.
func c11AcctUniverse(acct int) [][]int {
	var u [][]int
	for k := 0; k < C11Keys; k++ {
		u = append(u, []int{acct, k})
	}
	if acct == C11A {
		for _, k := range c11NestKeys {
			u = append(u, []int{C11A, C11B, k})
		}
	}
	return u
}

// c11MethodUniverse lists the elementary signer paths for a method rule: bare keys and three keys
// signing on behalf of account B.
func c11MethodUniverse() [][]int {
	var u [][]int
	for k := 0; k < C11Keys; k++ {
		u = append(u, []int{k})
	}
	for _, k := range c11NestKeys {
		u = append(u, []int{C11B, k})
	}
	return u
}

func c11Subset(u [][]int, mask int) [][]int {
	var s [][]int
	for i := range u {
		if mask&(1<<uint(i)) != 0 {
			s = append(s, u[i])
		}
	}
	return s
}

func c11Popcount(x int) int {
	n := 0
	for ; x != 0; x &= x - 1 {
		n++
	}
	return n
}
