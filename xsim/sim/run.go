package sim

import (
	"crypto/sha256"
	"encoding/hex"
	"encoding/json"
	"fmt"
	"os"
	"path/filepath"
	"runtime/debug"
	"sort"
	"strings"
	"testing"
	"testing/cryptotest"
	"testing/synctest"
	"time"
	"xsim/wire"

	"github.com/xuperchain/xupercore/lib/xsimrt"
	"pgregory.net/rapid"
)

// EventLog is the deterministic record of a run (never consulted by oracles; used by the
// determinism self-test and written into replay files).
type EventLog struct {
	Lines []string
}

func (l *EventLog) Add(format string, a ...interface{}) {
	l.Lines = append(l.Lines, fmt.Sprintf(format, a...))
}
func (l *EventLog) Digest() string {
	h := sha256.New()
	for _, s := range l.Lines {
		h.Write([]byte(s))
		h.Write([]byte{'\n'})
	}
	return hex.EncodeToString(h.Sum(nil)[:12])
}

// RunStats counts what a run reached.
type RunStats struct {
	Faults map[string]int  // fault kind -> times fired
	Probes map[string]int  // rare-branch probes
	States map[string]bool // distinct observation digests
	Traces map[string]bool // distinct interleaving traces
	Steps  int
	Ops    map[string]int // executed operation kinds
	SimNS  int64
}

func NewRunStats() *RunStats {
	return &RunStats{Faults: map[string]int{}, Probes: map[string]int{}, States: map[string]bool{}, Traces: map[string]bool{}, Ops: map[string]int{}}
}

func (s *RunStats) Merge(o *RunStats) {
	for k, v := range o.Faults {
		s.Faults[k] += v
	}
	for k, v := range o.Probes {
		s.Probes[k] += v
	}
	for k := range o.States {
		s.States[k] = true
	}
	for k := range o.Traces {
		s.Traces[k] = true
	}
	for k, v := range o.Ops {
		s.Ops[k] += v
	}
	s.Steps += o.Steps
	s.SimNS += o.SimNS
}

// RunCtx is handed to an engine's Exec.
type RunCtx struct {
	T     *testing.T
	Seed  uint64
	Log   *EventLog
	St    *RunStats
	Start time.Time
	// BG collects background tasks captured from instrumented go statements
	BG []BGTask
	// Cleanup functions run after Exec
	cleanup []func()
}

func (rc *RunCtx) OnCleanup(f func()) { rc.cleanup = append(rc.cleanup, f) }

// Engine is one simulation engine for one property.
type Engine struct {
	Prop string
	// Gen draws a complete plan (before the bubble is entered)
	Gen func(rt *rapid.T, tier string) interface{}
	// NewPlan returns an empty plan for JSON decoding
	NewPlan func() interface{}
	// Exec executes a plan; execution is a pure function of (plan, code)
	Exec func(plan interface{}, rc *RunCtx) *Violation
	// Seed extracts the plan's seed (crypto stream, map order)
	Seed func(plan interface{}) uint64
	// Sample renders a plan as a short evidence sample
	Sample func(plan interface{}) interface{}
	// NonTrivial reports whether an executed plan counts as non-trivial (by stats of that run)
	NonTrivial func(st *RunStats) bool
	Rule       string
	Level      string // exploration | fault_enumeration
}

// Result of one executed plan.
type Result struct {
	V      *Violation
	St     *RunStats
	Digest string
	Log    []string
	Panic  string
}

// RunPlan executes one plan inside a fresh bubble with a fresh deterministic crypto stream.
func RunPlan(t *testing.T, e *Engine, plan interface{}) *Result {
	res := &Result{St: NewRunStats()}
	seed := e.Seed(plan)
	t.Run("run", func(t *testing.T) {
		cryptotest.SetGlobalRandom(t, seed|1)
		defer func() {
			if r := recover(); r != nil {
				msg := fmt.Sprint(r)
				if strings.Contains(msg, "blocked goroutines remain") || strings.Contains(msg, "deadlock: main bubble goroutine") {
					res.St.Probes["bubble-leftover-goroutines"]++
					return
				}
				res.Panic = msg + "\n" + string(debug.Stack())
			}
		}()
		synctest.Test(t, func(t *testing.T) {
			rc := &RunCtx{T: t, Seed: seed, Log: &EventLog{}, St: res.St, Start: time.Now()}
			ResetTxCounter()
			xsimrt.ResetRun()
			hooks := &xsimrt.H{MapSeed: 0}
			hooks.Go = func(site string, f func()) bool {
				rc.BG = append(rc.BG, BGTask{Site: site, F: f})
				return true
			}
			xsimrt.Attach(hooks)
			rc.OnCleanup(func() { xsimrt.Detach() })
			func() {
				defer func() {
					if r := recover(); r != nil {
						if v, ok := r.(*Violation); ok {
							res.V = v // an engine bailing out of a deep call with a typed violation
							return
						}
						res.V = &Violation{Prop: e.Prop, Clause: "panic", Op: "panic", Msg: fmt.Sprintf("%v\n%s", r, debug.Stack())}
					}
				}()
				res.V = e.Exec(plan, rc)
			}()
			for i := len(rc.cleanup) - 1; i >= 0; i-- {
				rc.cleanup[i]()
			}
			for k, v := range xsimrt.TakeProbes() {
				res.St.Probes[k] += v
			}
			res.St.SimNS = int64(time.Since(rc.Start))
			res.Digest = rc.Log.Digest()
			res.Log = rc.Log.Lines
		})
	})
	return res
}

// Hooks returns the currently attached hooks so that engines can adjust them (map seed, tune).
func (rc *RunCtx) SetMapSeed(s uint64) {
	// re-attach with updated seed, keeping the Go hook
	h := &xsimrt.H{MapSeed: s}
	h.Go = func(site string, f func()) bool {
		rc.BG = append(rc.BG, BGTask{Site: site, F: f})
		return true
	}
	xsimrt.Attach(h)
}

// AttachHooks installs custom hooks for the rest of the run.
func (rc *RunCtx) AttachHooks(h *xsimrt.H) {
	if h.Go == nil {
		h.Go = func(site string, f func()) bool {
			rc.BG = append(rc.BG, BGTask{Site: site, F: f})
			return true
		}
	}
	xsimrt.Attach(h)
}

// RunBG runs the captured background tasks (in capture order) to completion on the caller's
// goroutine; tasks captured meanwhile are run too.
func (rc *RunCtx) RunBG() int {
	n := 0
	for len(rc.BG) > 0 {
		t := rc.BG[0]
		rc.BG = rc.BG[1:]
		t.F()
		n++
	}
	return n
}

// ---- known findings ---------------------------------------------------------------------------

// LoadKnown reads the committed known-findings file.
func LoadKnown(path string) []KnownFinding {
	b, err := os.ReadFile(path)
	if err != nil {
		return nil
	}
	var k struct {
		Findings []KnownFinding `json:"findings"`
	}
	if err := json.Unmarshal(b, &k); err != nil {
		panic("known_findings.json: " + err.Error())
	}
	return k.Findings
}

func matchKnown(ks []KnownFinding, v *Violation) *KnownFinding {
	for i := range ks {
		k := &ks[i]
		if k.Status != "open" || k.Fingerprint != v.Fingerprint() {
			continue
		}
		if k.MsgContains != "" && !strings.Contains(v.Msg, k.MsgContains) {
			continue
		}
		return k
	}
	return nil
}

// ---- worker protocol --------------------------------------------------------------------------

// Search runs the seeded search for one engine inside a worker process. Configuration comes from
// the environment: XSIM_OUT (result file), XSIM_TIER, XSIM_BUDGET (seconds), XSIM_MAXRUNS,
// XSIM_KNOWN (known findings file), XSIM_DIGESTS=1 (record per-run digests).
func Search(t *testing.T, e *Engine) {
	initEnv()
	defer Cleanup()
	outPath := os.Getenv("XSIM_OUT")
	tier := os.Getenv("XSIM_TIER")
	if tier == "" {
		tier = "quick"
	}
	budget := 20.0
	fmt.Sscan(os.Getenv("XSIM_BUDGET"), &budget)
	maxRuns := 400
	fmt.Sscan(os.Getenv("XSIM_MAXRUNS"), &maxRuns)
	known := LoadKnown(os.Getenv("XSIM_KNOWN"))
	wantDigests := os.Getenv("XSIM_DIGESTS") == "1"
	out := &WorkerOut{Prop: e.Prop, Faults: map[string]int{}, Probes: map[string]int{}, Ops: map[string]int{}, Known: map[string]int{}, KnownWhat: map[string]string{}}
	agg := NewRunStats()
	distinct := map[string]bool{}
	start := time.Now()
	var lastFail *Result
	var lastPlan interface{}
	write := func() {
		out.Faults, out.Probes, out.Ops = agg.Faults, agg.Probes, agg.Ops
		out.States, out.Traces, out.Steps = len(agg.States), len(agg.Traces), agg.Steps
		for k := range agg.States {
			out.StateSet = append(out.StateSet, k)
		}
		sort.Strings(out.StateSet)
		out.SimSeconds = float64(agg.SimNS) / 1e9
		out.WallSeconds = time.Since(start).Seconds()
		for k := range distinct {
			out.Distinct = append(out.Distinct, k)
		}
		sort.Strings(out.Distinct)
		if lastFail != nil {
			out.Violation = lastFail.V
			pj, _ := json.Marshal(lastPlan)
			out.Plan = pj
			out.Log = lastFail.Log
			out.LogDigest = lastFail.Digest
		}
		if outPath != "" {
			b, _ := json.MarshalIndent(out, "", " ")
			os.MkdirAll(filepath.Dir(outPath), 0o755)
			os.WriteFile(outPath, b, 0o644)
		}
	}
	defer write()
	failed := false
	genIdx, skipLo, skipHi := 0, 0, -1
	fmt.Sscanf(os.Getenv("XSIM_SKIP_EXEC"), "%d-%d", &skipLo, &skipHi)
	prop := func(rt *rapid.T) {
		if !failed && (time.Since(start).Seconds() > budget || out.Runs >= maxRuns) {
			return // budget exhausted: remaining checks pass trivially
		}
		plan := e.Gen(rt, tier)
		// execute exactly what a replay file would hold: the plan after a trip through its serialised form
		// (a drawn string that is not valid UTF-8 used to change on the way and the replay diverged)
		if pj, err := json.Marshal(plan); err == nil {
			p2 := e.NewPlan()
			if json.Unmarshal(pj, p2) == nil {
				plan = p2
			}
		}
		genIdx++
		if skipLo <= genIdx && genIdx <= skipHi && !failed {
			return // debugging aid (XSIM_SKIP_EXEC=lo-hi): the plan is drawn but not executed
		}
		res := RunPlan(t, e, plan)
		if res.Panic != "" {
			out.Panic = res.Panic
			fmt.Fprintln(os.Stderr, "xsim: infrastructure panic:", res.Panic)
			write()
			os.Exit(2)
		}
		if !failed {
			out.Runs++
			agg.Merge(res.St)
			if e.NonTrivial == nil || e.NonTrivial(res.St) {
				out.NonTrivial++
				distinct[res.Digest] = true
			}
			if wantDigests {
				out.Digests = append(out.Digests, res.Digest)
			}
			if len(out.Samples) < 3 && e.Sample != nil && (e.NonTrivial == nil || e.NonTrivial(res.St)) {
				out.Samples = append(out.Samples, e.Sample(plan))
			}
		}
		if res.V != nil {
			if k := matchKnown(known, res.V); k != nil {
				if !failed {
					out.Known[k.Fingerprint+"|"+k.MsgContains]++
					out.KnownWhat[k.Fingerprint+"|"+k.MsgContains] = k.What
				}
				return
			}
			failed = true
			lastFail, lastPlan = res, plan
			rt.Fatalf("%v", res.V)
		}
	}
	rapid.Check(t, prop)
}

// Replay executes the plan stored in a replay file and reports whether the recorded violation
// reproduces exactly (same fingerprint, same event-log digest).
func Replay(t *testing.T, e *Engine, path string) {
	initEnv()
	defer Cleanup()
	b, err := os.ReadFile(path)
	if err != nil {
		t.Fatalf("replay: %v", err)
	}
	var rf ReplayFile
	if err := json.Unmarshal(b, &rf); err != nil {
		t.Fatalf("replay: %v", err)
	}
	plan := e.NewPlan()
	if err := json.Unmarshal(rf.Plan, plan); err != nil {
		t.Fatalf("replay: bad plan: %v", err)
	}
	// XSIM_REPLAY_REPEAT=n: execute the plan n times in this process first (isolation test: every
	// execution must give the same digest whatever ran before it in the process)
	rep := 0
	fmt.Sscan(os.Getenv("XSIM_REPLAY_REPEAT"), &rep)
	for i := 0; i < rep; i++ {
		p2 := e.NewPlan()
		json.Unmarshal(rf.Plan, p2)
		r2 := RunPlan(t, e, p2)
		v := "none"
		if r2.V != nil {
			v = r2.V.Fingerprint()
		}
		fmt.Printf("REPLAY-REPEAT %d digest=%s violation=%s\n", i, r2.Digest, v)
	}
	res := RunPlan(t, e, plan)
	if res.Panic != "" {
		fmt.Println("xsim: infrastructure panic:", res.Panic)
		os.Exit(2)
	}
	if os.Getenv("XSIM_VERBOSE") != "" {
		for _, l := range res.Log {
			fmt.Println("LOG", l)
		}
	}
	if res.V == nil {
		fmt.Printf("REPLAY property=%s result=no-violation (recorded: %s)\n", e.Prop, rf.Violation.Fingerprint())
		t.Fatalf("replay did not reproduce")
	}
	same := res.V.Fingerprint() == rf.Violation.Fingerprint() && res.Digest == rf.LogDigest
	fmt.Printf("REPLAY property=%s violation=%s digest=%s exact=%v\n%s\n", e.Prop, res.V.Fingerprint(), res.Digest, same, res.V.Msg)
	if !same {
		t.Fatalf("replay differs from recording: %s/%s vs %s/%s", res.V.Fingerprint(), res.Digest, rf.Violation.Fingerprint(), rf.LogDigest)
	}
}

// Aliases of the wire types.
type (
	Violation    = wire.Violation
	KnownFinding = wire.KnownFinding
	WorkerOut    = wire.WorkerOut
	ReplayFile   = wire.ReplayFile
)
