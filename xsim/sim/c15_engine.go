package sim

import (
	"bytes"
	"crypto/sha256"
	"encoding/hex"
	"encoding/json"
	"errors"
	"fmt"
	"sort"
	"strings"

	xctx "github.com/xuperchain/xupercore/kernel/common/xcontext"
	ccommon "github.com/xuperchain/xupercore/kernel/consensus/base/common"
	cbft "github.com/xuperchain/xupercore/kernel/consensus/base/driver/chained-bft"
	cbftCrypto "github.com/xuperchain/xupercore/kernel/consensus/base/driver/chained-bft/crypto"
	cbftPb "github.com/xuperchain/xupercore/kernel/consensus/base/driver/chained-bft/pb"
	cctx "github.com/xuperchain/xupercore/kernel/consensus/context"
	"github.com/xuperchain/xupercore/kernel/ledger"
	nctx "github.com/xuperchain/xupercore/kernel/network/context"
	"github.com/xuperchain/xupercore/kernel/network/p2p"
	"github.com/xuperchain/xupercore/lib/logs"
	pb "github.com/xuperchain/xupercore/protos"
)

// ---- C15 engine: real Smr / QCPendingTree objects driven at message level ------------------------
//
// Real code under test: chained-bft Smr (handleReceivedProposal, handleReceivedVoteMsg,
// ProcessProposal, UpdateQcStatus, UpdateJustifyQcStatus, EnforceUpdateHighQC, BlockToProposalNode),
// QCPendingTree, DefaultSaftyRules, DefaultPaceMaker, CBFTCrypto and consensus/base/common.InitQCTree.
// Stubs: the transport (records what a node sends), the election (fixed validator set, leader by
// round), the ledger handed to InitQCTree (a chain of the node's confirmed blocks).
//
// The oracle knows the universe (who is whose parent) and, per node, which proposals the node
// ACCEPTED (UpdateQcStatus returned nil, or the node voted for it, or it shows up in the node's
// structure). It never predicts whether the node accepts a message.

const c15BC = "xuper"

type c15Val struct {
	acct *Acct
	cc   *cbftCrypto.CBFTCrypto
	sigs map[int]*cbftPb.QuorumCertSign
}

type c15Sent struct {
	from int
	msg  *pb.XuperMessage
}

type c15Node struct {
	i    int
	smr  *cbft.Smr
	tree *cbft.QCPendingTree
	// model
	accepted   map[int]bool
	confirmed  map[int]bool
	tip        int // ledger tip (universe index)
	root       int
	highView   int64
	pmView     int64
	prevMk     [3]*cbft.ProposalNode
	mkInit     [3]bool
	mkDev      [3]bool // marker deviated at the previous check already
	unmerged   map[int]bool
	taintStore bool
	last       *c15Obs
}

type c15Eng struct {
	pl       *C15Plan
	rc       *RunCtx
	log      logs.Logger
	ids      [][]byte
	idx      map[string]int
	children [][]int
	depth    []int
	vals     []*c15Val
	addrs    []string
	nodes    []*c15Node
	pool     []*pb.XuperMessage
	outbox   []*c15Sent
	findings map[string]*Violation
	step     int
	op       string
}

// ---- stubs ---------------------------------------------------------------------------------------

type c15Net struct {
	e    *c15Eng
	node int
}

func (n *c15Net) Start() {}
func (n *c15Net) Stop()  {}
func (n *c15Net) SendMessage(c xctx.XContext, m *pb.XuperMessage, opts ...p2p.OptionFunc) error {
	n.e.outbox = append(n.e.outbox, &c15Sent{from: n.node, msg: m})
	return nil
}
func (n *c15Net) SendMessageWithResponse(c xctx.XContext, m *pb.XuperMessage, opts ...p2p.OptionFunc) ([]*pb.XuperMessage, error) {
	return nil, nil
}
func (n *c15Net) NewSubscriber(t pb.XuperMessage_MessageType, v interface{}, opts ...p2p.SubscriberOption) p2p.Subscriber {
	return nil
}
func (n *c15Net) Register(p2p.Subscriber) error   { return nil }
func (n *c15Net) UnRegister(p2p.Subscriber) error { return nil }
func (n *c15Net) Context() *nctx.NetCtx           { return nil }
func (n *c15Net) PeerInfo() pb.PeerInfo           { return pb.PeerInfo{} }

type c15Election struct{ addrs []string }

func (e *c15Election) GetLeader(round int64) string {
	n := int64(len(e.addrs))
	return e.addrs[((round%n)+n)%n]
}
func (e *c15Election) GetValidators(round int64) []string { return e.addrs }
func (e *c15Election) GetIntAddress(a string) string      { return a }

type c15Block struct {
	id, pre []byte
	h       int64
}

func (b *c15Block) GetProposer() []byte                          { return nil }
func (b *c15Block) GetHeight() int64                             { return b.h }
func (b *c15Block) GetBlockid() []byte                           { return b.id }
func (b *c15Block) GetConsensusStorage() ([]byte, error)         { return nil, nil }
func (b *c15Block) GetTimestamp() int64                          { return 0 }
func (b *c15Block) SetItem(item string, value interface{}) error { return nil }
func (b *c15Block) MakeBlockId() ([]byte, error)                 { return b.id, nil }
func (b *c15Block) GetPreHash() []byte                           { return b.pre }
func (b *c15Block) GetNextHash() []byte                          { return nil }
func (b *c15Block) GetPublicKey() string                         { return "" }
func (b *c15Block) GetSign() []byte                              { return nil }
func (b *c15Block) GetTxIDs() []string                           { return nil }
func (b *c15Block) GetInTrunk() bool                             { return true }

type c15Ledger struct{ chain []*c15Block }

var errC15NoBlock = errors.New("c15 ledger: no such block")

func (l *c15Ledger) GetConsensusConf() ([]byte, error) { return nil, errC15NoBlock }
func (l *c15Ledger) QueryBlock(id []byte) (ledger.BlockHandle, error) {
	for _, b := range l.chain {
		if bytes.Equal(b.id, id) {
			return b, nil
		}
	}
	return nil, errC15NoBlock
}
func (l *c15Ledger) QueryBlockByHeight(h int64) (ledger.BlockHandle, error) {
	if h < 0 || h >= int64(len(l.chain)) {
		return nil, errC15NoBlock
	}
	return l.chain[h], nil
}
func (l *c15Ledger) GetTipBlock() ledger.BlockHandle { return l.chain[len(l.chain)-1] }
func (l *c15Ledger) GetTipXMSnapshotReader() (ledger.XMSnapshotReader, error) {
	return nil, errC15NoBlock
}
func (l *c15Ledger) CreateSnapshot(blkId []byte) (ledger.XMReader, error) { return nil, errC15NoBlock }
func (l *c15Ledger) GetTipSnapshot() (ledger.XMReader, error)             { return nil, errC15NoBlock }

var _ cctx.LedgerRely = (*c15Ledger)(nil)

// ---- universe helpers ----------------------------------------------------------------------------

func (e *c15Eng) parent(x int) int {
	if x <= 0 {
		return -1
	}
	return e.pl.Props[x].Parent
}
func (e *c15Eng) view(x int) int64 { return e.pl.Props[x].View }

// isDesc reports whether x is a descendant of (or equal to) a in the universe.
func (e *c15Eng) isDesc(a, x int) bool {
	for x >= 0 {
		if x == a {
			return true
		}
		x = e.parent(x)
	}
	return false
}

func (e *c15Eng) name(x int) string {
	if x < 0 {
		return "-"
	}
	return fmt.Sprintf("P%d", x)
}

func (e *c15Eng) idOf(n *cbft.ProposalNode) int {
	if n == nil {
		return -1
	}
	if x, ok := e.idx[string(n.In.GetProposalId())]; ok {
		return x
	}
	return -2
}

func (e *c15Eng) sign(v, x int) *cbftPb.QuorumCertSign {
	val := e.vals[v]
	if s, ok := val.sigs[x]; ok {
		return s
	}
	s, err := val.cc.SignVoteMsg(e.ids[x])
	if err != nil {
		panic(err)
	}
	val.sigs[x] = s
	return s
}

func (e *c15Eng) signs(x, mask int) []*cbftPb.QuorumCertSign {
	var out []*cbftPb.QuorumCertSign
	for v := 0; v < C15Validators; v++ {
		if mask&(1<<uint(v)) != 0 {
			out = append(out, e.sign(v, x))
		}
	}
	return out
}

// qc builds the quorum certificate of proposal x signed by mask.
func (e *c15Eng) qc(x, mask int, commit bool) *cbft.QuorumCert {
	q := &cbft.QuorumCert{
		VoteInfo:  &cbft.VoteInfo{ProposalId: e.ids[x], ProposalView: e.view(x)},
		SignInfos: e.signs(x, mask),
	}
	if commit {
		q.LedgerCommitInfo = &cbft.LedgerCommitInfo{CommitStateId: e.ids[x]}
	}
	return q
}

func (e *c15Eng) block(x int) *c15Block {
	b := &c15Block{id: e.ids[x], h: e.view(x)}
	if p := e.parent(x); p >= 0 {
		b.pre = e.ids[p]
	}
	return b
}

// ---- node construction (as tdpos.NewTdposConsensus does) -----------------------------------------

func (e *c15Eng) boot(i int, path []int) *c15Node {
	led := &c15Ledger{}
	for _, x := range path {
		led.chain = append(led.chain, e.block(x))
	}
	tree := ccommon.InitQCTree(1, led, e.log)
	if tree == nil {
		panic("c15: InitQCTree returned nil")
	}
	cc := e.vals[i].cc
	pm := &cbft.DefaultPaceMaker{CurrentView: 1}
	tipH := led.GetTipBlock().GetHeight()
	rebuilt := !bytes.Equal(tree.Genesis.In.GetProposalId(), tree.GetRootQC().In.GetProposalId())
	if rebuilt {
		pm.CurrentView = tipH - 1
	}
	sr := &cbft.DefaultSaftyRules{Crypto: cc, QcTree: tree, Log: e.log}
	smr := cbft.NewSmr(c15BC, e.addrs[i], e.log, &c15Net{e: e, node: i}, cc, pm, sr, &c15Election{addrs: e.addrs}, tree)
	if rebuilt {
		for k := int64(0); k < 3; k++ {
			b, err := led.QueryBlockByHeight(tipH - k)
			if err != nil {
				break
			}
			if px, ok := e.idx[string(b.GetPreHash())]; ok {
				smr.LoadVotes(b.GetPreHash(), e.signs(px, c15FullMask))
			}
		}
		e.rc.St.Probes["restart-rebuilt-from-ledger"]++
	}
	n := &c15Node{i: i, smr: smr, tree: tree, accepted: map[int]bool{}, confirmed: map[int]bool{}, unmerged: map[int]bool{}}
	for _, x := range path {
		n.confirmed[x] = true
	}
	n.tip = path[len(path)-1]
	n.root = e.idOf(tree.Root)
	n.highView = tree.HighQC.In.GetProposalView()
	n.pmView = smr.GetCurrentView()
	n.prevMk = [3]*cbft.ProposalNode{tree.GenericQC, tree.LockedQC, tree.CommitQC}
	for k := range n.prevMk {
		n.mkInit[k] = n.prevMk[k] != nil
	}
	return n
}

// ---- observation ---------------------------------------------------------------------------------

type c15Obs struct {
	root, high int
	highView   int64
	mk         [3]int
	inTree     map[int]bool
	sparent    map[int]int // structural parent (tree and orphan subtrees)
	inOrphan   map[int]int // proposal -> root of (the first) orphan subtree that holds it
	oroots     []int
	count      map[int]int
	maxSons    int
	order      []int
}

// observe walks the real structure through its exported fields. A structural defect is returned as
// (clause, message).
func (e *c15Eng) observe(n *c15Node) (*c15Obs, string, string) {
	t := n.tree
	o := &c15Obs{inTree: map[int]bool{}, sparent: map[int]int{}, inOrphan: map[int]int{}, count: map[int]int{}}
	if t.Root == nil || t.HighQC == nil {
		return o, "root-or-highqc-missing", "Root or HighQC is nil"
	}
	o.root, o.high = e.idOf(t.Root), e.idOf(t.HighQC)
	o.highView = t.HighQC.In.GetProposalView()
	o.mk = [3]int{e.idOf(t.GenericQC), e.idOf(t.LockedQC), e.idOf(t.CommitQC)}
	seen := map[*cbft.ProposalNode]bool{}
	onPath := map[*cbft.ProposalNode]bool{}
	budget := 64 * (len(e.ids) + 1)
	var clause, msg string
	fail := func(c, m string) {
		if clause == "" {
			clause, msg = c, m
		}
	}
	var rec func(p, par *cbft.ProposalNode, oroot int)
	rec = func(p, par *cbft.ProposalNode, oroot int) {
		if clause != "" {
			return
		}
		if budget--; budget < 0 {
			fail("tree-cycle", "walk does not terminate")
			return
		}
		if p == nil || p.In == nil {
			fail("tree-foreign-node", "nil node or node without certificate stored below "+e.name(e.idOf(par)))
			return
		}
		x := e.idOf(p)
		if onPath[p] {
			fail("tree-cycle", fmt.Sprintf("%s is its own ancestor", e.name(x)))
			return
		}
		if seen[p] {
			if oroot < 0 {
				fail("tree-node-reachable-twice", fmt.Sprintf("%s is reachable from Root along two paths", e.name(x)))
			} else {
				fail("stored-twice", fmt.Sprintf("node object of %s is held by the tree / orphan list more than once", e.name(x)))
			}
			return
		}
		if x < 0 {
			fail("tree-foreign-node", fmt.Sprintf("stored node with an id nobody proposed: %x", p.In.GetProposalId()))
			return
		}
		seen[p], onPath[p] = true, true
		o.count[x]++
		o.order = append(o.order, x)
		if oroot < 0 {
			if o.inTree[x] {
				fail("tree-node-reachable-twice", fmt.Sprintf("%s occurs twice below Root", e.name(x)))
			}
			o.inTree[x] = true
		} else if _, ok := o.inOrphan[x]; !ok {
			o.inOrphan[x] = oroot
		}
		if par != nil {
			px := e.idOf(par)
			o.sparent[x] = px
			if e.parent(x) != px || !bytes.Equal(p.In.GetParentProposalId(), par.In.GetProposalId()) {
				fail("child-under-wrong-parent", fmt.Sprintf("%s (parent %s) is stored as a child of %s", e.name(x), e.name(e.parent(x)), e.name(px)))
			}
		}
		if len(p.Sons) > o.maxSons && oroot < 0 {
			o.maxSons = len(p.Sons)
		}
		for _, s := range p.Sons {
			rec(s, p, oroot)
		}
		delete(onPath, p)
	}
	rec(t.Root, nil, -1)
	if t.OrphanList != nil {
		for el := t.OrphanList.Front(); el != nil && clause == ""; el = el.Next() {
			p, ok := el.Value.(*cbft.ProposalNode)
			if !ok || p == nil || p.In == nil {
				fail("tree-foreign-node", "orphan list element is not a proposal node")
				break
			}
			r := e.idOf(p)
			o.oroots = append(o.oroots, r)
			rec(p, nil, r)
		}
	}
	return o, clause, msg
}

func (e *c15Eng) summary(o *c15Obs) string {
	var sb strings.Builder
	fmt.Fprintf(&sb, "root=%s high=%s@%d g/l/c=%s/%s/%s tree=[", e.name(o.root), e.name(o.high), o.highView, e.name(o.mk[0]), e.name(o.mk[1]), e.name(o.mk[2]))
	first := true
	for _, x := range o.order {
		if o.inTree[x] && x != o.root {
			if !first {
				sb.WriteByte(' ')
			}
			first = false
			fmt.Fprintf(&sb, "%d<%d", x, o.sparent[x])
		}
	}
	sb.WriteString("] orphans=[")
	first = true
	for _, x := range o.order {
		if _, ok := o.inOrphan[x]; ok {
			if !first {
				sb.WriteByte(' ')
			}
			first = false
			if p, ok := o.sparent[x]; ok && !o.inTree[x] {
				fmt.Fprintf(&sb, "%d<%d", x, p)
			} else {
				fmt.Fprintf(&sb, "%d", x)
			}
		}
	}
	sb.WriteString("]")
	return sb.String()
}

// ---- oracle --------------------------------------------------------------------------------------

func (e *c15Eng) hard(clause, format string, a ...interface{}) *Violation {
	return &Violation{Prop: "C15", Clause: clause, Step: e.step, Op: e.op, Msg: fmt.Sprintf(format, a...)}
}

// finding records a deviation that is classified as a known-finding candidate; the run goes on.
func (e *c15Eng) finding(clause, format string, a ...interface{}) {
	e.rc.St.Probes["finding:"+clause]++
	if e.findings[clause] == nil {
		e.findings[clause] = &Violation{Prop: "C15", Clause: clause, Step: e.step, Op: "history",
			Msg: fmt.Sprintf("first seen at step %d (%s): ", e.step, e.op) + fmt.Sprintf(format, a...)}
	}
}

// check applies every clause of the statement to node n after an event. rollback = the event was an
// explicit rollback of this node.
func (e *c15Eng) check(n *c15Node, rollback bool) *Violation {
	st := e.rc.St
	o, clause, msg := e.observe(n)
	if clause != "" {
		return e.hard(clause, "node %d: %s", n.i, msg)
	}
	prev := n.last
	n.last = o
	// whatever the node stores, it accepted
	for _, x := range o.order {
		n.accepted[x] = true
	}
	if prev != nil {
		for _, x := range o.order {
			if o.inTree[x] && !prev.inTree[x] {
				if _, was := prev.inOrphan[x]; was {
					st.Probes["orphan-adopted"]++
					if len(e.children[x]) > 0 && o.inTree[e.children[x][0]] && !prev.inTree[e.children[x][0]] {
						st.Probes["orphan-subtree-adopted"]++
					}
				}
			}
			if _, is := o.inOrphan[x]; is && prev.count[x] == 0 {
				st.Probes["orphan-stored"]++
			}
		}
		for _, x := range prev.order {
			if _, was := prev.inOrphan[x]; was && o.count[x] == 0 {
				st.Probes["orphan-dropped"]++
			}
		}
	}
	if o.maxSons >= 2 {
		st.Probes["competing-children-in-tree"]++
	}
	if !o.inTree[o.high] {
		st.Probes["highqc-outside-tree"]++
	}

	// (1) the committed root only moves to a descendant of the previous root
	if o.root != n.root {
		if !e.isDesc(n.root, o.root) {
			return e.hard("root-moved-to-non-descendant", "node %d: Root moved from %s to %s, which does not descend from it", n.i, e.name(n.root), e.name(o.root))
		}
		st.Probes["root-moved"]++
		if len(o.oroots) > 0 {
			st.Probes["root-moved-with-orphans"]++
		}
		n.root = o.root
	}

	// precursor of the classified orphan finding: an orphan-list root whose parent is held inside an
	// orphan subtree (the forest was not merged when that parent arrived)
	for _, r := range o.oroots {
		if p := e.parent(r); p >= 0 {
			if _, ok := o.inOrphan[p]; ok && !n.unmerged[r] {
				n.unmerged[r] = true
				st.Probes["orphan-forest-unmerged"]++
			}
		}
	}

	// (2) every accepted proposal is stored exactly once; connected ones are in the tree
	if !n.taintStore {
		var acc []int
		for x := range n.accepted {
			acc = append(acc, x)
		}
		sort.Ints(acc)
		for _, x := range acc {
			if o.count[x] > 1 {
				return e.hard("stored-twice", "node %d: %s is stored %d times (tree / orphan subtrees)", n.i, e.name(x), o.count[x])
			}
		}
		for _, x := range acc {
			if x == o.root || !e.isDesc(o.root, x) {
				continue // pruned by a commit, or never below the committed root: no obligation
			}
			conn := true
			for p := e.parent(x); p != o.root; p = e.parent(p) {
				if !n.accepted[p] {
					conn = false
					break
				}
			}
			if conn && !o.inTree[x] {
				if r, ok := o.inOrphan[x]; ok {
					if n.unmerged[r] {
						e.finding("orphan-not-adopted-unmerged-forest", "node %d: accepted proposal %s and all its ancestors up to Root %s have arrived, but it is still held in the orphan subtree of %s: the parent of %s had itself arrived as an orphan and the two orphan subtrees were never joined", n.i, e.name(x), e.name(o.root), e.name(r), e.name(r))
						n.taintStore = true
						break
					}
					return e.hard("orphan-not-adopted", "node %d: accepted proposal %s and all its ancestors up to Root %s have arrived, but it is still an orphan (subtree of %s)", n.i, e.name(x), e.name(o.root), e.name(r))
				}
				return e.hard("accepted-proposal-lost", "node %d: accepted proposal %s (ancestry complete up to Root %s) is stored nowhere", n.i, e.name(x), e.name(o.root))
			}
			if o.count[x] == 0 {
				return e.hard("accepted-proposal-lost", "node %d: accepted proposal %s descends from Root %s but is neither in the tree nor an orphan", n.i, e.name(x), e.name(o.root))
			}
		}
	}

	// (3) the highest-certified marker's view never decreases except by explicit rollback
	if o.highView < n.highView {
		if !rollback {
			return e.hard("highqc-view-decreased", "node %d: HighQC view went from %d to %d (%s) without a rollback", n.i, n.highView, o.highView, e.name(o.high))
		}
		st.Probes["rollback-lowered-highqc"]++
	} else if o.highView > n.highView {
		st.Probes["highqc-advanced"]++
		if e.op == "vote" || e.op == "pool" {
			st.Probes["highqc-advanced-by-vote-quorum"]++
		}
	}
	n.highView = o.highView

	// (4) generic / locked / commit markers are HighQC's parent / grandparent / great-grandparent whenever set
	mks := [3]*cbft.ProposalNode{n.tree.GenericQC, n.tree.LockedQC, n.tree.CommitQC}
	names := [3]string{"GenericQC", "LockedQC", "CommitQC"}
	exp := o.high
	for k := 0; k < 3; k++ {
		exp = e.parent(exp)
		real := mks[k]
		unchanged := real == n.prevMk[k]
		if !unchanged {
			n.mkInit[k] = false
		}
		n.prevMk[k] = real
		dev := n.mkDev[k]
		n.mkDev[k] = false
		if real == nil {
			continue
		}
		if o.mk[k] == exp {
			if k == 2 {
				st.Probes["commit-marker-is-great-grandparent"]++
			}
			continue
		}
		n.mkDev[k] = true
		outside := exp < 0 || !o.inTree[exp]
		switch {
		case rollback && !dev && !n.mkInit[k]:
			return e.hard("marker-not-reset-by-rollback", "node %d: after the explicit rollback to HighQC %s, %s = %s but the %d-th ancestor of HighQC is %s", n.i, e.name(o.high), names[k], e.name(o.mk[k]), k+1, e.name(exp))
		case unchanged && outside && n.mkInit[k]:
			// Not a violation (oracle decision, DESIGN section 7): the tree is created with every marker on the
			// committed root; as long as HighQC is fewer than k+1 levels below the root the k-th ancestor
			// does not exist inside the pending tree and the marker still names the root it was built with.
			st.Probes["marker-still-on-initial-root"]++
		case unchanged && outside:
			e.finding("marker-stale-ancestor-outside-tree", "node %d: HighQC = %s whose %d-th ancestor (%s) is not in the pending tree, yet %s still names %s from an earlier HighQC", n.i, e.name(o.high), k+1, e.name(exp), names[k], e.name(o.mk[k]))
		default:
			return e.hard("marker-not-ancestor", "node %d: %s = %s but the %d-th ancestor of HighQC %s is %s", n.i, names[k], e.name(o.mk[k]), k+1, e.name(o.high), e.name(exp))
		}
	}

	// (5) pacemaker view is max-monotone
	if v := n.smr.GetCurrentView(); v < n.pmView {
		return e.hard("pacemaker-view-decreased", "node %d: pacemaker view went from %d to %d", n.i, n.pmView, v)
	} else {
		if v > n.pmView {
			st.Probes["pacemaker-advanced"]++
		}
		n.pmView = v
	}

	h := sha256.Sum256([]byte(e.summary(o)))
	st.States[hex.EncodeToString(h[:8])] = true
	return nil
}

// ---- messages ------------------------------------------------------------------------------------

func (e *c15Eng) proposalMsg(ev *C15Ev) *pb.XuperMessage {
	par := e.parent(ev.X)
	var justify *cbft.QuorumCert
	if par == 0 && ev.Mask == c15FullMask && !ev.Commit {
		// as reloadJustifyQC does for the first proposal
		justify = &cbft.QuorumCert{VoteInfo: &cbft.VoteInfo{ProposalId: e.ids[0], ProposalView: 0}}
	} else {
		justify = e.qc(par, ev.Mask, ev.Commit)
	}
	jb, err := json.Marshal(justify)
	must(err)
	pm := &cbftPb.ProposalMsg{ProposalView: e.view(ev.X), ProposalId: e.ids[ev.X], Timestamp: int64(ev.X), JustifyQC: jb}
	pm, err = e.vals[ev.By%C15Validators].cc.SignProposalMsg(pm)
	must(err)
	return p2p.NewMessage(pb.XuperMessage_CHAINED_BFT_NEW_PROPOSAL_MSG, pm, p2p.WithBCName(c15BC))
}

func (e *c15Eng) voteMsg(x, by int) *pb.XuperMessage {
	par := e.parent(x)
	vi := &cbft.VoteInfo{ProposalId: e.ids[x], ProposalView: e.view(x), ParentId: e.ids[par], ParentView: e.view(par)}
	vb, err := json.Marshal(vi)
	must(err)
	lb, err := json.Marshal(&cbft.LedgerCommitInfo{VoteInfoHash: e.ids[x]})
	must(err)
	vm := &cbftPb.VoteMsg{VoteInfo: vb, LedgerCommitInfo: lb, Signature: []*cbftPb.QuorumCertSign{e.sign(by, x)}}
	return p2p.NewMessage(pb.XuperMessage_CHAINED_BFT_VOTE_MSG, vm, p2p.WithBCName(c15BC))
}

// drain runs the captured `go p2p.SendMessage` bodies and files what the nodes sent: a vote for X
// sent by node i means node i accepted X.
func (e *c15Eng) drain() string {
	e.rc.RunBG()
	var notes []string
	for _, s := range e.outbox {
		switch s.msg.GetHeader().GetType() {
		case pb.XuperMessage_CHAINED_BFT_VOTE_MSG:
			vm := &cbftPb.VoteMsg{}
			if err := p2p.Unmarshal(s.msg, vm); err != nil {
				panic(err)
			}
			vi := &cbft.VoteInfo{}
			must(json.Unmarshal(vm.VoteInfo, vi))
			if x, ok := e.idx[string(vi.ProposalId)]; ok {
				e.nodes[s.from].accepted[x] = true
				e.rc.St.Probes["vote-emitted"]++
				notes = append(notes, fmt.Sprintf("n%d-votes-%s", s.from, e.name(x)))
			}
		case pb.XuperMessage_CHAINED_BFT_NEW_PROPOSAL_MSG:
			notes = append(notes, fmt.Sprintf("n%d-sends-proposal", s.from))
		}
		if len(e.pool) < 64 {
			e.pool = append(e.pool, s.msg)
		}
	}
	e.outbox = e.outbox[:0]
	return strings.Join(notes, ",")
}

func (e *c15Eng) deliver(n *c15Node, m *pb.XuperMessage) string {
	switch m.GetHeader().GetType() {
	case pb.XuperMessage_CHAINED_BFT_NEW_PROPOSAL_MSG:
		n.smr.XsimHandleProposal(m)
		return "handled"
	case pb.XuperMessage_CHAINED_BFT_VOTE_MSG:
		if err := n.smr.XsimHandleVote(m); err != nil {
			e.rc.St.Probes["vote-refused"]++
			return "vote-refused"
		}
		e.rc.St.Probes["vote-taken"]++
		return "vote-taken"
	}
	return "ignored"
}

// ---- execution -----------------------------------------------------------------------------------

// ExecC15 executes a plan.
func ExecC15(pl *C15Plan, rc *RunCtx) *Violation {
	initEnv()
	if len(pl.Props) == 0 || pl.Nodes < 1 || pl.Nodes > C15Validators {
		panic("c15: malformed plan")
	}
	e := &c15Eng{pl: pl, rc: rc, idx: map[string]int{}, findings: map[string]*Violation{}}
	var err error
	e.log, err = logs.NewLogger("", "c15")
	must(err)
	for i := range pl.Props {
		id := []byte(fmt.Sprintf("prop-%02d", i))
		e.ids = append(e.ids, id)
		e.idx[string(id)] = i
	}
	e.children = make([][]int, len(pl.Props))
	e.depth = make([]int, len(pl.Props))
	for i := 1; i < len(pl.Props); i++ {
		p := pl.Props[i].Parent
		if p < 0 || p >= i {
			panic("c15: malformed universe")
		}
		e.children[p] = append(e.children[p], i)
		e.depth[i] = e.depth[p] + 1
	}
	for v := 0; v < C15Validators; v++ {
		a := Accts[v]
		addr := &cctx.Address{Address: a.Addr, PrivateKeyStr: a.Priv, PublicKeyStr: a.Pub, PrivateKey: a.SK, PublicKey: &a.SK.PublicKey}
		e.vals = append(e.vals, &c15Val{acct: a, cc: cbftCrypto.NewCBFTCrypto(addr, Crypto), sigs: map[int]*cbftPb.QuorumCertSign{}})
		e.addrs = append(e.addrs, a.Addr)
	}
	e.step, e.op = -1, "boot"
	for i := 0; i < pl.Nodes; i++ {
		n := e.boot(i, []int{0})
		e.nodes = append(e.nodes, n)
		if v := e.check(n, false); v != nil {
			return v
		}
	}
	delivered := map[[2]int]bool{}
	for si := range pl.Events {
		ev := &pl.Events[si]
		e.step, e.op = si, ev.Op
		if ev.N < 0 || ev.N >= len(e.nodes) || ev.X < 1 || ev.X >= len(pl.Props) {
			panic("c15: malformed event")
		}
		n := e.nodes[ev.N]
		rc.St.Steps++
		rc.St.Ops[ev.Op]++
		res := ""
		rollback := false
		firstArrival := func() {
			k := [2]int{ev.N, ev.X}
			if delivered[k] {
				rc.St.Faults["duplicate-delivery"]++
			} else if p := e.parent(ev.X); p != 0 && !n.accepted[p] {
				rc.St.Faults["child-before-parent"]++
			}
			delivered[k] = true
			if ev.Mask != c15FullMask {
				rc.St.Faults["weak-justify"]++
			}
		}
		switch ev.Op {
		case "prop":
			firstArrival()
			res = e.deliver(n, e.proposalMsg(ev))
			if ev.Commit {
				rc.St.Probes["proposal-announcing-commit"]++
			}
		case "confirm":
			firstArrival()
			if ev.K&1 == 0 {
				if p := e.parent(ev.X); p > 0 {
					n.smr.UpdateJustifyQcStatus(e.qc(p, ev.Mask, false))
				}
			}
			pn := n.smr.BlockToProposalNode(e.block(ev.X))
			if err := n.smr.UpdateQcStatus(pn); err != nil {
				res = "refused"
				rc.St.Probes["confirm-refused"]++
			} else {
				res = "ok"
				n.accepted[ev.X] = true
				n.confirmed[ev.X] = true
				// ledger model: longest fully confirmed chain
				full := true
				for p := e.parent(ev.X); p >= 0; p = e.parent(p) {
					if !n.confirmed[p] {
						full = false
						break
					}
				}
				if full && e.depth[ev.X] > e.depth[n.tip] {
					n.tip = ev.X
				}
			}
		case "justify":
			n.smr.UpdateJustifyQcStatus(e.qc(ev.X, ev.Mask, false))
			res = "ok"
		case "vote":
			res = e.deliver(n, e.voteMsg(ev.X, ev.By%C15Validators))
		case "rollback":
			target := ev.X
			switch ev.K % 3 {
			case 1:
				if g := n.smr.GetGenericQC(); g != nil {
					if x, ok := e.idx[string(g.GetProposalId())]; ok {
						target = x
					}
				}
			case 2:
				target = n.tip
			}
			rollback = true
			if err := n.smr.EnforceUpdateHighQC(e.ids[target]); err != nil {
				res = "refused:" + e.name(target)
				rc.St.Probes["rollback-refused"]++
			} else {
				res = "to:" + e.name(target)
				rc.St.Faults["explicit-rollback"]++
			}
		case "propose":
			h := e.idOf(n.tree.HighQC)
			if h < 0 || len(e.children[h]) == 0 {
				res = "skip-no-child"
				break
			}
			x := e.children[h][ev.X%len(e.children[h])]
			if err := n.smr.ProcessProposal(e.view(x), e.ids[x], e.addrs); err != nil {
				res = "refused:" + e.name(x)
				rc.St.Probes["real-proposal-refused"]++
				break
			}
			res = "made:" + e.name(x)
			rc.St.Probes["real-proposal-made"]++
			e.rc.RunBG()
			if ev.K&1 == 1 && len(e.outbox) > 0 {
				m := e.outbox[len(e.outbox)-1].msg
				res += "," + e.deliver(n, m)
			}
		case "pool":
			if len(e.pool) == 0 {
				res = "skip-empty-pool"
				break
			}
			rc.St.Probes["pool-message-delivered"]++
			res = e.deliver(n, e.pool[ev.K%len(e.pool)])
		case "restart":
			var path []int
			for x := n.tip; x >= 0; x = e.parent(x) {
				path = append([]int{x}, path...)
			}
			ok := true
			for h, x := range path {
				if e.view(x) != int64(h) {
					ok = false
				}
			}
			if !ok {
				res = "skip-view-gap"
				rc.St.Probes["restart-skipped-view-gap"]++
				break
			}
			nn := e.boot(ev.N, path)
			e.nodes[ev.N] = nn
			n = nn
			res = fmt.Sprintf("tip=%s", e.name(nn.tip))
			rc.St.Faults["crash-restart"]++
		default:
			panic("c15: unknown op " + ev.Op)
		}
		notes := e.drain()
		// every node is checked after every event (only the addressed node can have changed)
		for _, m := range e.nodes {
			if v := e.check(m, rollback && m == n); v != nil {
				rc.Log.Add("%d %s n%d %s -> %s %s | VIOLATION %s", si, ev.Op, ev.N, e.name(ev.X), res, notes, v.Clause)
				return v
			}
		}
		if (ev.Op == "prop" || ev.Op == "pool") && n.last.count[ev.X] == 0 && !n.accepted[ev.X] {
			rc.St.Probes["proposal-refused"]++
		}
		rc.Log.Add("%d %s n%d %s m=%d by=%d c=%v k=%d -> %s %s | %s", si, ev.Op, ev.N, e.name(ev.X), ev.Mask, ev.By, ev.Commit, ev.K, res, notes, e.summary(n.last))
	}
	for _, n := range e.nodes {
		for x := 1; x < len(pl.Props); x++ {
			if !n.accepted[x] {
				rc.St.Faults["never-accepted-proposal"]++
			}
		}
	}
	for _, c := range []string{"orphan-not-adopted-unmerged-forest", "marker-stale-ancestor-outside-tree", "marker-set-at-construction"} {
		if v := e.findings[c]; v != nil {
			return v
		}
	}
	return nil
}
