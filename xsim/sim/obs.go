package sim

import (
	"bytes"
	"crypto/sha256"
	"encoding/hex"
	"fmt"
	"sort"
	"strings"

	lpb "github.com/xuperchain/xupercore/bcs/ledger/xledger/xldgpb"
)

// Obs is a canonical observation vector: everything a client can see through the public API.
type Obs struct {
	KV map[string]string
}

func NewObs() *Obs { return &Obs{KV: map[string]string{}} }

func (o *Obs) Put(k string, format string, a ...interface{}) {
	o.KV[k] = fmt.Sprintf(format, a...)
}

// Keys returns the sorted keys.
func (o *Obs) Keys() []string {
	ks := make([]string, 0, len(o.KV))
	for k := range o.KV {
		ks = append(ks, k)
	}
	sort.Strings(ks)
	return ks
}

// Digest hashes the observation (distinct-state measure).
func (o *Obs) Digest() string {
	h := sha256.New()
	for _, k := range o.Keys() {
		h.Write([]byte(k))
		h.Write([]byte{0})
		h.Write([]byte(o.KV[k]))
		h.Write([]byte{1})
	}
	return hex.EncodeToString(h.Sum(nil)[:8])
}

// Diff returns a description of the first differences between two observations restricted to
// keys accepted by filter ("" if none).
func Diff(a, b *Obs, filter func(k string) bool) string {
	var out []string
	seen := map[string]bool{}
	for _, k := range a.Keys() {
		seen[k] = true
		if filter != nil && !filter(k) {
			continue
		}
		bv, ok := b.KV[k]
		if !ok {
			out = append(out, fmt.Sprintf("%s: %s vs <absent>", k, clip(a.KV[k])))
		} else if bv != a.KV[k] {
			x, y := clipPair(a.KV[k], bv)
			out = append(out, fmt.Sprintf("%s: %s vs %s", k, x, y))
		}
		if len(out) >= 4 {
			break
		}
	}
	if len(out) < 4 {
		for _, k := range b.Keys() {
			if seen[k] || (filter != nil && !filter(k)) {
				continue
			}
			out = append(out, fmt.Sprintf("%s: <absent> vs %s", k, clip(b.KV[k])))
			if len(out) >= 4 {
				break
			}
		}
	}
	return strings.Join(out, " | ")
}

// clipPair shortens two differing values around the first position where they differ.
func clipPair(a, b string) (string, string) {
	if len(a) <= 160 && len(b) <= 160 {
		return a, b
	}
	i := 0
	for i < len(a) && i < len(b) && a[i] == b[i] {
		i++
	}
	from := i - 70
	if from < 0 {
		from = 0
	}
	cut := func(s string) string {
		pre := ""
		if from > 0 {
			pre = s[:min(24, from)] + "..."
		}
		if from >= len(s) {
			return pre
		}
		s = s[from:]
		if len(s) > 170 {
			s = s[:170] + "..."
		}
		return pre + s
	}
	return cut(a), cut(b)
}

func clip(s string) string {
	if len(s) > 160 {
		return s[:160] + "..."
	}
	return s
}

func hx(b []byte) string {
	if len(b) > 6 {
		return hex.EncodeToString(b[:6])
	}
	return hex.EncodeToString(b)
}

// Universe is what the harness knows to ask about.
type Universe struct {
	Blocks  [][]byte
	Txs     [][]byte
	Addrs   []string
	Keys    [][2]string // bucket, key
	Buckets []string
	bset    map[string]bool
	tset    map[string]bool
}

func (u *Universe) AddBlock(id []byte) {
	if u.bset == nil {
		u.bset = map[string]bool{}
	}
	if !u.bset[string(id)] {
		u.bset[string(id)] = true
		u.Blocks = append(u.Blocks, append([]byte{}, id...))
	}
}
func (u *Universe) AddTx(id []byte) {
	if u.tset == nil {
		u.tset = map[string]bool{}
	}
	if !u.tset[string(id)] {
		u.tset[string(id)] = true
		u.Txs = append(u.Txs, append([]byte{}, id...))
	}
}

func blockLine(b *lpb.InternalBlock, body bool) string {
	if b == nil {
		return "nil"
	}
	s := fmt.Sprintf("id=%s h=%d trunk=%v pre=%s next=%s n=%d prop=%s ts=%d root=%s", hx(b.Blockid), b.Height, b.InTrunk, hx(b.PreHash), hx(b.NextHash), b.TxCount, b.Proposer, b.Timestamp, hx(b.MerkleRoot))
	if body {
		s += " txs="
		for _, t := range b.Transactions {
			s += hx(t.Txid) + "@" + hx(t.Blockid) + ","
		}
	}
	return s
}

func errc(err error) string {
	if err == nil {
		return "ok"
	}
	return "err"
}

// ObsLedger gathers every ledger query of property C04's battery.
func (n *Node) ObsLedger(u *Universe, o *Obs) {
	m := n.L.GetMeta()
	o.Put("L.meta", "root=%s tip=%s h=%d", hx(m.RootBlockid), hx(m.TipBlockid), m.TrunkHeight)
	ids := append([][]byte{}, u.Blocks...)
	ids = append(ids, []byte("no-such-block-id-0000000000000000"))
	maxH := m.TrunkHeight
	for _, id := range ids {
		k := "L.blk." + hx(id)
		b, err := n.L.QueryBlock(id)
		if err != nil {
			o.Put(k, "err")
		} else {
			o.Put(k, "%s", blockLine(b, true))
			if b.Height > maxH {
				maxH = b.Height
			}
		}
		h, err := n.L.QueryBlockHeader(id)
		if err != nil {
			o.Put(k+".hdr", "err")
		} else {
			o.Put(k+".hdr", "%s", blockLine(h, false))
		}
		o.Put(k+".exist", "%v", n.L.ExistBlock(id))
	}
	for h := int64(0); h <= maxH+2; h++ {
		b, err := n.L.QueryBlockByHeight(h)
		if err != nil {
			o.Put(fmt.Sprintf("L.height.%03d", h), "err")
		} else {
			o.Put(fmt.Sprintf("L.height.%03d", h), "%s", blockLine(b, true))
		}
	}
	for _, id := range u.Txs {
		k := "L.tx." + hx(id)
		t, err := n.L.QueryTransaction(id)
		if err != nil {
			o.Put(k, "err")
		} else {
			o.Put(k, "in=%s", hx(t.Blockid))
		}
		has, herr := n.L.HasTransaction(id)
		o.Put(k+".has", "%v %s", has, errc(herr))
		o.Put(k+".trunk", "%v", n.L.IsTxInTrunk(id))
		b, err := n.L.QueryBlockByTxid(id)
		if err != nil {
			o.Put(k+".blk", "err")
		} else {
			o.Put(k+".blk", "%s", blockLine(b, false))
		}
	}
	if tips, err := n.L.GetBranchInfo(m.RootBlockid, 0); err != nil {
		o.Put("L.branch", "err")
	} else {
		var ts []string
		for _, t := range tips {
			ts = append(ts, hx([]byte(t)))
		}
		sort.Strings(ts)
		o.Put("L.branch", "%v", ts)
	}
	if d, err := n.L.Dump(); err != nil {
		o.Put("L.dump", "err")
	} else {
		for i := range d {
			sort.Strings(d[i])
		}
		o.Put("L.dump", "%v", d)
	}
	// undo/todo paths between tip and every known block, and a few block pairs
	for i, id := range u.Blocks {
		undo, todo, err := n.L.FindUndoAndTodoBlocks(m.TipBlockid, id)
		o.Put("L.path.tip."+hx(id), "%s", pathLine(undo, todo, err))
		if i > 0 {
			undo, todo, err = n.L.FindUndoAndTodoBlocks(u.Blocks[i-1], id)
			o.Put("L.path."+hx(u.Blocks[i-1])+"."+hx(id), "%s", pathLine(undo, todo, err))
		}
	}
}

func pathLine(undo, todo []*lpb.InternalBlock, err error) string {
	if err != nil {
		return "err"
	}
	s := "undo="
	for _, b := range undo {
		s += hx(b.Blockid) + ","
	}
	s += " todo="
	for _, b := range todo {
		s += hx(b.Blockid) + ","
	}
	return s
}

// StateObsOpts selects the parts of the state battery.
type StateObsOpts struct {
	Pool      bool // include pool table N and GetUnconfirmedTx
	Snapshots bool
	RawN      bool // byte-exact N table (only live vs reopened)
}

// ObsState gathers every state query of property C01's battery.
func (n *Node) ObsState(u *Universe, o *Obs, opt StateObsOpts) {
	o.Put("S.tip", "%s", hx(n.S.GetLatestBlockid()))
	o.Put("S.total", "%s", n.S.GetTotal())
	m := n.S.GetMeta()
	o.Put("S.meta.irr", "%d", m.IrreversibleBlockHeight)
	o.Put("S.meta", "tip=%s total=%s maxblk=%d win=%d newacct=%d gas=%v reserved=%d forbidden=%v group=%v",
		hx(m.LatestBlockid), m.UtxoTotal, m.MaxBlockSize, m.IrreversibleSlideWindow, m.NewAccountResourceAmount,
		m.GasPrice, len(m.ReservedContracts), m.ForbiddenContract != nil, m.GroupChainContract != nil)
	for _, a := range u.Addrs {
		b1, e1 := n.S.GetBalance(a)
		b2, e2 := n.S.GetBalance(a) // second read is served by the balance cache
		o.Put("S.bal."+a, "%v %s", b1, errc(e1))
		o.Put("S.bal2."+a, "%v %s", b2, errc(e2))
		d, e3 := n.S.GetBalanceDetail(a)
		if e3 != nil {
			o.Put("S.baldet."+a, "err")
		} else {
			s := ""
			for _, x := range d {
				s += fmt.Sprintf("%s/%v,", x.Balance, x.IsFrozen)
			}
			o.Put("S.baldet."+a, "%s", s)
		}
		fz, e4 := n.S.GetFrozenBalance(a)
		o.Put("S.frozen."+a, "%v %s", fz, errc(e4))
	}
	db := n.S.GetLDB()
	for _, tbl := range []string{"U", "ZU", "M"} {
		it := db.NewIteratorWithPrefix([]byte(tbl))
		for it.Next() {
			k := string(it.Key())
			if tbl == "M" && len(it.Value()) == 0 {
				// an empty record is the zero value of the governed parameter: same meaning as an absent one
				continue
			}
			o.Put("S.raw."+tbl+"."+printable(k), "%x", it.Value())
		}
		if it.Error() != nil {
			o.Put("S.raw."+tbl+".ERR", "err")
		}
		it.Release()
	}
	rd := n.S.CreateXMReader()
	for _, bk := range u.Keys {
		v, err := rd.Get(bk[0], []byte(bk[1]))
		if err != nil {
			o.Put("S.get."+bk[0]+"/"+bk[1], "err")
		} else {
			o.Put("S.get."+bk[0]+"/"+bk[1], "v=%q ver=%s_%d", v.GetPureData().GetValue(), hx(v.RefTxid), v.RefOffset)
		}
	}
	for _, b := range u.Buckets {
		it, err := rd.Select(b, []byte(""), []byte("\xff"))
		if err != nil {
			o.Put("S.select."+b, "err")
			continue
		}
		s := ""
		for it.Next() {
			v := it.Value()
			s += fmt.Sprintf("%s=%q@%s_%d,", it.Key(), v.GetPureData().GetValue(), hx(v.RefTxid), v.RefOffset)
		}
		if it.Error() != nil {
			s += "ERR"
		}
		it.Close()
		o.Put("S.select."+b, "%s", s)
	}
	for _, id := range u.Txs {
		t, confirmed, err := n.S.QueryTx(id)
		if err != nil {
			o.Put("S.qtx."+hx(id), "err")
		} else {
			o.Put("S.qtx."+hx(id), "confirmed=%v blk=%s", confirmed, hx(t.Blockid))
		}
		has, _ := n.S.HasTx(id)
		o.Put("S.hastx."+hx(id), "%v", has)
	}
	if opt.Pool {
		txs, err := n.S.GetUnconfirmedTx(false)
		if err != nil {
			o.Put("S.pool", "err")
		} else {
			var ids []string
			for _, t := range txs {
				ids = append(ids, hx(t.Txid))
			}
			sort.Strings(ids)
			o.Put("S.pool", "%v", ids)
		}
		it := db.NewIteratorWithPrefix([]byte("N"))
		var ids []string
		for it.Next() {
			ids = append(ids, hx(it.Key()[1:]))
			if opt.RawN {
				o.Put("S.raw.N."+hx(it.Key()[1:]), "%x", sha256.Sum256(it.Value()))
			}
		}
		it.Release()
		o.Put("S.raw.N", "%v", ids)
	}
	if opt.Snapshots {
		n.ObsSnapshots(u, o)
	}
}

// ObsSnapshots reads every key of the universe through snapshots at every main-chain block.
func (n *Node) ObsSnapshots(u *Universe, o *Obs) {
	m := n.L.GetMeta()
	for h := int64(0); h <= m.TrunkHeight; h++ {
		b, err := n.L.QueryBlockByHeight(h)
		if err != nil {
			o.Put(fmt.Sprintf("S.snap.%03d", h), "noblock")
			continue
		}
		snap, err := n.S.CreateSnapshot(b.Blockid)
		if err != nil {
			o.Put(fmt.Sprintf("S.snap.%03d", h), "err")
			continue
		}
		sr, err2 := n.S.CreateXMSnapshotReader(b.Blockid)
		for _, bk := range u.Keys {
			k := fmt.Sprintf("S.snap.%03d.%s/%s", h, bk[0], bk[1])
			v, err := snap.Get(bk[0], []byte(bk[1]))
			if err != nil {
				o.Put(k, "err")
			} else {
				o.Put(k, "v=%q ver=%s_%d", v.GetPureData().GetValue(), hx(v.RefTxid), v.RefOffset)
			}
			if err2 == nil {
				rv, err := sr.Get(bk[0], []byte(bk[1]))
				if err != nil {
					o.Put(k+".r", "err")
				} else {
					o.Put(k+".r", "%q", rv)
				}
			}
		}
	}
}

func printable(s string) string {
	var b bytes.Buffer
	for i := 0; i < len(s); i++ {
		c := s[i]
		if c >= 32 && c < 127 {
			b.WriteByte(c)
		} else {
			fmt.Fprintf(&b, "\\x%02x", c)
		}
	}
	return b.String()
}

// ObsAll gathers the whole battery.
func (n *Node) ObsAll(u *Universe, opt StateObsOpts) *Obs {
	o := NewObs()
	n.ObsLedger(u, o)
	n.ObsState(u, o, opt)
	return o
}
