package sim

import (
	"bytes"
	"encoding/hex"
	"encoding/json"
	"fmt"
	"math/big"
	"strconv"
	"strings"
	"time"

	"github.com/xuperchain/xupercore/bcs/ledger/xledger/state/utxo/txhash"
	lpb "github.com/xuperchain/xupercore/bcs/ledger/xledger/xldgpb"
	"github.com/xuperchain/xupercore/kernel/contract"
	pb "github.com/xuperchain/xupercore/protos"
)

// UtxoRef names one unspent output as the node's U table shows it.
type UtxoRef struct {
	Addr   string
	Txid   []byte
	Offset int32
	Amount *big.Int
	Frozen int64
}

func (u UtxoRef) String() string {
	return fmt.Sprintf("%s_%x_%d=%s/f%d", u.Addr, u.Txid[:min(4, len(u.Txid))], u.Offset, u.Amount, u.Frozen)
}

// parseUtxoItem decodes the stored representation (json {"amount":..., "frozenHeight":...}).
func parseUtxoItem(v []byte) (*big.Int, int64, error) {
	var it struct {
		Amount       *big.Int `json:"amount"`
		FrozenHeight int64    `json:"frozenHeight"`
	}
	if err := json.Unmarshal(v, &it); err != nil {
		return nil, 0, err
	}
	if it.Amount == nil {
		it.Amount = new(big.Int)
	}
	return it.Amount, it.FrozenHeight, nil
}

// ListUtxos scans table U of the node's state database (public GetLDB seam) for addr ("" = all).
func (n *Node) ListUtxos(addr string) ([]UtxoRef, error) {
	prefix := "U"
	if addr != "" {
		prefix = "U" + addr + "_"
	}
	it := n.S.GetLDB().NewIteratorWithPrefix([]byte(prefix))
	defer it.Release()
	var out []UtxoRef
	for it.Next() {
		key := string(it.Key())
		parts := strings.Split(key[1:], "_")
		if len(parts) < 3 {
			return nil, fmt.Errorf("bad utxo key %q", key)
		}
		a := strings.Join(parts[:len(parts)-2], "_")
		txid, err := hex.DecodeString(parts[len(parts)-2])
		if err != nil {
			return nil, fmt.Errorf("bad utxo key %q", key)
		}
		off, err := strconv.Atoi(parts[len(parts)-1])
		if err != nil {
			return nil, fmt.Errorf("bad utxo key %q", key)
		}
		amt, fr, err := parseUtxoItem(it.Value())
		if err != nil {
			return nil, fmt.Errorf("bad utxo value at %q: %v", key, err)
		}
		out = append(out, UtxoRef{Addr: a, Txid: txid, Offset: int32(off), Amount: amt, Frozen: fr})
	}
	if err := it.Error(); err != nil {
		return nil, err
	}
	return out, nil
}

// OutSpec is one output of a transaction under construction.
type OutSpec struct {
	To     string
	Amount *big.Int
	Frozen int64
	Raw    []byte // when non-nil used verbatim as the amount encoding
}

// TxSpec describes a transaction to build.
type TxSpec struct {
	Version     int32
	From        *Acct
	Initiator   string // default From.Addr
	AuthRequire []string
	Signers     []*Acct // signers of AuthRequire (default: From)
	Inputs      []UtxoRef
	Outs        []OutSpec
	Desc        []byte
	Nonce       string
	Invoke      *pb.InvokeResponse // result of PreExec, if a contract call
	NoChange    bool
	Timestamp   int64
}

// txCounter makes nonces unique inside a run (reset per world by the runner).
var txCounter int

// ResetTxCounter resets the nonce counter (called at the start of every run).
func ResetTxCounter() { txCounter = 0 }

// BuildTx assembles and signs a transaction. Inputs must cover outputs; change goes back to From.
func BuildTx(sp *TxSpec) (*lpb.Transaction, error) {
	txCounter++
	tx := &lpb.Transaction{Version: sp.Version, Desc: sp.Desc}
	if tx.Version == 0 {
		tx.Version = 3
	}
	tx.Nonce = sp.Nonce
	if tx.Nonce == "" {
		tx.Nonce = fmt.Sprintf("n%d", txCounter)
	}
	tx.Timestamp = sp.Timestamp
	if tx.Timestamp == 0 {
		tx.Timestamp = time.Now().UnixNano()
	}
	tx.Initiator = sp.Initiator
	if tx.Initiator == "" {
		tx.Initiator = sp.From.Addr
	}
	tx.AuthRequire = sp.AuthRequire
	if tx.AuthRequire == nil {
		tx.AuthRequire = []string{sp.From.Addr}
	}
	in := new(big.Int)
	for _, u := range sp.Inputs {
		tx.TxInputs = append(tx.TxInputs, &pb.TxInput{RefTxid: u.Txid, RefOffset: u.Offset, FromAddr: []byte(u.Addr), Amount: u.Amount.Bytes(), FrozenHeight: u.Frozen})
		in.Add(in, u.Amount)
	}
	out := new(big.Int)
	for _, o := range sp.Outs {
		amt := o.Amount.Bytes()
		if o.Raw != nil {
			amt = o.Raw
		}
		tx.TxOutputs = append(tx.TxOutputs, &pb.TxOutput{ToAddr: []byte(o.To), Amount: amt, FrozenHeight: o.Frozen})
		out.Add(out, new(big.Int).SetBytes(amt))
	}
	if sp.Invoke != nil {
		tx.TxInputs = append(tx.TxInputs, sp.Invoke.UtxoInputs...)
		if sp.Invoke.GasUsed > 0 {
			g := big.NewInt(sp.Invoke.GasUsed)
			tx.TxOutputs = append(tx.TxOutputs, &pb.TxOutput{ToAddr: []byte("$"), Amount: g.Bytes()})
			out.Add(out, g)
		}
	}
	if !sp.NoChange && in.Cmp(out) > 0 {
		tx.TxOutputs = append(tx.TxOutputs, &pb.TxOutput{ToAddr: []byte(sp.From.Addr), Amount: new(big.Int).Sub(in, out).Bytes()})
	}
	if sp.Invoke != nil {
		tx.TxOutputs = append(tx.TxOutputs, sp.Invoke.UtxoOutputs...)
		tx.TxInputsExt = sp.Invoke.Inputs
		tx.TxOutputsExt = sp.Invoke.Outputs
		tx.ContractRequests = sp.Invoke.Requests
	}
	if err := SignTx(tx, sp.From, sp.Signers); err != nil {
		return nil, err
	}
	return tx, nil
}

// SignTx (re)signs tx with the initiator key and the listed AuthRequire signers and sets the txid.
func SignTx(tx *lpb.Transaction, initiator *Acct, signers []*Acct) error {
	tx.InitiatorSigns, tx.AuthRequireSigns = nil, nil
	sig, err := txhash.ProcessSignTx(Crypto, tx, []byte(initiator.Priv))
	if err != nil {
		return err
	}
	tx.InitiatorSigns = []*pb.SignatureInfo{{PublicKey: initiator.Pub, Sign: sig}}
	if signers == nil {
		signers = []*Acct{initiator}
	}
	for _, s := range signers {
		sg, err := txhash.ProcessSignTx(Crypto, tx, []byte(s.Priv))
		if err != nil {
			return err
		}
		tx.AuthRequireSigns = append(tx.AuthRequireSigns, &pb.SignatureInfo{PublicKey: s.Pub, Sign: sg})
	}
	tx.Txid, err = txhash.MakeTransactionID(tx)
	return err
}

// ---- $xsim workload kernel contract -----------------------------------------------------------

// KOp is one operation of an $xsim program.
type KOp struct {
	Op     string `json:"op"` // get put del sel fail err call xfer
	B      string `json:"b,omitempty"`
	K      string `json:"k,omitempty"`
	V      string `json:"v,omitempty"`
	End    string `json:"end,omitempty"`
	Limit  int    `json:"limit,omitempty"`
	Status int    `json:"status,omitempty"`
	Prog   []KOp  `json:"prog,omitempty"`
	To     string `json:"to,omitempty"`
	Amount string `json:"amount,omitempty"`
}

// XsimContract / XsimContract2 are the names of the workload kernel contracts.
const (
	XsimContract  = "$xsim"
	XsimContract2 = "$xsim2"
	XsimBucket    = "xsim"
)

// RunKProg interprets a program against a contract state; it returns a transcript of results.
func RunKProg(k contract.KContext, self string, prog []KOp) (string, int, error) {
	var tr bytes.Buffer
	for _, op := range prog {
		b := op.B
		if b == "" {
			b = XsimBucket
		}
		switch op.Op {
		case "get":
			v, err := k.Get(b, []byte(op.K))
			fmt.Fprintf(&tr, "get %s/%s=%q,%v;", b, op.K, v, err != nil)
		case "put":
			if err := k.Put(b, []byte(op.K), []byte(op.V)); err != nil {
				return tr.String(), 0, err
			}
			fmt.Fprintf(&tr, "put %s/%s;", b, op.K)
		case "cp":
			// data dependency: the value written depends on the value read
			v, _ := k.Get(b, []byte(op.K))
			if err := k.Put(b, []byte(op.V), append([]byte("cp:"), v...)); err != nil {
				return tr.String(), 0, err
			}
			fmt.Fprintf(&tr, "cp %s/%s->%s;", b, op.K, op.V)
		case "del":
			if err := k.Del(b, []byte(op.K)); err != nil {
				return tr.String(), 0, err
			}
			fmt.Fprintf(&tr, "del %s/%s;", b, op.K)
		case "sel":
			it, err := k.Select(b, []byte(op.K), []byte(op.End))
			if err != nil {
				return tr.String(), 0, err
			}
			n := 0
			var listing []string
			fmt.Fprintf(&tr, "sel %s[%s,%s):", b, op.K, op.End)
			for (op.Limit == 0 || n < op.Limit) && it.Next() {
				fmt.Fprintf(&tr, "%s=%q,", it.Key(), it.Value())
				listing = append(listing, string(it.Key()))
				n++
			}
			err = it.Error()
			it.Close()
			if err != nil {
				return tr.String(), 0, err
			}
			tr.WriteString(";")
			if op.V != "" {
				// list-then-insert: what the scan yielded decides a write
				if err := k.Put(b, []byte(op.V), []byte("keys:"+strings.Join(listing, ","))); err != nil {
					return tr.String(), 0, err
				}
				fmt.Fprintf(&tr, "idx %s;", op.V)
			}
		case "fail":
			return tr.String(), op.Status, nil
		case "err":
			return tr.String(), 0, fmt.Errorf("xsim: program error")
		case "call":
			pj, _ := json.Marshal(op.Prog)
			r, err := k.Call("xkernel", XsimContract2, "run", map[string][]byte{"prog": pj})
			if err != nil {
				return tr.String(), 0, err
			}
			fmt.Fprintf(&tr, "call=%d:%s;", r.Status, r.Body)
			if r.Status >= 400 {
				return tr.String(), r.Status, nil
			}
		case "xfer":
			amt, _ := new(big.Int).SetString(op.Amount, 10)
			if amt == nil {
				amt = new(big.Int)
			}
			if err := k.Transfer(self, op.To, amt); err != nil {
				return tr.String(), 0, err
			}
			fmt.Fprintf(&tr, "xfer %s %s;", op.To, amt)
		}
	}
	return tr.String(), 200, nil
}

func xsimMethod(self string) contract.KernMethod {
	return func(k contract.KContext) (*contract.Response, error) {
		var prog []KOp
		if err := json.Unmarshal(k.Args()["prog"], &prog); err != nil {
			return nil, err
		}
		tr, st, err := RunKProg(k, self, prog)
		if err != nil {
			return nil, err
		}
		// like the real kernel contracts, charge at the end and only in the outer contract: the
		// kernel VM does not account sub-call usage to the caller's reported limits
		if self == XsimContract {
			k.AddResourceUsed(contract.Limits{Cpu: int64(len(prog))})
		}
		return &contract.Response{Status: st, Body: []byte(tr)}, nil
	}
}

// RegisterXsim registers the workload kernel contracts on a node (used as a World.OnBoot hook).
func RegisterXsim(n *Node) {
	reg := n.Ctx.Contract.GetKernRegistry()
	reg.RegisterKernMethod(XsimContract, "run", xsimMethod(XsimContract))
	reg.RegisterKernMethod(XsimContract2, "run", xsimMethod(XsimContract2))
}

// PreExecProg pre-executes a program through the node's real Chain.PreExec.
func (n *Node) PreExecProg(from *Acct, prog []KOp, authRequire []string) (*pb.InvokeResponse, error) {
	pj, _ := json.Marshal(prog)
	req := &pb.InvokeRequest{ModuleName: "xkernel", ContractName: XsimContract, MethodName: "run", Args: map[string][]byte{"prog": pj}}
	if authRequire == nil {
		authRequire = []string{from.Addr}
	}
	return n.Chain.PreExec(n.BaseCtx(), []*pb.InvokeRequest{req}, from.Addr, authRequire)
}

// PreExecProgSplit pre-executes a program as two contract requests of one transaction: the first cut
// operations and the rest.
func (n *Node) PreExecProgSplit(from *Acct, prog []KOp, cut int) (*pb.InvokeResponse, error) {
	var reqs []*pb.InvokeRequest
	for _, part := range [][]KOp{prog[:cut], prog[cut:]} {
		pj, _ := json.Marshal(part)
		reqs = append(reqs, &pb.InvokeRequest{ModuleName: "xkernel", ContractName: XsimContract, MethodName: "run", Args: map[string][]byte{"prog": pj}})
	}
	return n.Chain.PreExec(n.BaseCtx(), reqs, from.Addr, []string{from.Addr})
}

func min(a, b int) int {
	if a < b {
		return a
	}
	return b
}
