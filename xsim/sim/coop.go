package sim

import (
	"bytes"
	"crypto/sha256"
	"encoding/hex"
	"fmt"
	"reflect"
	"runtime"
	"strconv"
	"sync"

	"github.com/xuperchain/xupercore/lib/xsimrt"
)

// Coop is the cooperative scheduler of Engine B: tasks are real goroutines, but exactly one holds
// the run token; a task runs until it reaches an instrumented yield point (lock operation, focus
// statement), reports to the scheduler and parks. The interleaving is exactly the sequence of
// resume decisions, which comes from the plan.

// Preempt is one planned preemption: at the At-th scheduling point switch to runnable task #To.
type Preempt struct {
	At int `json:"at"`
	To int `json:"to"`
}

type ctask struct {
	id     int
	name   string
	resume chan struct{}
	state  int // 0 runnable, 1 blocked, 2 done
	waitOn interface{}
	gid    int64
	f      func()
	pan    interface{}
	vc     vclock
	site   string // last yield site
}

// vclock is a vector clock over task ids.
type vclock map[int]int

func (v vclock) copy() vclock {
	o := make(vclock, len(v))
	for k, x := range v {
		o[k] = x
	}
	return o
}
func (v vclock) join(o vclock) {
	for k, x := range o {
		if x > v[k] {
			v[k] = x
		}
	}
}

type mapAccess struct {
	task  int
	clock int
	site  string
}

// mapRec is the access history of one built-in map (kept alive by ref so its address is not reused).
type mapRec struct {
	ref   interface{}
	write *mapAccess
	reads map[int]mapAccess
}

type cevent struct {
	t    *ctask
	kind int // 0 yield, 1 block, 2 done
	mu   interface{}
	site string
}

type lockOwners struct {
	writer  int // task id+1, 0 = none
	readers map[int]int
	wvc     vclock // clock of the last write-unlock
	rvc     vclock // join of the clocks of the read-unlocks since
}

// Coop schedules tasks cooperatively.
type Coop struct {
	rc       *RunCtx
	tasks    []*ctask
	cur      *ctask
	ev       chan cevent
	preempt  map[int]int
	onBlock  []int
	blockPos int
	point    int
	trace    bytes.Buffer
	abort    bool
	MaxPts   int
	held     map[interface{}]*lockOwners
	mu       sync.Mutex
	Deadlock string
	Switches int
	// BeforeResume, when set, is called by the scheduler before every resume decision
	OnPoint func(point int)
	// happens-before checker over the announced map accesses of the tasks (T10, range steps): Races
	// lists pairs of accesses to the same map, at least one a write, by two tasks with no lock
	// hand-over ordering them -- in a real execution the Go runtime aborts the process on such a
	// pair ("concurrent map read and map write" / "concurrent map iteration and map write").
	maps  map[uintptr]*mapRec
	Races []string
	raced map[string]bool
}

// NewCoop creates a scheduler and installs the xsimrt hooks.
func NewCoop(rc *RunCtx, preempts []Preempt, onBlock []int, extra *xsimrt.H) *Coop {
	c := &Coop{rc: rc, ev: make(chan cevent), preempt: map[int]int{}, onBlock: onBlock, MaxPts: 4000, held: map[interface{}]*lockOwners{}}
	for _, p := range preempts {
		c.preempt[p.At] = p.To
	}
	h := &xsimrt.H{}
	if extra != nil {
		*h = *extra
	}
	h.Yield = c.hookYield
	h.Lock = c.hookLock
	h.Unlock = c.hookUnlock
	h.MapAccess = c.hookMapAccess
	h.Go = func(site string, f func()) bool {
		if c.abort {
			return false
		}
		c.Spawn("bg:"+site, f)
		return true
	}
	rc.AttachHooks(h)
	return c
}

func curGID() int64 {
	var buf [64]byte
	n := runtime.Stack(buf[:], false)
	// "goroutine 123 ["
	b := buf[10:n]
	i := bytes.IndexByte(b, ' ')
	if i < 0 {
		return -1
	}
	id, _ := strconv.ParseInt(string(b[:i]), 10, 64)
	return id
}

func (c *Coop) isCur() bool {
	t := c.cur
	return t != nil && !c.abort && t.gid == curGID()
}

// Spawn adds a task (may be called before Run or by a running task).
func (c *Coop) Spawn(name string, f func()) int {
	c.mu.Lock()
	t := &ctask{id: len(c.tasks), name: name, resume: make(chan struct{}), f: f, vc: vclock{}}
	if p := c.cur; p != nil && p.gid == curGID() {
		// spawned by the running task: everything the parent did so far happens before the child
		t.vc = p.vc.copy()
		p.vc[p.id]++
	}
	t.vc[t.id] = 1
	c.tasks = append(c.tasks, t)
	c.mu.Unlock()
	go func() {
		<-t.resume
		t.gid = curGID()
		defer func() {
			if r := recover(); r != nil {
				t.pan = fmt.Sprintf("%v", r)
				buf := make([]byte, 4096)
				buf = buf[:runtime.Stack(buf, false)]
				t.pan = fmt.Sprintf("%v\n%s", r, buf)
			}
			if c.abort {
				c.ev <- cevent{t: t, kind: 2}
				return
			}
			c.ev <- cevent{t: t, kind: 2}
		}()
		if c.abort {
			return
		}
		t.f()
	}()
	return t.id
}

func (c *Coop) park(kind int, mu interface{}, site string) {
	t := c.cur
	c.ev <- cevent{t: t, kind: kind, mu: mu, site: site}
	<-t.resume
	if c.abort {
		runtime.Goexit()
	}
}

func (c *Coop) hookYield(site string) {
	if !c.isCur() {
		return
	}
	c.cur.site = site
	c.park(0, nil, site)
}

// hookMapAccess checks an announced map access of the running task against the earlier accesses of
// the other tasks: an earlier access a by task u is ordered before the current one iff the current
// task's clock has caught up with u's clock at a (through a chain of lock hand-overs or spawns).
func (c *Coop) hookMapAccess(m interface{}, write bool, site string) {
	if !c.isCur() {
		return
	}
	rv := reflect.ValueOf(m)
	if rv.Kind() != reflect.Map || rv.IsNil() {
		return
	}
	t := c.cur
	if site == "range-step" || site == "range-start" {
		site = site + " after " + t.site
	}
	c.mu.Lock()
	defer c.mu.Unlock()
	if c.maps == nil {
		c.maps = map[uintptr]*mapRec{}
		c.raced = map[string]bool{}
	}
	rec := c.maps[rv.Pointer()]
	if rec == nil {
		rec = &mapRec{ref: m, reads: map[int]mapAccess{}}
		c.maps[rv.Pointer()] = rec
	}
	report := func(prev mapAccess, prevKind string) {
		kind := "read"
		if write {
			kind = "write"
		}
		msg := fmt.Sprintf("%s of a %s by task %s at %s is not ordered after the %s by task %s at %s", kind, rv.Type(), t.name, site, prevKind, c.tasks[prev.task].name, prev.site)
		key := fmt.Sprint(kind, site, prevKind, prev.site)
		if !c.raced[key] {
			c.raced[key] = true
			c.Races = append(c.Races, msg)
		}
	}
	if w := rec.write; w != nil && w.task != t.id && w.clock > t.vc[w.task] {
		report(*w, "write")
	}
	me := mapAccess{task: t.id, clock: t.vc[t.id], site: site}
	if write {
		for u, a := range rec.reads {
			if u != t.id && a.clock > t.vc[u] {
				report(a, "read")
			}
		}
		rec.write = &me
		rec.reads = map[int]mapAccess{}
	} else {
		rec.reads[t.id] = me
	}
}

func tryLock(mu interface{}, kind int) bool {
	switch m := mu.(type) {
	case *sync.Mutex:
		return m.TryLock()
	case *sync.RWMutex:
		if kind == xsimrt.KRLock {
			return m.TryRLock()
		}
		return m.TryLock()
	}
	panic("coop: unknown lock type")
}

func realLock(mu interface{}, kind int) {
	switch m := mu.(type) {
	case *sync.Mutex:
		m.Lock()
	case *sync.RWMutex:
		if kind == xsimrt.KRLock {
			m.RLock()
		} else {
			m.Lock()
		}
	}
}

func realUnlock(mu interface{}, kind int) {
	switch m := mu.(type) {
	case *sync.Mutex:
		m.Unlock()
	case *sync.RWMutex:
		if kind == xsimrt.KRLock {
			m.RUnlock()
		} else {
			m.Unlock()
		}
	}
}

func (c *Coop) owners(mu interface{}) *lockOwners {
	o := c.held[mu]
	if o == nil {
		o = &lockOwners{readers: map[int]int{}}
		c.held[mu] = o
	}
	return o
}

func (c *Coop) hookLock(mu interface{}, kind int, site string) {
	if !c.isCur() {
		realLock(mu, kind)
		return
	}
	c.park(0, nil, "lock@"+site)
	for !tryLock(mu, kind) {
		c.mu.Lock()
		o := c.owners(mu)
		byTask := o.writer != 0 || len(o.readers) > 0
		c.mu.Unlock()
		if !byTask {
			// held by a free (fork-join) goroutine of the running step: it will be released
			realLock(mu, kind)
			break
		}
		c.rc.St.Probes["coop-lock-contended"]++
		c.park(1, mu, "blocked@"+site)
	}
	c.mu.Lock()
	o := c.owners(mu)
	c.cur.vc.join(o.wvc)
	if kind == xsimrt.KRLock {
		o.readers[c.cur.id]++
	} else {
		c.cur.vc.join(o.rvc)
		o.writer = c.cur.id + 1
	}
	c.mu.Unlock()
}

func (c *Coop) hookUnlock(mu interface{}, kind int, site string) {
	if c.cur != nil && c.cur.gid == curGID() && kind == xsimrt.KLock && !c.abort {
		c.mu.Lock()
		o := c.owners(mu)
		w := o.writer
		c.mu.Unlock()
		if w != 0 && w != c.cur.id+1 {
			panic(fmt.Sprintf("coop: task %s unlocks %s which the scheduler believes is held by task %s (trace %s)", c.cur.name, site, c.tasks[w-1].name, c.trace.String()))
		}
	}
	realUnlock(mu, kind)
	if c.cur == nil || c.cur.gid != curGID() {
		return
	}
	c.mu.Lock()
	o := c.owners(mu)
	if kind == xsimrt.KRLock {
		if o.rvc == nil {
			o.rvc = vclock{}
		}
		o.rvc.join(c.cur.vc)
	} else {
		o.wvc = c.cur.vc.copy()
		o.rvc = nil
	}
	c.cur.vc[c.cur.id]++
	if kind == xsimrt.KRLock {
		o.readers[c.cur.id]--
		if o.readers[c.cur.id] <= 0 {
			delete(o.readers, c.cur.id)
		}
	} else {
		o.writer = 0
	}
	for _, t := range c.tasks {
		if t.state == 1 && t.waitOn == mu {
			t.state = 0
		}
	}
	c.mu.Unlock()
}

// Run schedules until every task is done. It returns a description of a deadlock ("" if none) and
// the panic of a task, if any.
func (c *Coop) Run() (deadlock string, taskPanic string) {
	for {
		c.mu.Lock()
		var runnable []*ctask
		live := 0
		for _, t := range c.tasks {
			if t.state == 0 {
				runnable = append(runnable, t)
			}
			if t.state != 2 {
				live++
			}
		}
		c.mu.Unlock()
		if live == 0 {
			break
		}
		if len(runnable) == 0 {
			deadlock = c.describeDeadlock()
			c.abortAll()
			break
		}
		next := c.pick(runnable)
		if c.cur != next {
			c.Switches++
			fmt.Fprintf(&c.trace, "%d>%d;", c.point, next.id)
		}
		c.cur = next
		if c.OnPoint != nil {
			c.OnPoint(c.point)
		}
		c.point++
		next.resume <- struct{}{}
		e := <-c.ev
		c.mu.Lock()
		switch e.kind {
		case 1:
			e.t.state = 1
			e.t.waitOn = e.mu
			// the lock may have been released between the failed TryLock and now: re-check ownership
			o := c.owners(e.mu)
			if o.writer == 0 && len(o.readers) == 0 {
				e.t.state = 0
			}
		case 2:
			e.t.state = 2
			if e.t.pan != nil && taskPanic == "" {
				taskPanic = fmt.Sprintf("task %s: %v", e.t.name, e.t.pan)
			}
		}
		c.mu.Unlock()
		if taskPanic != "" {
			c.abortAll()
			break
		}
	}
	c.cur = nil
	h := sha256.Sum256(c.trace.Bytes())
	c.rc.St.Traces[hex.EncodeToString(h[:8])] = true
	c.rc.St.Probes["coop-switches"] += c.Switches
	c.Deadlock = deadlock
	return
}

func (c *Coop) pick(runnable []*ctask) *ctask {
	curRunnable := false
	for _, t := range runnable {
		if t == c.cur {
			curRunnable = true
		}
	}
	if to, ok := c.preempt[c.point]; ok && c.point < c.MaxPts {
		c.rc.St.Probes["coop-preemptions"]++
		return runnable[abs(to)%len(runnable)]
	}
	if curRunnable {
		return c.cur
	}
	// current task blocked or done: consult the on-block choices, default lowest id
	if c.blockPos < len(c.onBlock) {
		ch := c.onBlock[c.blockPos]
		c.blockPos++
		return runnable[abs(ch)%len(runnable)]
	}
	return runnable[0]
}

func (c *Coop) describeDeadlock() string {
	s := "no runnable task:"
	for _, t := range c.tasks {
		if t.state == 1 {
			o := c.held[t.waitOn]
			s += fmt.Sprintf(" [%s waits for a lock held by", t.name)
			if o != nil {
				if o.writer != 0 {
					s += " " + c.tasks[o.writer-1].name
				}
				for r := range o.readers {
					s += " reader:" + c.tasks[r].name
				}
			}
			s += "]"
		}
	}
	return s
}

func (c *Coop) abortAll() {
	c.abort = true
	for _, t := range c.tasks {
		if t.state != 2 {
			t.state = 2
			t.resume <- struct{}{}
			<-c.ev
		}
	}
}

// Trace returns the task-switch trace of the run.
func (c *Coop) Trace() string { return c.trace.String() }
