package sim

import (
	"bytes"
	"crypto/sha256"
	"fmt"
	"github.com/xuperchain/xupercore/bcs/ledger/xledger/tx"
	"github.com/xuperchain/xupercore/lib/xsimrt"
	"math/big"
	"strings"
	"time"

	"github.com/golang/protobuf/proto"
	"github.com/xuperchain/xupercore/bcs/ledger/xledger/ledger"
	lpb "github.com/xuperchain/xupercore/bcs/ledger/xledger/xldgpb"
	"pgregory.net/rapid"
)

// C08 — block integrity. Honest blocks of 1..9 transactions are produced by the real miner path of
// node 0. Between producer and replica (in flight) EVERY single mutation reachable by walking the
// InternalBlock schema is applied - add / drop / duplicate / reorder / alter a transaction, alter
// every header field, re-sign with another key - each raw, with the merkle root recomputed, with
// root and block id recomputed, and re-signed by the adversary's key. The replica's VerifyBlock must
// refuse every mutant of a hashed field, of the body or of the signature; whatever passes is
// delivered through the real ProcBlock to a copy of the replica, whose ledger must never hold a
// block that differs from the honest one in hashed header fields or ordered transaction list.

// BlockStep describes one honest block.
type BlockStep struct {
	NTx  int   `json:"ntx"`
	Sel  []int `json:"sel"`
	KV   bool  `json:"kv"`
	Full bool  `json:"full"` // enumerate all mutations (else a seeded sample)
	Pick []int `json:"pick"`
	// NFail > 0: the producer also formats a block that carries a failed-transaction map of NFail entries
	// (distinct messages); MapSeed permutes map iteration orders, differently in every epoch
	NFail   int    `json:"nfail,omitempty"`
	MapSeed uint64 `json:"map_seed,omitempty"`
}

// BlockPlan is the plan of one C08 run.
type BlockPlan struct {
	Seed   uint64      `json:"seed"`
	Blocks []BlockStep `json:"blocks"`
}

func GenBlockPlan(rt *rapid.T, tier string) *BlockPlan {
	pl := &BlockPlan{Seed: rapid.Uint64Range(1, 1<<40).Draw(rt, "seed")}
	nb := rapid.IntRange(1, 2).Draw(rt, "nblocks")
	for i := 0; i < nb; i++ {
		b := BlockStep{NTx: rapid.IntRange(0, 8).Draw(rt, "ntx"), KV: rapid.Bool().Draw(rt, "kv")}
		for j := 0; j < 8; j++ {
			b.Sel = append(b.Sel, rapid.IntRange(0, 20).Draw(rt, "sel"))
		}
		b.Full = tier == "thorough" || rapid.IntRange(0, 3).Draw(rt, "full") == 0
		for j := 0; j < 60; j++ {
			b.Pick = append(b.Pick, rapid.IntRange(0, 100000).Draw(rt, "pick"))
		}
		pl.Blocks = append(pl.Blocks, b)
	}
	// drawn last (earlier draws unchanged): failed-transaction maps and map-order permutation
	for i := range pl.Blocks {
		if rapid.IntRange(0, 2).Draw(rt, "failmap") == 2 {
			pl.Blocks[i].NFail = rapid.IntRange(1, 5).Draw(rt, "nfail")
			pl.Blocks[i].MapSeed = rapid.Uint64Range(1, 1<<30).Draw(rt, "failmapseed")
		}
	}
	return pl
}

type blockRun struct {
	rc      *RunCtx
	w       *World
	p, rep  *Node
	step    int
	pending *Violation
}

func (r *blockRun) viol(clause, format string, a ...interface{}) *Violation {
	return &Violation{Prop: "C08", Clause: clause, Step: r.step, Op: "block", Msg: fmt.Sprintf(format, a...)}
}

// hashedHeader renders the header fields the property calls hashed plus the ordered tx list.
func hashedHeader(b *lpb.InternalBlock) string {
	var s strings.Builder
	// The property is about the header fields the id covers. Target bits are only part of a PoW block's id
	// (a non-positive value means "no target" and is not covered); of the failed-transaction map the
	// messages are covered, the keys are not.
	bits := b.TargetBits
	if bits < 0 {
		bits = 0
	}
	fmt.Fprintf(&s, "ver=%d nonce=%d txcount=%d proposer=%s ts=%d pubkey=%s pre=%x root=%x term=%d num=%d bits=%d", b.Version, b.Nonce, b.TxCount, b.Proposer, b.Timestamp, b.Pubkey, b.PreHash, b.MerkleRoot, b.CurTerm, b.CurBlockNum, bits)
	var fv []string
	for _, v := range b.FailedTxs {
		fv = append(fv, v)
	}
	sortStrings(fv)
	fmt.Fprintf(&s, " failed=%q", fv)
	if b.Justify != nil {
		fmt.Fprintf(&s, " justify=%x", detMarshal(b.Justify))
	}
	// the signature bytes themselves are not compared: the statement asks that the signature verifies under
	// the proposer's key, not for one particular encoding of it
	fmt.Fprintf(&s, " txs=")
	for _, t := range b.Transactions {
		fmt.Fprintf(&s, "%x:%x,", t.Txid, sha(semanticBytes(t)))
	}
	return s.String()
}

func sha(b []byte) []byte {
	h := ledgerHash(b)
	return h[:6]
}

// ExecBlock executes a C08 plan.
func ExecBlock(plan *BlockPlan, rc *RunCtx) *Violation {
	g := &Genesis{Predist: map[int]string{0: "1000000000", 1: "500000000", 2: "300000000"}, Award: "1000000"}
	w := NewWorld(g, &Knobs{})
	rc.OnCleanup(w.Close)
	w.OnBoot = append(w.OnBoot, RegisterXsim)
	p, err := w.AddNode("producer", 0)
	if err != nil {
		panic(err)
	}
	rep, err := w.AddNode("replica", 0)
	if err != nil {
		panic(err)
	}
	r := &blockRun{rc: rc, w: w, p: p, rep: rep}
	for i := range plan.Blocks {
		r.step = i
		rc.St.Steps++
		time.Sleep(time.Second)
		if v := r.doBlock(&plan.Blocks[i]); v != nil {
			return v
		}
	}
	return r.pending
}

func (r *blockRun) doBlock(bs *BlockStep) *Violation {
	p := r.p
	// fill the producer's pool
	for j := 0; j < bs.NTx; j++ {
		from := Accts[bs.Sel[j%len(bs.Sel)]%3]
		us, _ := p.ListUtxos(from.Addr)
		var sp []UtxoRef
		for _, u := range us {
			if u.Frozen == 0 {
				sp = append(sp, u)
			}
		}
		if len(sp) == 0 {
			continue
		}
		u := sp[(bs.Sel[(j+1)%len(bs.Sel)])%len(sp)]
		var spec *TxSpec
		if bs.KV && j%2 == 1 {
			resp, err := p.PreExecProg(from, []KOp{{Op: "put", K: kvKeys[j%len(kvKeys)], V: fmt.Sprintf("v%d", j)}}, nil)
			if err != nil {
				continue
			}
			spec = &TxSpec{From: from, Version: 3, Invoke: resp, Inputs: []UtxoRef{u}}
		} else {
			amt := new(big.Int).Div(u.Amount, big.NewInt(3))
			spec = &TxSpec{From: from, Version: 3, Inputs: []UtxoRef{u}, Outs: []OutSpec{{To: Accts[(j+1)%nAcct].Addr, Amount: amt}}}
		}
		tx, err := BuildTx(spec)
		if err != nil {
			continue
		}
		p.Chain.SubmitTx(p.BaseCtx(), tx)
	}
	honest, err := p.Mine(MineOpts{MaxTx: -1})
	if err != nil {
		return r.viol("honest-block-not-produced", "the producer cannot mine from its own pool: %v", err)
	}
	r.rc.St.Ops[fmt.Sprintf("honest-block-%d-txs", len(honest.Transactions))]++
	// a block formatted by the node itself always verifies
	if ok, _ := r.rep.L.VerifyBlock(CloneBlock(honest), "xsim"); !ok {
		return r.viol("honest-block-rejected", "an intact block of %d transactions formatted by the producer fails VerifyBlock on the replica", len(honest.Transactions))
	}
	if bs.NFail > 0 {
		// the node's own formatting with a failed-transaction map (the rarely used argument of
		// FormatMinerBlock): the block it signs must verify wherever and whenever its id is recomputed -
		// map iteration order is permuted anew in every epoch
		failed := map[string]string{}
		for i := 0; i < bs.NFail; i++ {
			failed[fmt.Sprintf("%064x", i*7+1)] = fmt.Sprintf("contract call %d failed: reason %d", i, (i*13)%7)
		}
		r.rc.SetMapSeed(bs.MapSeed)
		xsimrt.SetEpoch(1)
		tip := p.S.GetLatestBlockid()
		hdr, _ := p.L.QueryBlockHeader(tip)
		award, _ := tx.GenerateAwardTx(p.Acct().Addr, "1000000", []byte("award-f"))
		fb, err := p.L.FormatMinerBlock([]*lpb.Transaction{award}, []byte(p.Acct().Addr), p.Acct().SK, time.Now().UnixNano(), 0, 0, tip, 0, p.S.GetTotal(), nil, failed, hdr.Height+1)
		if err != nil {
			return r.viol("honest-block-not-produced", "FormatMinerBlock with a failed-transaction map of %d entries: %v", bs.NFail, err)
		}
		for ep := uint64(2); ep <= 6; ep++ {
			xsimrt.SetEpoch(ep)
			if ok, _ := r.rep.L.VerifyBlock(CloneBlock(fb), "xsim"); !ok {
				return r.viol("honest-block-rejected", "a block with a failed-transaction map of %d entries formatted and signed by the producer fails VerifyBlock on the replica (id recomputed in another map iteration order)", bs.NFail)
			}
		}
		xsimrt.SetEpoch(0)
		r.rc.SetMapSeed(0)
		r.rc.St.Probes["honest-block-with-failed-tx-map-verified"]++
	}
	want := hashedHeader(honest)
	orig := detMarshal(honest)
	adv := Accts[5]
	type variant struct {
		name string
		f    func(b *lpb.InternalBlock)
	}
	remerkle := func(b *lpb.InternalBlock) {
		b.MerkleTree = ledger.MakeMerkleTree(b.Transactions)
		if len(b.MerkleTree) > 0 {
			b.MerkleRoot = b.MerkleTree[len(b.MerkleTree)-1]
		}
	}
	reid := func(b *lpb.InternalBlock) { b.Blockid, _ = ledger.MakeBlockID(b) }
	variants := []variant{
		{"raw", func(b *lpb.InternalBlock) {}},
		{"merkle-recomputed", remerkle},
		{"merkle+id-recomputed", func(b *lpb.InternalBlock) { remerkle(b); reid(b) }},
		{"merkle+id-recomputed, re-signed by another key (proposer and pubkey kept)", func(b *lpb.InternalBlock) {
			remerkle(b)
			reid(b)
			b.Sign, _ = Crypto.SignECDSA(adv.SK, b.Blockid)
		}},
		{"merkle+id-recomputed, re-signed by another key with its pubkey (proposer kept)", func(b *lpb.InternalBlock) {
			b.Pubkey = []byte(adv.Pub)
			remerkle(b)
			reid(b)
			b.Sign, _ = Crypto.SignECDSA(adv.SK, b.Blockid)
		}},
	}
	muts := Mutations(honest)
	// mutations inside transactions: a small set per transaction (the schema walk over every tx field is C07's)
	var sel []Mutation
	for _, m := range muts {
		if strings.HasPrefix(m.Path, "Transactions[") && strings.Contains(m.Path, "].") {
			if !(strings.HasSuffix(m.Path, "].Desc") || strings.HasSuffix(m.Path, "].Txid") || strings.Contains(m.Path, "].TxOutputs[0].Amount") || strings.HasSuffix(m.Path, "].Nonce")) {
				continue
			}
		}
		sel = append(sel, m)
	}
	if !bs.Full && len(sel) > len(bs.Pick) {
		var s2 []Mutation
		for _, pk := range bs.Pick {
			s2 = append(s2, sel[pk%len(sel)])
		}
		sel = s2
	}
	tested := 0
	for _, mu := range sel {
		for _, va := range variants {
			m := CloneBlock(honest)
			mu.Apply(m)
			if bytes.Equal(detMarshal(m), orig) {
				break
			}
			va.f(m)
			if bytes.Equal(detMarshal(m), orig) {
				continue
			}
			tested++
			r.rc.St.Faults["block-mutation-in-flight"]++
			ok, _ := r.rep.L.VerifyBlock(CloneBlock(m), "xsim")
			if !ok {
				continue
			}
			r.rc.St.Probes["mutant-passed-verifyblock"]++
			what := fmt.Sprintf("%s (%s)", mu.String(), va.name)
			if hashedHeader(m) != want {
				vi := r.viol("mutated-block-verifies", "block of %d transactions with mutation %s passes VerifyBlock", len(honest.Transactions), what)
				r.classify(vi, mu)
				if vi.Clause == "mutated-block-verifies" {
					return vi
				}
			}
			// whatever verifies goes through the real sync path on a copy of the replica
			tw, err := r.rep.Twin()
			if err != nil {
				panic(err)
			}
			perr := tw.Chain.ProcBlock(tw.BaseCtx(), CloneBlock(m))
			var vi *Violation
			if stored, qerr := tw.L.QueryBlock(m.Blockid); qerr == nil {
				if hashedHeader(stored) != want {
					vi = r.viol("ledger-holds-altered-block", "after delivering mutation %s through ProcBlock (err=%v) the replica's ledger holds, under the honest block id, a block that differs from the honest one in hashed header fields or ordered transaction list", what, perr != nil)
				}
			} else if tw.L.ExistBlock(m.Blockid) {
				vi = r.viol("ledger-holds-unreadable-block", "after delivering mutation %s through ProcBlock the block is stored but cannot be read back: %v", what, qerr)
			}
			if bytes.Equal(tw.S.GetLatestBlockid(), m.Blockid) {
				// applied: the state must equal the producer's
				po, to := NewObs(), NewObs()
				r.p.ObsState(&Universe{Addrs: acctAddrs()}, po, StateObsOpts{})
				tw.ObsState(&Universe{Addrs: acctAddrs()}, to, StateObsOpts{})
				if d := Diff(po, to, func(k string) bool {
					return strings.HasPrefix(k, "S.raw.U") || strings.HasPrefix(k, "S.raw.ZU") || k == "S.total"
				}); d != "" {
					vi = r.viol("altered-block-applied", "mutation %s was applied by the replica and its state differs from the producer's: %s", what, d)
				}
			}
			tw.Drop()
			if vi != nil {
				r.classify(vi, mu)
				if !strings.HasPrefix(vi.Clause, "known-") {
					return vi
				}
				r.pending = vi
			}
		}
	}
	r.rc.St.Probes["block-mutants-tested"] += tested
	r.rc.Log.Add("%d block %s txs=%d: %d sites, %d mutants tested", r.step, hx(honest.Blockid), len(honest.Transactions), len(sel), tested)
	// the replica takes the honest block
	if err := r.rep.Chain.ProcBlock(r.rep.BaseCtx(), CloneBlock(honest)); err != nil {
		return r.viol("honest-block-rejected", "the intact honest block is refused by the replica's sync path: %v", err)
	}
	r.rc.RunBG()
	return nil
}

// classify hook for known findings (see known_findings.json); default: nothing is known.
func (r *blockRun) classify(vi *Violation, mu Mutation) {
	for _, k := range c08Known {
		if k.match(vi, mu) {
			vi.Clause = "known-" + k.name
			vi.Msg += " [classified: " + k.name + "]"
			r.rc.St.Probes["known-"+k.name]++
			return
		}
	}
}

type c08KnownCase struct {
	name  string
	match func(vi *Violation, mu Mutation) bool
}

var c08Known []c08KnownCase

func acctAddrs() []string {
	var a []string
	for i := 0; i < nAcct; i++ {
		a = append(a, Accts[i].Addr)
	}
	return a
}

var _ = proto.Marshal

func ledgerHash(b []byte) []byte {
	h := sha256.Sum256(b)
	return h[:]
}
