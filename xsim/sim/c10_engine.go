package sim

import (
	"bytes"
	"fmt"
	"math/big"
	"sort"
	"time"

	"xsim/simkv"

	"github.com/golang/protobuf/proto"
	"github.com/xuperchain/xupercore/kernel/contract"
	"github.com/xuperchain/xupercore/kernel/contract/sandbox"
	"github.com/xuperchain/xupercore/kernel/ledger"
	"github.com/xuperchain/xupercore/lib/xsimrt"
)

// Addresses used by Transfer calls: the "contract" that owns outputs, and a payee.
const (
	c10Bank = "c10bank"
	c10Dest = "c10payee"
)

// c10Res is the observable result of one call.
type c10Res struct {
	Err       bool
	ErrText   string // log only
	Val       string
	Items     [][2]string
	Exhausted bool
	Panic     string
	Faults    int // storage faults that fired during the call (main run only)
}

// cmp renders what a re-execution has to reproduce.
func (r *c10Res) cmp() string {
	return fmt.Sprintf("err=%v val=%q items=[%s] exhausted=%v panic=%v", r.Err, r.Val, c10Items(r.Items), r.Exhausted, r.Panic != "")
}

// c10Apply performs one call on a sandbox.
func c10Apply(sb contract.StateSandbox, op *C10Op) (res c10Res) {
	defer func() {
		if p := recover(); p != nil {
			res.Panic = fmt.Sprint(p)
		}
	}()
	note := func(err error) {
		if err != nil {
			res.Err, res.ErrText = true, err.Error()
		}
	}
	switch op.Op {
	case "get":
		v, err := sb.Get(op.B, []byte(op.K))
		note(err)
		if err == nil {
			res.Val = string(v)
		}
	case "put":
		note(sb.Put(op.B, []byte(op.K), []byte(op.V)))
	case "del":
		note(sb.Del(op.B, []byte(op.K)))
	case "sel":
		var start, end []byte
		if op.K != "" {
			start = []byte(op.K)
		}
		if !op.NilEnd {
			end = []byte(op.End)
		}
		it, err := sb.Select(op.B, start, end)
		if err != nil {
			note(err)
			return
		}
		for n := 0; op.Limit == 0 || n < op.Limit; n++ {
			if !it.Next() {
				res.Exhausted = true
				break
			}
			res.Items = append(res.Items, [2]string{string(it.Key()), string(it.Value())})
		}
		note(it.Error())
		it.Close()
	case "xfer":
		note(sb.Transfer(c10Bank, c10Dest, big.NewInt(int64(op.Amt))))
	default:
		panic("c10: unknown op " + op.Op)
	}
	return
}

// c10Run executes all calls (no faults) and the optional Flush on a fresh sandbox.
func c10Run(sb contract.StateSandbox, plan *C10Plan, upto int, skip map[int]bool) []c10Res {
	out := make([]c10Res, upto)
	for i := 0; i < upto; i++ {
		if skip[i] {
			continue
		}
		out[i] = c10Apply(sb, &plan.Ops[i])
	}
	if plan.Flush {
		if err := sb.Flush(); err != nil {
			panic(fmt.Sprintf("c10: flush: %v", err))
		}
	}
	return out
}

type c10Exec struct {
	plan  *C10Plan
	rc    *RunCtx
	n     *Node
	back  c10Backing
	known *Violation // first classified known-defect candidate (reported only if nothing else fails)
}

func (e *c10Exec) viol(step int, op, clause, format string, a ...interface{}) *Violation {
	return &Violation{Prop: "C10", Clause: clause, Step: step, Op: op, Msg: fmt.Sprintf(format, a...)}
}

// noteKnown records a classified candidate and lets checking continue.
func (e *c10Exec) noteKnown(step int, op, clause, format string, a ...interface{}) {
	e.rc.St.Probes["candidate:"+clause]++
	if e.known == nil {
		e.known = e.viol(step, op, clause, format, a...)
	}
}

// submit pre-executes a setup program, submits the transaction and applies it to the backing model.
func (e *c10Exec) submit(t *C10Tx) {
	n := e.n
	resp, err := n.PreExecProg(Accts[0], t.Prog, nil)
	if err != nil {
		panic(fmt.Sprintf("c10 setup: preexec: %v", err))
	}
	tx, err := BuildTx(&TxSpec{From: Accts[0], Version: 3, Invoke: resp})
	if err != nil {
		panic(fmt.Sprintf("c10 setup: build: %v", err))
	}
	if err := n.Chain.SubmitTx(n.BaseCtx(), tx); err != nil {
		// the read/write set PreExec returned, assembled unchanged and submitted against the same state
		panic(e.viol(0, "setup", "preexecuted-invocation-rejected", "a set-up transaction built from PreExec's own read/write set was refused: %v | %s", err, descTx(tx)))
	}
	// value and liveness come from the PROGRAM, the version from the position of the key in the
	// transaction's outputs (that is what a version is)
	for _, op := range t.Prog {
		b := op.B
		if b == "" {
			b = XsimBucket
		}
		off := -1
		for i, o := range tx.TxOutputsExt {
			if o.Bucket == b && string(o.Key) == op.K {
				off = i
			}
		}
		if off < 0 {
			panic(fmt.Sprintf("c10 setup: key %s/%s written by the program is not among the transaction outputs", b, op.K))
		}
		e.back[c10RK(b, op.K)] = &c10Cell{Live: op.Op == "put", Val: op.V, Txid: tx.Txid, Offset: int32(off)}
	}
}

func (e *c10Exec) fund() {
	n := e.n
	us, err := n.ListUtxos(Accts[0].Addr)
	if err != nil || len(us) == 0 {
		panic(fmt.Sprintf("c10 setup: no funds: %v", err))
	}
	sp := &TxSpec{From: Accts[0], Version: 3, Inputs: us[:1]}
	for _, a := range []int64{7, 11, 13} {
		sp.Outs = append(sp.Outs, OutSpec{To: c10Bank, Amount: big.NewInt(a)})
	}
	tx, err := BuildTx(sp)
	if err != nil {
		panic(err)
	}
	if err := n.Chain.SubmitTx(n.BaseCtx(), tx); err != nil {
		panic(fmt.Sprintf("c10 setup: fund: %v", err))
	}
}

// checkBacking compares the backing model with the real reader (harness sanity, not an oracle).
func (e *c10Exec) checkBacking(rd ledger.XMReader) {
	for _, b := range []string{"b0", "b1", "b10"} {
		for _, k := range c10Keys {
			vd, err := rd.Get(b, []byte(k))
			if err != nil {
				panic(fmt.Sprintf("c10 setup: reader Get %s/%s: %v", b, k, err))
			}
			c := e.back[c10RK(b, k)]
			switch {
			case c == nil:
				if len(vd.RefTxid) != 0 {
					panic(fmt.Sprintf("c10 setup: %s/%s never written by the setup but has version %x", b, k, vd.RefTxid))
				}
			case !bytes.Equal(vd.RefTxid, c.Txid) || vd.RefOffset != c.Offset:
				panic(fmt.Sprintf("c10 setup: %s/%s version %x_%d, setup says %x_%d", b, k, vd.RefTxid, vd.RefOffset, c.Txid, c.Offset))
			case c.Live && string(vd.GetPureData().GetValue()) != c.Val:
				panic(fmt.Sprintf("c10 setup: %s/%s value %q, setup says %q", b, k, vd.GetPureData().GetValue(), c.Val))
			case !c.Live && !sandbox.IsDelFlag(vd.GetPureData().GetValue()):
				panic(fmt.Sprintf("c10 setup: %s/%s deleted by the setup but reads %q", b, k, vd.GetPureData().GetValue()))
			}
		}
	}
}

// ExecC10 runs one C10 scenario.
func ExecC10(plan *C10Plan, rc *RunCtx) *Violation {
	g := &Genesis{Predist: map[int]string{0: "1000000000"}, NoFee: true, GasAllZero: true, Award: "1000000"}
	w := NewWorld(g, &Knobs{})
	rc.OnCleanup(w.Close)
	rc.AttachHooks(&xsimrt.H{Tune: func(name string, def int) int {
		if name == "bucketExtUTXOCacheSize" && plan.ExtCache > 0 {
			return plan.ExtCache
		}
		return def
	}})
	w.OnBoot = append(w.OnBoot, RegisterXsim)
	n, err := w.AddNode("n0", 0)
	if err != nil {
		panic(fmt.Sprintf("c10 boot: %v", err))
	}
	e := &c10Exec{plan: plan, rc: rc, n: n, back: c10Backing{}}

	// ---- backing state through the real pipeline
	for bi := range plan.Blocks {
		time.Sleep(time.Millisecond) // the clock never stands still between two blocks
		if bi == 0 && plan.Fund {
			e.fund()
		}
		for ti := range plan.Blocks[bi] {
			e.submit(&plan.Blocks[bi][ti])
		}
		if _, err := n.Mine(MineOpts{MaxTx: -1}); err != nil {
			panic(fmt.Sprintf("c10 setup: mine: %v", err))
		}
	}
	for ti := range plan.Pending {
		e.submit(&plan.Pending[ti])
		rc.St.Probes["backing-has-unconfirmed-writes"]++
	}
	reader := n.S.CreateXMReader()
	e.checkBacking(reader)
	nl, nd := 0, 0
	for _, c := range e.back {
		if c.Live {
			nl++
		} else {
			nd++
		}
	}
	rc.Log.Add("backing live=%d deleted=%d", nl, nd)
	if nd > 0 {
		rc.St.Probes["backing-has-deleted-keys"]++
	}

	// ---- the execution under test (with per-call storage faults)
	sb, err := n.Ctx.Contract.NewStateSandbox(&contract.SandboxConfig{XMReader: reader, UTXOReader: n.S.CreateUtxoReader()})
	if err != nil {
		panic(err)
	}
	ops := plan.Ops
	results := make([]c10Res, len(ops))
	for i := range ops {
		op := &ops[i]
		rc.St.Steps++
		rc.St.Ops[op.Op]++
		fr0, fi0 := n.Disk.St.FailedReads, n.Disk.St.FailedIters
		if op.FR > 0 || op.FI > 0 {
			f := simkv.Faults{}
			if op.FR > 0 {
				f.FailRead = map[int]bool{op.FR - 1: true}
			}
			if op.FI > 0 {
				f.FailIter = map[int]int{0: op.FI - 1}
			}
			n.Disk.Arm(f)
		}
		res := c10Apply(sb, op)
		n.Disk.Disarm()
		dr, di := n.Disk.St.FailedReads-fr0, n.Disk.St.FailedIters-fi0
		rc.St.Faults["storage-read-fails"] += dr
		rc.St.Faults["storage-iterator-fails"] += di
		res.Faults = dr + di
		results[i] = res
		rc.Log.Add("op %d %s %s/%s end=%q nil=%v lim=%d amt=%d fr=%d fi=%d -> %s faults=%d", i, op.Op, op.B, op.K, op.End, op.NilEnd, op.Limit, op.Amt, op.FR, op.FI, res.cmp(), res.Faults)
		if (op.Op == "put" || op.Op == "del") && res.Err {
			if res.Faults == 0 {
				return e.viol(i, op.Op, "write-refused", "%s %s/%s failed without any storage fault: %s", op.Op, op.B, op.K, res.ErrText)
			}
			// a failed write under a fault: the execution is abandoned (the statement says nothing about it)
			rc.St.Probes["write-failed-under-fault"]++
			return nil
		}
	}
	if plan.Flush {
		if err := sb.Flush(); err != nil {
			panic(fmt.Sprintf("c10: flush: %v", err))
		}
	}
	rw := sb.RWSet()
	urw := sb.UTXORWSet()

	// ---- per-call oracle against the overlay model
	view := newC10View(e.back)
	observedClean := map[string]int{}  // backing keys exposed by a fault-free result -> call index
	observedFaulty := map[string]int{} // same, but only by calls during which a fault fired
	faultyWrite := map[string]bool{}   // keys with a put/del during which a storage fault fired
	observe := func(rk string, i int) {
		if results[i].Faults == 0 {
			if _, ok := observedClean[rk]; !ok {
				observedClean[rk] = i
			}
		} else if _, ok := observedFaulty[rk]; !ok {
			observedFaulty[rk] = i
		}
	}
	for i := range ops {
		op, res := &ops[i], &results[i]
		rk := c10RK(op.B, op.K)
		faulted := res.Faults > 0
		if res.Panic != "" {
			if op.Op == "sel" && !op.NilEnd && op.K > op.End {
				e.noteKnown(i, "sel", "scan-inverted-range-panics", "Select(%s, %q, %q) with start above end panics instead of yielding the (empty) range: %s", op.B, op.K, op.End, res.Panic)
				continue
			}
			return e.viol(i, op.Op, "call-panics", "%s %s/%s panicked: %s", op.Op, op.B, op.K, res.Panic)
		}
		switch op.Op {
		case "get":
			want, found := view.get(op.B, op.K)
			o := view.over[rk]
			switch {
			case res.Err && found && !faulted:
				if o != nil {
					return e.viol(i, "get", "read-your-writes", "Get %s/%s failed (%s) although this execution wrote %q", op.B, op.K, res.ErrText, want)
				}
				return e.viol(i, "get", "get-misses-backing-value", "Get %s/%s failed (%s) although the underlying state holds %q", op.B, op.K, res.ErrText, want)
			case !res.Err && !found:
				if o != nil {
					return e.viol(i, "get", "read-your-deletes", "Get %s/%s = %q although this execution deleted the key", op.B, op.K, res.Val)
				}
				return e.viol(i, "get", "get-sees-absent-key", "Get %s/%s = %q although the key is deleted / never written in the underlying state", op.B, op.K, res.Val)
			case !res.Err && res.Val != want:
				if o != nil {
					return e.viol(i, "get", "read-your-writes", "Get %s/%s = %q, latest own write is %q", op.B, op.K, res.Val, want)
				}
				return e.viol(i, "get", "get-wrong-backing-value", "Get %s/%s = %q, underlying state holds %q", op.B, op.K, res.Val, want)
			}
			c := e.back[rk]
			switch {
			case o != nil && o.Del:
				rc.St.Probes["get-own-delete"]++
			case o != nil:
				rc.St.Probes["get-own-write"]++
			case c == nil:
				rc.St.Probes["get-never-written"]++
			case c.Live:
				rc.St.Probes["get-backing-live"]++
			default:
				rc.St.Probes["get-backing-deleted"]++
			}
			if o == nil && !(res.Err && faulted) {
				observe(rk, i)
				if c == nil {
					view.absentRead[rk] = true
				}
			}
			if res.Err && faulted && found {
				rc.St.Probes["get-failed-under-fault"]++
			}
		case "put", "del":
			if faulted {
				faultyWrite[rk] = true
				rc.St.Probes["write-survived-read-fault"]++
			}
			view.over[rk] = &c10Over{Del: op.Op == "del", Val: op.V}
		case "sel":
			inverted := !op.NilEnd && op.K > op.End
			if res.Err {
				if !faulted && !inverted {
					return e.viol(i, "sel", "scan-fails-without-fault", "Select(%s, %q, %q) reported an error without any storage fault: %s", op.B, op.K, op.End, res.ErrText)
				}
				if faulted {
					rc.St.Probes["scan-error-reported-under-fault"]++
				}
				continue
			}
			exp := view.scan(op.B, op.K, op.End, op.NilEnd)
			// classified candidates are taken out of the result so that everything else is still judged
			var got [][2]string
			for _, kv := range res.Items {
				irk := c10RK(op.B, kv[0])
				io := view.over[irk]
				if c10InRange(kv[0], op.K, op.End, op.NilEnd) {
					if io != nil && io.Del && sandbox.IsDelFlag([]byte(kv[1])) {
						e.noteKnown(i, "sel", "scan-yields-own-deleted-key", "Select(%s, %q, %q) yields %q (with the delete marker as value) although this execution deleted it; result [%s]", op.B, op.K, op.End, kv[0], c10Items(res.Items))
						continue
					}
					if io == nil && view.absentRead[irk] && kv[1] == "" {
						e.noteKnown(i, "sel", "scan-yields-absent-key-after-get", "Select(%s, %q, %q) yields %q (empty value), a key that was never written: an earlier Get of this execution found it absent; result [%s]", op.B, op.K, op.End, kv[0], c10Items(res.Items))
						continue
					}
				}
				got = append(got, kv)
			}
			if op.NilEnd && !c10PrefixOf(got, exp, res.Exhausted) {
				// a nil end key: the statement does not say what the range is. Accept "unbounded" (checked
				// above) and "empty"; anything between is inconsistent. Classified when the result is an
				// ordered part of the unbounded answer that lacks only keys of the underlying state.
				if len(got) == 0 {
					rc.St.Probes["scan-nil-end-empty"]++
					continue
				}
				if miss, ok := c10SubSeq(got, exp, res.Exhausted); ok {
					onlyBacking := true
					for _, k := range miss {
						if view.over[c10RK(op.B, k)] != nil {
							onlyBacking = false
						}
					}
					if onlyBacking {
						e.noteKnown(i, "sel", "scan-nil-end-inconsistent", "Select(%s, %q, nil) yields [%s]: own writes / earlier reads up to the end of the bucket but none of the other live keys %v of the underlying state (neither the unbounded nor the empty range)", op.B, op.K, c10Items(got), miss)
						for _, kv := range got {
							if view.over[c10RK(op.B, kv[0])] == nil {
								observe(c10RK(op.B, kv[0]), i)
							}
						}
						continue
					}
				}
			}
			if !c10PrefixOf(got, exp, res.Exhausted) {
				clause := "scan-mismatch"
				if faulted {
					clause = "scan-incomplete-without-error"
				}
				return e.viol(i, "sel", clause, "Select(%s, %q, %q nil=%v) limit %d exhausted=%v yields [%s], live keys of the range are [%s] (faults fired: %d)", op.B, op.K, op.End, op.NilEnd, op.Limit, res.Exhausted, c10Items(res.Items), c10Items(exp), res.Faults)
			}
			if !res.Exhausted && len(res.Items) != op.Limit {
				panic("c10: scan neither exhausted nor at its limit")
			}
			if faulted {
				rc.St.Probes["scan-complete-despite-fault"]++
			}
			// reach
			own, backing := 0, 0
			for _, kv := range got {
				if view.over[c10RK(op.B, kv[0])] != nil {
					own++
				} else {
					backing++
					observe(c10RK(op.B, kv[0]), i)
				}
			}
			if own > 0 && backing > 0 {
				rc.St.Probes["scan-merges-own-and-backing"]++
			}
			if !res.Exhausted {
				rc.St.Probes["scan-early-stop"]++
				if len(exp) > len(got) {
					rc.St.Probes["scan-early-stop-leaves-keys"]++
				}
			}
			for rk2, c := range e.back {
				b2, k2 := c10Split(rk2)
				if b2 != op.B || !c10InRange(k2, op.K, op.End, op.NilEnd) {
					continue
				}
				o2 := view.over[rk2]
				switch {
				case c.Live && o2 != nil && o2.Del:
					rc.St.Probes["scan-range-has-own-delete-of-backing-key"]++
				case c.Live && o2 != nil:
					rc.St.Probes["scan-range-has-overwritten-backing-key"]++
				case !c.Live && o2 == nil:
					rc.St.Probes["scan-range-has-backing-deleted-key"]++
				case !c.Live && o2 != nil && !o2.Del:
					rc.St.Probes["scan-range-has-resurrected-key"]++
				}
			}
			if op.B == C10Transient && len(got) > 0 {
				rc.St.Probes["scan-transient-bucket"]++
			}
		case "xfer":
			if res.Err {
				rc.St.Probes["transfer-refused"]++
			} else {
				rc.St.Probes["transfer-ok"]++
			}
		}
	}
	end := len(ops)

	// ---- token transfers: the utxo write set pays exactly the transfers that succeeded (to the payee,
	// the rest back to the payer as change) out of the recorded inputs; a refused transfer pays nothing
	{
		paid := new(big.Int)
		nOK := 0
		faulted := false
		for i := range ops {
			if ops[i].Op == "xfer" && results[i].Faults > 0 {
				faulted = true
			}
			if ops[i].Op == "xfer" && !results[i].Err && results[i].Panic == "" {
				paid.Add(paid, big.NewInt(int64(ops[i].Amt)))
				nOK++
			}
		}
		inSum, toDest, toOthers := new(big.Int), new(big.Int), new(big.Int)
		for _, in := range urw.Rset {
			inSum.Add(inSum, new(big.Int).SetBytes(in.Amount))
		}
		for _, o := range urw.WSet {
			amt := new(big.Int).SetBytes(o.Amount)
			if string(o.ToAddr) == c10Dest {
				toDest.Add(toDest, amt)
			} else {
				toOthers.Add(toOthers, amt)
			}
		}
		if !faulted {
			if toDest.Cmp(paid) != 0 {
				return e.viol(end, "rwset", "utxo-wset-pays-what-was-not-transferred", "the utxo write set pays %s to the payee, the %d transfers that succeeded amount to %s (refused transfers pay nothing); %s", toDest, nOK, paid, c10UtxoString(urw))
			}
			if new(big.Int).Add(toDest, toOthers).Cmp(inSum) != 0 {
				return e.viol(end, "rwset", "utxo-rwset-unbalanced", "the utxo write set pays out %s + %s change, the recorded inputs hold %s; %s", toDest, toOthers, inSum, c10UtxoString(urw))
			}
			if nOK > 0 {
				rc.St.Probes["transfer-model-checked"]++
			}
		}
	}

	// ---- write set = final value of each written key
	wm := map[string][]byte{}
	for _, wd := range rw.WSet {
		rk := c10RK(wd.GetBucket(), string(wd.GetKey()))
		if _, dup := wm[rk]; dup {
			return e.viol(end, "rwset", "wset-duplicate-key", "write set lists %s/%s twice", wd.GetBucket(), wd.GetKey())
		}
		wm[rk] = wd.GetValue()
	}
	for _, rk := range c10SortedOver(view.over) {
		o := view.over[rk]
		b, k := c10Split(rk)
		val, ok := wm[rk]
		switch {
		case !ok:
			return e.viol(end, "rwset", "wset-misses-written-key", "%s/%s was written by the execution but is not in the write set [%s]", b, k, c10WSetString(rw.WSet))
		case o.Del != sandbox.IsDelFlag(val) || (!o.Del && string(val) != o.Val):
			return e.viol(end, "rwset", "wset-not-final-value", "write set holds %s/%s=%q, final write was del=%v %q", b, k, val, o.Del, o.Val)
		}
	}
	for _, rk := range c10SortedBytes(wm) {
		if view.over[rk] != nil {
			continue
		}
		b, k := c10Split(rk)
		if b == C10Transient && plan.Flush {
			rc.St.Probes["wset-transient-output-of-flush"]++
			continue
		}
		return e.viol(end, "rwset", "wset-unwritten-key", "write set holds %s/%s=%q which the execution never wrote", b, k, wm[rk])
	}

	// ---- read set: written keys are read, versions are the backing versions, observed keys are recorded
	rm := map[string]*ledger.VersionedData{}
	for _, vd := range rw.RSet {
		rk := c10RK(vd.GetPureData().GetBucket(), string(vd.GetPureData().GetKey()))
		if _, dup := rm[rk]; dup {
			return e.viol(end, "rwset", "rset-duplicate-key", "read set lists %s twice", rk)
		}
		rm[rk] = vd
	}
	for _, rk := range c10SortedOver(view.over) {
		b, k := c10Split(rk)
		if b == C10Transient || rm[rk] != nil {
			continue
		}
		if faultyWrite[rk] {
			e.noteKnown(end, "rwset", "written-key-unread-after-swallowed-read-fault", "%s/%s is in the write set but not in the read set: the read that Put/Del performs failed (injected storage fault) and the failure was dropped, the write succeeded", b, k)
			continue
		}
		return e.viol(end, "rwset", "wset-key-not-read", "%s/%s is in the write set but not in the read set", b, k)
	}
	var rks []string
	for rk := range rm {
		rks = append(rks, rk)
	}
	sort.Strings(rks)
	for _, rk := range rks {
		vd, c := rm[rk], e.back[rk]
		b, k := c10Split(rk)
		val := vd.GetPureData().GetValue()
		switch {
		case c == nil:
			if len(vd.RefTxid) != 0 || vd.RefOffset != 0 {
				return e.viol(end, "rwset", "rset-wrong-version", "read set holds %s/%s with version %x_%d, the key was never written", b, k, vd.RefTxid, vd.RefOffset)
			}
		case !bytes.Equal(vd.RefTxid, c.Txid) || vd.RefOffset != c.Offset:
			return e.viol(end, "rwset", "rset-wrong-version", "read set holds %s/%s with version %x_%d, the underlying state has %x_%d", b, k, vd.RefTxid, vd.RefOffset, c.Txid, c.Offset)
		case c.Live && string(val) != c.Val, !c.Live && !sandbox.IsDelFlag(val):
			return e.viol(end, "rwset", "rset-wrong-value", "read set holds %s/%s=%q, the underlying state has live=%v %q", b, k, val, c.Live, c.Val)
		}
	}
	for _, rk := range c10SortedInts(observedClean) {
		if rm[rk] == nil {
			b, k := c10Split(rk)
			i := observedClean[rk]
			return e.viol(i, ops[i].Op, "rset-misses-observed-key", "call %d (%s) returned a result that depends on %s/%s of the underlying state, but the key is not in the read set", i, ops[i].Op, b, k)
		}
	}
	for _, rk := range c10SortedInts(observedFaulty) {
		if _, clean := observedClean[rk]; clean || rm[rk] != nil {
			continue
		}
		b, k := c10Split(rk)
		i := observedFaulty[rk]
		e.noteKnown(i, "sel", "yielded-key-unread-after-swallowed-read-fault", "call %d (%s) reported no error and yielded %s/%s of the underlying state, but the key is not in the read set: the recording read failed (injected storage fault) and the failure was dropped", i, ops[i].Op, b, k)
	}
	rc.St.Probes["rwset-checked"]++

	// ---- re-executions: replay over the read set alone, and over perturbed backing states
	compare := func(what, clauseRes, clauseW string, rd ledger.XMReader) *Violation {
		isReplay := clauseRes == "replay-result-differs"
		sb2, err := n.Ctx.Contract.NewStateSandbox(&contract.SandboxConfig{XMReader: rd, UTXOReader: sandbox.NewUTXOReaderFromInput(urw.Rset)})
		if err != nil {
			panic(err)
		}
		// a Get that failed under an injected fault left no trace in the execution (nothing recorded,
		// nothing returned): it is not one of "the same calls" a re-execution could repeat
		skip := map[int]bool{}
		for i := range ops {
			if ops[i].Op == "get" && results[i].Faults > 0 && results[i].Err {
				skip[i] = true
			}
		}
		res2 := c10Run(sb2, plan, len(ops), skip)
		for i := range ops {
			if results[i].Faults > 0 {
				continue
			}
			if ops[i].Op == "sel" && !ops[i].NilEnd && ops[i].K > ops[i].End {
				continue // inverted range: judged (and classified) by the per-call oracle only
			}
			if a, b := results[i].cmp(), res2[i].cmp(); a != b {
				if ops[i].Op == "sel" && ops[i].NilEnd && !results[i].Err && !res2[i].Err && results[i].Panic == "" && res2[i].Panic == "" {
					e.noteKnown(i, "sel", "scan-nil-end-inconsistent", "%s: Select(%s, %q, nil) yields [%s], the execution yielded [%s]: with a nil end key the real reader scans an empty range while own writes, EARLIER READS and the reader built from the read set go to the end of the bucket, so the answer depends on what happened to be read before", what, ops[i].B, ops[i].K, c10Items(res2[i].Items), c10Items(results[i].Items))
					continue
				}
				if isReplay && e.replayPhantomOnly(&ops[i], &results[i], &res2[i], rm) {
					e.noteKnown(i, "sel", "replay-scan-yields-absent-read-key", "replay over the read set alone: Select(%s, %q, %q) yields [%s], the execution yielded [%s]: the extra keys were never written; a Get of the execution found them absent, which put them into the read set with an empty version, and the reader built from the read set lists them", ops[i].B, ops[i].K, ops[i].End, c10Items(res2[i].Items), c10Items(results[i].Items))
					continue
				}
				return e.viol(i, ops[i].Op, clauseRes, "%s: call %d %s %s/%s gave {%s}, the execution gave {%s}", what, i, ops[i].Op, ops[i].B, ops[i].K, b, a)
			}
		}
		rw2 := sb2.RWSet()
		if a, b := c10WSetString(rw.WSet), c10WSetString(rw2.WSet); a != b {
			return e.viol(end, "rwset", clauseW, "%s: write set [%s], the execution's write set [%s]", what, b, a)
		}
		u2 := sb2.UTXORWSet()
		if a, b := c10UtxoString(urw), c10UtxoString(u2); a != b {
			return e.viol(end, "rwset", clauseW, "%s: utxo sets %s, the execution's %s", what, b, a)
		}
		return nil
	}
	if v := compare("replay over the read set alone", "replay-result-differs", "replay-wset-differs", sandbox.XMReaderFromRWSet(rw)); v != nil {
		return v
	}
	rc.St.Probes["replay-compared"]++
	if v := compare("second execution over the unchanged state", "rerun-result-differs", "rerun-wset-differs", &c10Perturbed{base: reader}); v != nil {
		return v
	}
	var unread []string
	for rk, c := range e.back {
		if c.Live && rm[rk] == nil {
			unread = append(unread, rk)
		}
	}
	sort.Strings(unread)
	if len(unread) > 0 {
		for _, del := range []bool{false, true} {
			mod := map[string]*c10Mod{}
			for _, rk := range unread {
				mod[rk] = &c10Mod{Del: del, Val: e.back[rk].Val + "-perturbed"}
			}
			what := fmt.Sprintf("execution over a state where the unread keys %q are changed", unread)
			if del {
				what = fmt.Sprintf("execution over a state where the unread keys %q are deleted", unread)
			}
			if v := compare(what, "unread-key-influences-result", "unread-key-influences-wset", &c10Perturbed{base: reader, mod: mod}); v != nil {
				return v
			}
			rc.St.Probes["perturbation-runs"]++
		}
		rc.St.Probes["perturbed-keys"] += len(unread)
	}
	rc.St.States[fmt.Sprintf("%d/%d/%d", len(rw.RSet), len(rw.WSet), len(unread))] = true
	return e.known
}

// c10PrefixOf: got must be exp[:len(got)], and all of exp when the scan ran until exhaustion.
func c10PrefixOf(got, exp [][2]string, exhausted bool) bool {
	if len(got) > len(exp) || (exhausted && len(got) != len(exp)) {
		return false
	}
	for i := range got {
		if got[i] != exp[i] {
			return false
		}
	}
	return true
}

// c10SubSeq reports whether got is an ordered sub-sequence of exp and which keys of exp (up to the
// last key of got) it lacks.
func c10SubSeq(got, exp [][2]string, exhausted bool) ([]string, bool) {
	var miss []string
	j := 0
	for _, kv := range exp {
		if j == len(got) && !exhausted {
			break // the scan was stopped here: later keys are not lacking
		}
		if j < len(got) && got[j] == kv {
			j++
			continue
		}
		miss = append(miss, kv[0])
	}
	return miss, j == len(got)
}

func c10SortedOver(m map[string]*c10Over) []string {
	var ks []string
	for k := range m {
		ks = append(ks, k)
	}
	sort.Strings(ks)
	return ks
}
func c10SortedBytes(m map[string][]byte) []string {
	var ks []string
	for k := range m {
		ks = append(ks, k)
	}
	sort.Strings(ks)
	return ks
}
func c10SortedInts(m map[string]int) []string {
	var ks []string
	for k := range m {
		ks = append(ks, k)
	}
	sort.Strings(ks)
	return ks
}

func c10UtxoString(u *contract.UTXORWSet) string {
	var bb bytes.Buffer
	for _, in := range u.Rset {
		b, _ := proto.Marshal(in)
		fmt.Fprintf(&bb, "in:%x ", b)
	}
	for _, o := range u.WSet {
		b, _ := proto.Marshal(o)
		fmt.Fprintf(&bb, "out:%x ", b)
	}
	return bb.String()
}

// replayPhantomOnly reports whether a replayed scan differs from the original only by extra items
// (key, empty value) whose keys are in the read set with an EMPTY version (never written, found
// absent by a Get), possibly displacing the tail of a scan that stops after n items.
func (e *c10Exec) replayPhantomOnly(op *C10Op, orig, rep *c10Res, rm map[string]*ledger.VersionedData) bool {
	if op.Op != "sel" || orig.Err != rep.Err || (orig.Panic != "") != (rep.Panic != "") {
		return false
	}
	in := map[[2]string]bool{}
	for _, kv := range orig.Items {
		in[kv] = true
	}
	var rest [][2]string
	dropped := 0
	for _, kv := range rep.Items {
		vd := rm[c10RK(op.B, kv[0])]
		if !in[kv] && kv[1] == "" && vd != nil && len(vd.RefTxid) == 0 && e.back[c10RK(op.B, kv[0])] == nil {
			dropped++
			continue
		}
		rest = append(rest, kv)
	}
	if dropped == 0 {
		return false
	}
	return c10PrefixOf(rest, orig.Items, rep.Exhausted && orig.Exhausted)
}
