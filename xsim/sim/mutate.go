package sim

import (
	"fmt"
	"reflect"
	"strings"

	"github.com/golang/protobuf/proto"
)

// Schema-walking corruption operators: every field reachable from a protobuf message by Go
// reflection yields mutation sites (alter / clear / extend a scalar, drop / duplicate / swap /
// insert an element, clear / allocate a sub-message, swap two sibling fields of the same type).
// The list depends only on the concrete message, so it is the same in every process.

// Mutation is one single-field mutation of a message.
type Mutation struct {
	Path string // e.g. TxInputs[0].Amount
	Op   string // e.g. flip-bit, clear, append, drop, dup, swap, insert-zero, swap-sibling
	// Apply performs the mutation on a (cloned) message rooted at root.
	Apply func(root proto.Message)
}

func (m Mutation) String() string { return m.Path + ":" + m.Op }

// resolve walks a path of selectors from root.
type sel struct {
	field string
	idx   int // -1: field itself
	key   string
	isKey bool
}

func navigate(root reflect.Value, path []sel) reflect.Value {
	v := root
	for _, s := range path {
		for v.Kind() == reflect.Ptr || v.Kind() == reflect.Interface {
			v = v.Elem()
		}
		v = v.FieldByName(s.field)
		if s.isKey {
			v = v.MapIndex(reflect.ValueOf(s.key))
		} else if s.idx >= 0 {
			v = v.Index(s.idx)
		}
	}
	return v
}

func pathString(path []sel) string {
	var b strings.Builder
	for i, s := range path {
		if i > 0 {
			b.WriteByte('.')
		}
		b.WriteString(s.field)
		if s.isKey {
			fmt.Fprintf(&b, "[%q]", s.key)
		} else if s.idx >= 0 {
			fmt.Fprintf(&b, "[%d]", s.idx)
		}
	}
	return b.String()
}

// Mutations enumerates all single-field mutations of msg.
func Mutations(msg proto.Message) []Mutation {
	var out []Mutation
	walkMut(reflect.ValueOf(msg), nil, &out)
	return out
}

func cp(path []sel, s sel) []sel { return append(append([]sel{}, path...), s) }

func walkMut(v reflect.Value, path []sel, out *[]Mutation) {
	for v.Kind() == reflect.Ptr {
		if v.IsNil() {
			return
		}
		v = v.Elem()
	}
	if v.Kind() != reflect.Struct {
		return
	}
	t := v.Type()
	var prevSame = map[reflect.Type]string{}
	for i := 0; i < t.NumField(); i++ {
		f := t.Field(i)
		if strings.HasPrefix(f.Name, "XXX_") || f.PkgPath != "" {
			continue
		}
		fv := v.Field(i)
		p := cp(path, sel{field: f.Name, idx: -1})
		leafMut(fv, p, out)
		// swap with the previous sibling of the same scalar type (digest injectivity)
		switch fv.Kind() {
		case reflect.String, reflect.Int32, reflect.Int64:
			if prev, ok := prevSame[fv.Type()]; ok {
				a, b := cp(path, sel{field: prev, idx: -1}), p
				*out = append(*out, Mutation{Path: pathString(b), Op: "swap-sibling-" + prev, Apply: func(root proto.Message) {
					x, y := navigate(reflect.ValueOf(root), a), navigate(reflect.ValueOf(root), b)
					tmp := reflect.New(x.Type()).Elem()
					tmp.Set(x)
					x.Set(y)
					y.Set(tmp)
				}})
			}
			prevSame[fv.Type()] = f.Name
		case reflect.Slice:
			if fv.Type().Elem().Kind() == reflect.Uint8 {
				if prev, ok := prevSame[fv.Type()]; ok {
					a, b := cp(path, sel{field: prev, idx: -1}), p
					*out = append(*out, Mutation{Path: pathString(b), Op: "swap-sibling-" + prev, Apply: func(root proto.Message) {
						x, y := navigate(reflect.ValueOf(root), a), navigate(reflect.ValueOf(root), b)
						tmp := reflect.New(x.Type()).Elem()
						tmp.Set(x)
						x.Set(y)
						y.Set(tmp)
					}})
				}
				prevSame[fv.Type()] = f.Name
			}
		}
	}
}

func set(p []sel, f func(v reflect.Value)) func(root proto.Message) {
	return func(root proto.Message) { f(navigate(reflect.ValueOf(root), p)) }
}

func leafMut(fv reflect.Value, p []sel, out *[]Mutation) {
	ps := pathString(p)
	add := func(op string, f func(v reflect.Value)) {
		*out = append(*out, Mutation{Path: ps, Op: op, Apply: set(p, f)})
	}
	switch fv.Kind() {
	case reflect.Bool:
		add("toggle", func(v reflect.Value) { v.SetBool(!v.Bool()) })
	case reflect.Int32, reflect.Int64:
		add("plus-1", func(v reflect.Value) { v.SetInt(v.Int() + 1) })
		add("negate", func(v reflect.Value) { v.SetInt(-v.Int() - 1) })
		add("zero", func(v reflect.Value) { v.SetInt(0) })
	case reflect.String:
		add("append-char", func(v reflect.Value) { v.SetString(v.String() + "x") })
		add("clear", func(v reflect.Value) { v.SetString("") })
		if fv.Len() > 0 {
			add("alter-char", func(v reflect.Value) {
				b := []byte(v.String())
				b[len(b)/2] ^= 1
				v.SetString(string(b))
			})
			// structured strings (signer paths "account/key", contract names): the leading part alone
			add("alter-first-char", func(v reflect.Value) {
				b := []byte(v.String())
				b[0] ^= 1
				v.SetString(string(b))
			})
		}
		if fv.Len() >= 8 {
			add("alter-quarter-char", func(v reflect.Value) {
				b := []byte(v.String())
				b[len(b)/4] ^= 1
				v.SetString(string(b))
			})
		}
	case reflect.Slice:
		et := fv.Type().Elem()
		switch {
		case et.Kind() == reflect.Uint8: // bytes
			add("append-byte", func(v reflect.Value) { v.SetBytes(append(append([]byte{}, v.Bytes()...), 0x01)) })
			add("clear", func(v reflect.Value) { v.SetBytes(nil) })
			if fv.Len() > 0 {
				add("flip-first-bit", func(v reflect.Value) {
					b := append([]byte{}, v.Bytes()...)
					b[0] ^= 0x80
					v.SetBytes(b)
				})
				add("flip-middle-bit", func(v reflect.Value) {
					b := append([]byte{}, v.Bytes()...)
					b[len(b)/2] ^= 0x04
					v.SetBytes(b)
				})
				add("flip-last-bit", func(v reflect.Value) {
					b := append([]byte{}, v.Bytes()...)
					b[len(b)-1] ^= 0x01
					v.SetBytes(b)
				})
				add("truncate", func(v reflect.Value) { v.SetBytes(append([]byte{}, v.Bytes()[:v.Len()-1]...)) })
				add("prepend-zero", func(v reflect.Value) { v.SetBytes(append([]byte{0}, v.Bytes()...)) })
			}
		default: // repeated
			n := fv.Len()
			add("insert-zero", func(v reflect.Value) {
				var z reflect.Value
				if et.Kind() == reflect.Ptr {
					z = reflect.New(et.Elem())
				} else {
					z = reflect.Zero(et)
				}
				v.Set(reflect.Append(v, z))
			})
			for i := 0; i < n; i++ {
				i := i
				add(fmt.Sprintf("drop[%d]", i), func(v reflect.Value) {
					nv := reflect.MakeSlice(v.Type(), 0, v.Len())
					for j := 0; j < v.Len(); j++ {
						if j != i {
							nv = reflect.Append(nv, v.Index(j))
						}
					}
					v.Set(nv)
				})
				add(fmt.Sprintf("dup[%d]", i), func(v reflect.Value) { v.Set(reflect.Append(v, v.Index(i))) })
				if i+1 < n {
					add(fmt.Sprintf("swap[%d,%d]", i, i+1), func(v reflect.Value) {
						a, b := v.Index(i).Interface(), v.Index(i+1).Interface()
						v.Index(i).Set(reflect.ValueOf(b))
						v.Index(i + 1).Set(reflect.ValueOf(a))
					})
				}
				ep := append(append([]sel{}, p[:len(p)-1]...), sel{field: p[len(p)-1].field, idx: i})
				ev := fv.Index(i)
				if et.Kind() == reflect.Ptr {
					walkMut(ev, ep, out)
				} else {
					leafMut(ev, ep, out)
				}
			}
		}
	case reflect.Map:
		if fv.Type().Key().Kind() != reflect.String {
			return
		}
		add("insert-entry", func(v reflect.Value) {
			if v.IsNil() {
				v.Set(reflect.MakeMap(v.Type()))
			}
			var z reflect.Value
			switch v.Type().Elem().Kind() {
			case reflect.String:
				z = reflect.ValueOf("x")
			case reflect.Slice:
				z = reflect.ValueOf([]byte("x"))
			default:
				z = reflect.Zero(v.Type().Elem())
			}
			v.SetMapIndex(reflect.ValueOf("zz-added"), z)
		})
		var keys []string
		for _, k := range fv.MapKeys() {
			keys = append(keys, k.String())
		}
		sortStrings(keys)
		for _, k := range keys {
			k := k
			add(fmt.Sprintf("drop-entry[%q]", k), func(v reflect.Value) { v.SetMapIndex(reflect.ValueOf(k), reflect.Value{}) })
			add(fmt.Sprintf("alter-entry[%q]", k), func(v reflect.Value) {
				old := v.MapIndex(reflect.ValueOf(k))
				switch old.Kind() {
				case reflect.String:
					v.SetMapIndex(reflect.ValueOf(k), reflect.ValueOf(old.String()+"x"))
				case reflect.Slice:
					v.SetMapIndex(reflect.ValueOf(k), reflect.ValueOf(append(append([]byte{}, old.Bytes()...), 'x')))
				}
			})
		}
	case reflect.Ptr:
		if fv.Type().Elem().Kind() != reflect.Struct {
			return
		}
		if fv.IsNil() {
			add("allocate", func(v reflect.Value) { v.Set(reflect.New(v.Type().Elem())) })
		} else {
			add("clear", func(v reflect.Value) { v.Set(reflect.Zero(v.Type())) })
			walkMut(fv, p, out)
		}
	}
}
