package sim

// C14 - quorum certificates: entry kinds, certificate builder and the independent verifier.
//
// The verifier is written from the property statement only: a certificate for proposal id P, for
// a view whose validator set is V and whose votes were collected by c, is SUFFICIENT iff it
// carries valid signatures over P from at least n - floor((n-1)/3) - 1 DISTINCT members of V other
// than c. "valid" = the public key of the entry hashes to the entry's address, the address is in V
// and the ECDSA signature verifies over exactly P under that key (checked with sim.Crypto, not
// with the chained-bft crypto wrapper).

import (
	"encoding/hex"
	"fmt"

	bftpb "github.com/xuperchain/xupercore/kernel/consensus/base/driver/chained-bft/pb"
)

// Entry kinds of a certificate under test.
const (
	C14Valid    = 0 // valid signature of member W over the certified id (W == collector: "collector's own"); X = which of several distinct signatures (a repeated member can repeat bytes or sign afresh)
	C14Outsider = 1 // valid signature of non-member W (own key, own address)
	C14WrongID  = 2 // valid signature of member W over another id (X: 0 child proposal, 1 parent, 2 one bit off)
	C14Corrupt  = 3 // member W, own key, damaged signature (X: 0 last byte flipped, 1 empty, 2 truncated)
	C14Mismatch = 4 // key / address mismatch (X: 0 member address + outsider key and signature, 1 outsider address + member key and signature, 2 member address + key and signature of the next member)
)

var c14KindNames = []string{"valid", "outsider", "wrongid", "corrupt", "mismatch"}

// C14Entry is one signature entry of a certificate under test.
type C14Entry struct {
	K int `json:"k"`
	W int `json:"w"`
	X int `json:"x,omitempty"`
}

func (e C14Entry) String() string {
	return fmt.Sprintf("%s:%d.%d", c14KindNames[e.K], e.W, e.X)
}

// C14Cert is a certificate under test: entries in presentation order. Batch (collect path only)
// gives the number of entries carried by each successive vote message (missing / 0 = one each).
type C14Cert struct {
	E     []C14Entry `json:"e"`
	Batch []int      `json:"batch,omitempty"`
}

func (c *C14Cert) String() string {
	s := "["
	for i, e := range c.E {
		if i > 0 {
			s += " "
		}
		s += e.String()
	}
	return s + "]"
}

// C14Threshold is the statement's threshold for a validator set of n members.
func C14Threshold(n int) int { return n - (n-1)/3 - 1 }

// c14Keys is the identity universe of one run.
type c14Keys struct {
	N         int
	Members   []*Acct // validator set in force for the certified view, in validator-list order
	Outs      []*Acct // three identities outside that set
	Coll      int     // index (in Members) of the collector; -1: the collector is not a member of this set
	CollAddr  string  // address of the collector
	MemberSet map[string]bool
	Thr       int

	IDCert   []byte // the certified proposal id
	IDParent []byte
	IDChild  []byte

	built map[C14Entry]*bftpb.QuorumCertSign
	truth map[C14Entry]string // by construction: address of the member the entry validly speaks for ("" = none)
	memo  map[string]bool     // verifier memo: entry bytes -> valid signature (key/address/sig) over IDCert
	bmemo map[string]bool     // entry bytes -> the public key hashes to the (member) address, signature not considered
}

func newC14Keys(n, rot, coll int) *c14Keys {
	initEnv()
	if n+3 > len(Accts) {
		panic("c14: not enough fixed identities")
	}
	k := &c14Keys{N: n, Coll: coll, Thr: C14Threshold(n), MemberSet: map[string]bool{}, built: map[C14Entry]*bftpb.QuorumCertSign{}, truth: map[C14Entry]string{}, memo: map[string]bool{}, bmemo: map[string]bool{}}
	for i := 0; i < n; i++ {
		a := Accts[(rot+i)%len(Accts)]
		k.Members = append(k.Members, a)
		k.MemberSet[a.Addr] = true
	}
	for j := 0; j < 3; j++ {
		k.Outs = append(k.Outs, Accts[(rot+n+j)%len(Accts)])
	}
	mk := func(tag string) []byte {
		b := make([]byte, 32)
		copy(b, []byte(fmt.Sprintf("c14-%s-%d-%d", tag, n, rot)))
		b[31] = 0x5a
		return b
	}
	k.IDParent, k.IDCert, k.IDChild = mk("genesis"), mk("certified"), mk("child")
	k.CollAddr = k.Members[coll].Addr
	return k
}

// newC14KeysFor builds the identity universe for an explicit validator set (the set in force for
// the certified view, in list order), explicit outsiders (at least one) and a collector that need
// not be a member of the set (a certificate for the last view of a validator set is collected by
// the producer of the next view, who may belong to the next set only).
func newC14KeysFor(members, outs []*Acct, coll *Acct, idCert, idParent, idChild []byte) *c14Keys {
	initEnv()
	if len(members) == 0 || len(outs) == 0 {
		panic("c14: empty validator set or no outsider")
	}
	n := len(members)
	k := &c14Keys{N: n, Coll: -1, CollAddr: coll.Addr, Thr: C14Threshold(n), MemberSet: map[string]bool{}, built: map[C14Entry]*bftpb.QuorumCertSign{}, truth: map[C14Entry]string{}, memo: map[string]bool{}, bmemo: map[string]bool{}}
	for i, a := range members {
		if k.MemberSet[a.Addr] {
			panic("c14: validator listed twice")
		}
		k.Members = append(k.Members, a)
		k.MemberSet[a.Addr] = true
		if a.Addr == coll.Addr {
			k.Coll = i
		}
	}
	for _, o := range outs {
		if k.MemberSet[o.Addr] {
			panic("c14: outsider is a member")
		}
		k.Outs = append(k.Outs, o)
	}
	k.IDCert, k.IDParent, k.IDChild = idCert, idParent, idChild
	return k
}

func (k *c14Keys) Addrs() []string {
	var s []string
	for _, m := range k.Members {
		s = append(s, m.Addr)
	}
	return s
}

func c14Sign(a *Acct, msg []byte) []byte {
	s, err := Crypto.SignECDSA(a.SK, msg)
	must(err)
	return s
}

// Build returns the wire entry for e (memoised: the same C14Entry value is the same bytes).
func (k *c14Keys) Build(e C14Entry) *bftpb.QuorumCertSign {
	if b, ok := k.built[e]; ok {
		return b
	}
	var out *bftpb.QuorumCertSign
	speaksFor := ""
	switch e.K {
	case C14Valid:
		m := k.Members[e.W%k.N]
		out = &bftpb.QuorumCertSign{Address: m.Addr, PublicKey: m.Pub, Sign: c14Sign(m, k.IDCert)}
		speaksFor = m.Addr
	case C14Outsider:
		o := k.Outs[e.W%len(k.Outs)]
		out = &bftpb.QuorumCertSign{Address: o.Addr, PublicKey: o.Pub, Sign: c14Sign(o, k.IDCert)}
	case C14WrongID:
		m := k.Members[e.W%k.N]
		var id []byte
		switch e.X % 3 {
		case 0:
			id = k.IDChild
		case 1:
			id = k.IDParent
		default:
			id = append([]byte{}, k.IDCert...)
			id[7] ^= 1
		}
		out = &bftpb.QuorumCertSign{Address: m.Addr, PublicKey: m.Pub, Sign: c14Sign(m, id)}
	case C14Corrupt:
		m := k.Members[e.W%k.N]
		sig := c14Sign(m, k.IDCert)
		switch e.X % 3 {
		case 0:
			sig[len(sig)-1] ^= 0x01
		case 1:
			sig = nil
		default:
			sig = sig[:len(sig)/2]
		}
		out = &bftpb.QuorumCertSign{Address: m.Addr, PublicKey: m.Pub, Sign: sig}
	case C14Mismatch:
		m := k.Members[e.W%k.N]
		o := k.Outs[0]
		x := e.X % 3
		if x == 2 && k.N == 1 {
			x = 0
		}
		switch x {
		case 0:
			out = &bftpb.QuorumCertSign{Address: m.Addr, PublicKey: o.Pub, Sign: c14Sign(o, k.IDCert)}
		case 1:
			out = &bftpb.QuorumCertSign{Address: o.Addr, PublicKey: m.Pub, Sign: c14Sign(m, k.IDCert)}
		default:
			m2 := k.Members[(e.W+1)%k.N]
			out = &bftpb.QuorumCertSign{Address: m.Addr, PublicKey: m2.Pub, Sign: c14Sign(m2, k.IDCert)}
		}
	default:
		panic("c14: bad entry kind")
	}
	k.built[e] = out
	k.truth[e] = speaksFor
	// cross-check the crypto verifier against the construction (a disagreement is a harness defect)
	got := k.validFor(out) != ""
	if got != (speaksFor != "") {
		panic(fmt.Sprintf("c14 harness: verifier says %v for constructed entry %v", got, e))
	}
	return out
}

// validFor is the independent verifier for one entry: the member address the entry validly
// speaks for, or "".
func (k *c14Keys) validFor(s *bftpb.QuorumCertSign) string {
	if s == nil || !k.MemberSet[s.Address] {
		return ""
	}
	key := s.Address + "|" + s.PublicKey + "|" + hex.EncodeToString(s.Sign)
	if v, ok := k.memo[key]; ok {
		if v {
			return s.Address
		}
		return ""
	}
	ok := func() bool {
		pk, err := Crypto.GetEcdsaPublicKeyFromJsonStr(s.PublicKey)
		if err != nil || pk == nil {
			return false
		}
		addr, err := Crypto.GetAddressFromPublicKey(pk)
		if err != nil || addr != s.Address {
			return false
		}
		k.bmemo[key] = true
		if len(s.Sign) == 0 {
			return false
		}
		v, err := Crypto.VerifyECDSA(pk, s.Sign, k.IDCert)
		return err == nil && v
	}()
	k.memo[key] = ok
	if ok {
		return s.Address
	}
	return ""
}

// boundOnly reports an entry that names a member and carries that member's key but whose signature
// does not verify over the certified id (only used to tell listed findings apart).
func (k *c14Keys) boundOnly(s *bftpb.QuorumCertSign) bool {
	if k.validFor(s) != "" {
		return false
	}
	return k.bmemo[s.Address+"|"+s.PublicKey+"|"+hex.EncodeToString(s.Sign)]
}

// c14Verdict is what the statement says about one certificate.
type c14Verdict struct {
	Others   int // distinct members other than the collector with a valid signature over the id
	Distinct int // distinct members (collector included) with a valid signature
	Multi    int // valid member entries counted with multiplicity (collector included)
	Entries  int
	Thr      int
	// classification aids (never decide sufficiency)
	BoundDistinct int // distinct members named by entries carrying the member's own key, whatever the signature
	BadSig        int // entries with the member's own key whose signature does not verify
}

func (v c14Verdict) Sufficient() bool { return v.Others >= v.Thr }

func (v c14Verdict) String() string {
	return fmt.Sprintf("entries=%d valid-with-multiplicity=%d distinct-members=%d distinct-members-besides-collector=%d required=%d", v.Entries, v.Multi, v.Distinct, v.Others, v.Thr)
}

// Judge evaluates wire entries against the statement.
func (k *c14Keys) Judge(signs []*bftpb.QuorumCertSign) c14Verdict {
	v := c14Verdict{Thr: k.Thr, Entries: len(signs)}
	seen := map[string]bool{}
	coll := k.CollAddr
	bound := map[string]bool{}
	for _, s := range signs {
		a := k.validFor(s)
		if a == "" {
			if k.boundOnly(s) {
				v.BadSig++
				if !bound[s.Address] {
					bound[s.Address] = true
					v.BoundDistinct++
				}
			}
			continue
		}
		if !bound[a] {
			bound[a] = true
			v.BoundDistinct++
		}
		v.Multi++
		if seen[a] {
			continue
		}
		seen[a] = true
		v.Distinct++
		if a != coll {
			v.Others++
		}
	}
	return v
}

// Classify names the oracle clause for an ACCEPTED certificate that is not sufficient. Two causes
// are told apart because they are separately listed findings on the unchanged tree; everything
// else is the generic clause.
func (v c14Verdict) Classify() string {
	switch {
	case v.Distinct >= v.Thr:
		// would be sufficient if the collector's own signature were allowed to count
		return "collector-own-signature-counted"
	case v.Multi >= v.Thr:
		// would be sufficient if repeated signatures of one member were allowed to count
		return "repeated-signer-counted"
	}
	return "below-quorum-accepted"
}
