package sim

import (
	"bytes"
	"encoding/json"
	"fmt"
	"math/big"
	"sort"
	"strings"
	"time"

	"github.com/xuperchain/xupercore/bcs/consensus/tdpos"
	lpb "github.com/xuperchain/xupercore/bcs/ledger/xledger/xldgpb"
	"github.com/xuperchain/xupercore/kernel/consensus"
	"github.com/xuperchain/xupercore/kernel/contract"
	"github.com/xuperchain/xupercore/lib/xsimrt"
	pb "github.com/xuperchain/xupercore/protos"
)

// Engine C19 — governance tokens. One or two real nodes (single consensus, fee-less chain); the
// plan calls the kernel contracts $govern_token and $proposal through the real pipeline
// (Chain.PreExec -> signed tx -> Chain.SubmitTx -> block -> timer transaction), mines, and lets a
// second node build a competing chain that the first one reorganises to.

// G19Step is one step of a C19 plan. Selectors are resolved against the live state at run time.
type G19Step struct {
	Op  string `json:"op"`            // init transfer transfer2 propose vote thaw lock unlock mine sync
	N   int    `json:"n,omitempty"`   // node
	A   int    `json:"a,omitempty"`   // initiator (index into the account set)
	B   int    `json:"b,omitempty"`   // receiver / proposal selector
	C   int    `json:"c,omitempty"`   // second receiver / lock type / trigger target
	Amt int    `json:"amt,omitempty"` // amount class
	H   int    `json:"h,omitempty"`   // stop height offset
	H2  int    `json:"h2,omitempty"`  // trigger height offset
	Pct int    `json:"pct,omitempty"` // min_vote_percent class
	K   int    `json:"k,omitempty"`   // number of blocks (mine)
}

// G19Plan is a complete plan.
type G19Plan struct {
	Seed    uint64 `json:"seed"`
	MapSeed uint64 `json:"map_seed"`
	Nodes   int    `json:"nodes"`
	Predist int    `json:"predist"`
	Avoid   bool   `json:"avoid"` // skip the steps that trigger the known defects (explore behind them)
	// Tolerate (never generated; hand-written replays only): go on after the known defect
	// "transfer resets the receiver's locked amounts" to show what follows from it
	Tolerate bool      `json:"tolerate,omitempty"`
	Steps    []G19Step `json:"steps"`
}

// account set: two addresses that start with a lower-case letter, two with an upper-case letter
var c19AcctIdx = []int{0, 1, 2, 5}

// further receivers: a contract-account name, fresh names (one with the key separator)
var c19Fresh = []string{"XC1111111111111111@xuper", "fresh", "a_b|c"}

var c19Predists = []map[int]string{
	{0: "5000", 1: "2500", 2: "1200"},
	{0: "1000", 1: "999", 2: "3000", 5: "1"},
	{0: "100000000000000000000", 1: "2000", 2: "1001"},
	{0: "1500", 1: "0", 2: "1500"},
}

type c19Run struct {
	rc    *RunCtx
	w     *World
	plan  *G19Plan
	step  int
	op    string
	eff   map[string]*c19Eff // txid -> justified effect
	accts map[string]bool    // every account name seen
	// blocks whose timer transaction reads versions written by transactions placed AFTER it in the
	// same block (known defect of block assembly, see c19ClauseTimerOrder)
	tainted map[string]bool
	stop    bool // end the run after this step (a node is beyond repair for a known reason)
}

func (r *c19Run) viol(f *c19Fail) *Violation {
	return &Violation{Prop: "C19", Clause: f.Clause, Step: r.step, Op: r.op, Msg: f.Msg}
}

func (r *c19Run) logf(format string, a ...interface{}) {
	r.rc.Log.Add("%d %s: %s", r.step, r.op, fmt.Sprintf(format, a...))
}

func (r *c19Run) acctList() []string {
	var l []string
	for a := range r.accts {
		l = append(l, a)
	}
	sort.Strings(l)
	return l
}

func (r *c19Run) note(v *govView) {
	for a := range v.T {
		r.accts[a] = true
	}
}

// ExecC19 executes a plan.
func ExecC19(plan *G19Plan, rc *RunCtx) *Violation {
	pd := c19Predists[abs(plan.Predist)%len(c19Predists)]
	g := &Genesis{Predist: pd, NoFee: true, Award: "1000000"}
	w := NewWorld(g, &Knobs{})
	w.OnBoot = append(w.OnBoot, RegisterC19Stake)
	rc.OnCleanup(w.Close)
	rc.AttachHooks(&xsimrt.H{MapSeed: plan.MapSeed})
	r := &c19Run{rc: rc, w: w, plan: plan, eff: map[string]*c19Eff{}, accts: map[string]bool{}, tainted: map[string]bool{}}
	for _, i := range c19AcctIdx {
		r.accts[Accts[i].Addr] = true
	}
	for _, f := range c19Fresh {
		r.accts[f] = true
	}
	nn := plan.Nodes
	if nn < 1 {
		nn = 1
	}
	if nn > 2 {
		nn = 2
	}
	for i := 0; i < nn; i++ {
		if _, err := w.AddNode(fmt.Sprintf("n%d", i), 0); err != nil {
			panic(fmt.Sprintf("boot: %v", err))
		}
	}
	for i := range plan.Steps {
		r.step = i
		st := &plan.Steps[i]
		r.op = st.Op
		xsimrt.SetEpoch(uint64(i + 1))
		time.Sleep(time.Millisecond)
		rc.St.Steps++
		rc.St.Ops[st.Op]++
		if v := r.doStep(st); v != nil {
			return v
		}
		rc.RunBG()
		if r.stop {
			return nil
		}
		for ni := range w.Nodes {
			if v := r.checkNode(w.Nodes[ni]); v != nil {
				return v
			}
		}
	}
	return nil
}

// chainTxs returns the transactions of the node's applied chain (state tip back to the root), in
// order, with the height of their block.
func (r *c19Run) chainTxs(n *Node) ([]*lpb.Transaction, []int64) {
	var blocks []*lpb.InternalBlock
	id := n.S.GetLatestBlockid()
	for {
		b, err := n.L.QueryBlock(id)
		if err != nil {
			panic(fmt.Sprintf("c19: query block %x: %v", id, err))
		}
		if b.Height == 0 {
			break
		}
		blocks = append(blocks, b)
		id = b.PreHash
	}
	var txs []*lpb.Transaction
	var hs []int64
	for i := len(blocks) - 1; i >= 0; i-- {
		for _, t := range blocks[i].Transactions {
			txs = append(txs, t)
			hs = append(hs, blocks[i].Height)
		}
	}
	return txs, hs
}

// models folds the recorded effects over the node's chain (confirmed) and chain + pool.
func (r *c19Run) models(n *Node) (conf, pool *c19Model) {
	m := newC19Model()
	txs, _ := r.chainTxs(n)
	for _, t := range txs {
		if t.Coinbase {
			continue
		}
		e := r.eff[string(t.Txid)]
		if e == nil {
			if len(t.ContractRequests) == 0 && !t.Autogen {
				continue
			}
			panic(fmt.Sprintf("c19: no recorded effect for tx %x (autogen=%v)", t.Txid, t.Autogen))
		}
		m.apply(e)
	}
	conf = m.clone()
	ptx, err := n.S.GetUnconfirmedTx(false)
	if err != nil {
		panic(fmt.Sprintf("c19: pool: %v", err))
	}
	for _, t := range ptx {
		e := r.eff[string(t.Txid)]
		if e == nil {
			panic(fmt.Sprintf("c19: no recorded effect for pool tx %x", t.Txid))
		}
		m.apply(e)
	}
	return conf, m
}

// checkNode runs the state oracles on both views of a node.
func (r *c19Run) checkNode(n *Node) *Violation {
	mc, mp := r.models(n)
	pv := c19PoolView(n)
	r.note(pv)
	cv, qmis := c19ConfView(n, r.acctList())
	if qmis != "" {
		return r.viol(&c19Fail{"query-disagrees-with-state", n.Name + ": " + qmis})
	}
	if f := c19Invariants(cv, mc.Supply, n.Name+" confirmed state"); f != nil {
		return r.viol(f)
	}
	if f := c19Invariants(pv, mp.Supply, n.Name+" state+pool"); f != nil {
		return r.viol(f)
	}
	if f := c19CompareLocks(cv, mc, n.Name+" confirmed state"); f != nil {
		return r.viol(f)
	}
	if f := c19CompareLocks(pv, mp, n.Name+" state+pool"); f != nil {
		return r.viol(f)
	}
	r.rc.St.States[n.Name[1:]+pv.String()] = true
	locked := false
	for _, x := range pv.L {
		if x.Sign() > 0 {
			locked = true
		}
	}
	if locked {
		r.rc.St.Probes["state-with-locks-checked"]++
	}
	return nil
}

// ---- amounts ------------------------------------------------------------------------------------

// amount resolves an amount class against the sender's current balance record.
func c19Amount(class int, v *govView, from string) string {
	t := zget(v.T, from)
	maxL := new(big.Int)
	for k, x := range v.L {
		if strings.HasPrefix(k, from+"|") && x.Cmp(maxL) > 0 {
			maxL = x
		}
	}
	avail := new(big.Int).Sub(t, maxL)
	one := big.NewInt(1)
	switch abs(class) % 16 {
	case 0:
		return "1"
	case 1:
		return "0"
	case 2:
		return avail.String() // everything that is not locked
	case 3:
		return new(big.Int).Add(avail, one).String() // one more than available
	case 4:
		return t.String() // the whole balance (more than available when something is locked)
	case 5:
		return new(big.Int).Add(t, one).String()
	case 6:
		return "1000000000000000000000000000000" // huge
	case 7:
		return "-5"
	case 8:
		return "abc"
	case 9:
		return new(big.Int).Rsh(avail, 1).String()
	case 10:
		return "1000"
	case 11:
		return "700"
	case 12:
		return new(big.Int).Rsh(t, 1).String()
	case 13:
		return "+7"
	case 14:
		return new(big.Int).Sub(avail, one).String()
	default:
		return "250"
	}
}

// ---- steps --------------------------------------------------------------------------------------

func (r *c19Run) acct(i int) *Acct { return Accts[c19AcctIdx[abs(i)%len(c19AcctIdx)]] }

func (r *c19Run) receiver(i int) string {
	all := len(c19AcctIdx) + len(c19Fresh)
	j := abs(i) % all
	if j < len(c19AcctIdx) {
		return Accts[c19AcctIdx[j]].Addr
	}
	return c19Fresh[j-len(c19AcctIdx)]
}

// c19StakeContract is the name of the consensus kernel contract that may lock governance tokens.
const c19StakeContract = "$tdpos"

// RegisterC19Stake registers the stand-in for the consensus contract's nominate / vote methods: it
// locks (or releases) the initiator's tokens under the lock type "tdpos" through the real
// $govern_token Lock / UnLock, which accept calls from $tdpos.
func RegisterC19Stake(n *Node) {
	reg := n.Ctx.Contract.GetKernRegistry()
	// the real nominate / revoke / vote / revoke-vote methods of $tdpos
	cc, ok := consensus.XsimCtx(n.Ctx.Consensus)
	if !ok {
		panic("c19: node without pluggable consensus")
	}
	cfg := fmt.Sprintf(`{"timestamp":"946684800000000000","proposer_num":"1","period":"3000","alternate_interval":"3000","term_interval":"6000","block_num":"10","vote_unit_price":"1","init_proposer":{"1":[%q]}}`, Accts[0].Addr)
	if !tdpos.XsimNewStandalone(cc, cfg) {
		panic("c19: cannot build the tdpos instance that registers the $tdpos methods")
	}
	reg.RegisterKernMethod(c19StakeContract, "xsimStake", func(k contract.KContext) (*contract.Response, error) {
		method := "Lock"
		if len(k.Args()["unlock"]) > 0 {
			method = "UnLock"
		}
		// like the real consensus contract it keeps its own record and never releases more than it locked
		// ($govern_token.UnLock trusts its callers and does not check)
		amt, ok := new(big.Int).SetString(string(k.Args()["amount"]), 10)
		if !ok || amt.Sign() < 0 {
			return nil, fmt.Errorf("xsimStake: bad amount")
		}
		staked := new(big.Int)
		if v, err := k.Get("xsimstake", []byte(k.Initiator())); err == nil && len(v) > 0 {
			staked.SetString(string(v), 10)
		}
		if method == "UnLock" {
			if amt.Cmp(staked) > 0 {
				return nil, fmt.Errorf("xsimStake: %s staked, cannot release %s", staked, amt)
			}
			staked.Sub(staked, amt)
		} else {
			staked.Add(staked, amt)
		}
		args := map[string][]byte{"from": []byte(k.Initiator()), "amount": k.Args()["amount"], "lock_type": []byte("tdpos")}
		resp, err := k.Call("xkernel", "$govern_token", method, args)
		if err != nil {
			return nil, err
		}
		if err := k.Put("xsimstake", []byte(k.Initiator()), []byte(staked.String())); err != nil {
			return nil, err
		}
		k.AddResourceUsed(contract.Limits{Cpu: 1})
		return resp, nil
	})
}

func kreq(contract, method string, args map[string]string) *pb.InvokeRequest {
	m := map[string][]byte{}
	for k, v := range args {
		m[k] = []byte(v)
	}
	return &pb.InvokeRequest{ModuleName: "xkernel", ContractName: contract, MethodName: method, Args: m}
}

// invoke pre-executes the requests, builds the transaction and submits it; the transition of the
// node's state+pool view is justified against op.
func (r *c19Run) invoke(n *Node, from *Acct, reqs []*pb.InvokeRequest, op *c19Op, m *c19Model) *Violation {
	pre := c19PoolView(n)
	auth, signers := []string{from.Addr}, []*Acct(nil)
	if op.Co != nil && op.Co != from {
		auth, signers = []string{from.Addr, op.Co.Addr}, []*Acct{from, op.Co}
	}
	resp, err := n.Chain.PreExec(n.BaseCtx(), reqs, from.Addr, auth)
	if err != nil {
		r.rc.St.Probes["preexec-refused"]++
		r.rc.St.Probes["refused-"+op.Kind]++
		r.logf("preexec refused: %v", err)
		return nil
	}
	if op.Kind == "propose" {
		// the id of the new proposal is the body of the last response
		if len(resp.Responses) == 0 {
			panic("c19: propose without response")
		}
		op.Pid = string(resp.Responses[len(resp.Responses)-1].Body)
		if op.PropArgs != nil {
			op.PropArgs.ID = op.Pid
		}
	}
	sp := &TxSpec{From: from, Invoke: resp}
	if signers != nil {
		sp.AuthRequire, sp.Signers = auth, signers
	}
	if resp.GasUsed > 0 {
		// the real $tdpos methods charge a fee: pay it from the initiator's outputs
		us, _ := n.ListUtxos(from.Addr)
		got, need := new(big.Int), big.NewInt(resp.GasUsed)
		for _, u := range us {
			if got.Cmp(need) >= 0 {
				break
			}
			if u.Frozen == 0 {
				sp.Inputs = append(sp.Inputs, u)
				got.Add(got, u.Amount)
			}
		}
		if got.Cmp(need) < 0 {
			r.rc.St.Probes["fee-not-affordable"]++
			r.logf("skip (fee %d not affordable)", resp.GasUsed)
			return nil
		}
	}
	tx, err := BuildTx(sp)
	if err != nil {
		panic(fmt.Sprintf("c19: build tx: %v", err))
	}
	serr := n.Chain.SubmitTx(n.BaseCtx(), CloneTx(tx))
	post := c19PoolView(n)
	r.note(post)
	op.Refused = serr != nil
	if serr != nil {
		r.rc.St.Probes["submit-refused"]++
		r.rc.St.Probes["refused-"+op.Kind]++
	} else {
		r.rc.St.Probes["admitted-"+op.Kind]++
	}
	e, f := c19Justify(op, pre, post, m)
	r.logf("tx %s admitted=%v pid=%s dT{%s} dL{%s}", hx(tx.Txid), serr == nil, op.Pid, fmtDelta(diffMaps(pre.T, post.T)), fmtDelta(diffMaps(pre.L, post.L)))
	if f != nil && f.Clause == c19ClauseRecvLocks && r.plan.Tolerate {
		r.logf("tolerated: %s", f.Msg)
		e, f = &c19Eff{Kind: op.Kind, DT: diffMaps(pre.T, post.T), DL: diffMaps(pre.L, post.L), Rec: map[string]*big.Int{}}, nil
	}
	if f != nil {
		return r.viol(f)
	}
	if serr == nil {
		r.eff[string(tx.Txid)] = e
		r.countEffect(op, e, pre, post)
	}
	return nil
}

func (r *c19Run) countEffect(op *c19Op, e *c19Eff, pre, post *govView) {
	p := r.rc.St.Probes
	switch op.Kind {
	case "transfer":
		if len(e.DT) > 0 {
			p["transfer-moved-tokens"]++
			locked := false
			for k, x := range post.L {
				if strings.HasPrefix(k, op.From+"|") && x.Sign() > 0 {
					locked = true
					if zget(post.T, op.From).Cmp(x) == 0 {
						p["transfer-down-to-locked-amount"]++
					}
				}
			}
			if locked {
				p["transfer-by-locked-sender"]++
			}
			if _, had := pre.T[op.To]; !had {
				p["transfer-to-fresh-account"]++
			}
		} else {
			p["transfer-of-nothing"]++
		}
	case "propose", "vote":
		if len(e.DL) > 0 {
			p[op.Kind+"-locked"]++
		}
	case "thaw":
		if len(e.DL) > 0 {
			p["thaw-unlocked"]++
		}
	case "auto":
		if len(e.DL) > 0 {
			p["timer-unlocked"]++
		}
	}
}

func (r *c19Run) doStep(st *G19Step) *Violation {
	n := r.w.Nodes[abs(st.N)%len(r.w.Nodes)]
	_, m := r.models(n)
	pv := c19PoolView(n)
	from := r.acct(st.A)
	switch st.Op {
	case "init":
		return r.invoke(n, from, []*pb.InvokeRequest{kreq("$govern_token", "Init", nil)}, &c19Op{Kind: "init", From: from.Addr}, m)
	case "transfer", "transfer2":
		to := r.receiver(st.B)
		amt := c19Amount(st.Amt, pv, from.Addr)
		op := &c19Op{Kind: "transfer", From: from.Addr, To: to}
		reqs := []*pb.InvokeRequest{kreq("$govern_token", "Transfer", map[string]string{"to": to, "amount": amt})}
		tos := []string{to}
		if st.Op == "transfer2" {
			op.To2 = r.receiver(st.C)
			tos = append(tos, op.To2)
			reqs = append(reqs, kreq("$govern_token", "Transfer", map[string]string{"to": op.To2, "amount": c19Amount(st.H, pv, from.Addr)}))
		}
		if false { // the two defects these steps used to trigger are repaired (5ab918d): nothing to avoid any more
			for _, t := range tos {
				if t == from.Addr {
					r.logf("skip (avoid: transfer to self)")
					r.rc.St.Probes["avoided-known-defect"]++
					return nil
				}
				for k, x := range pv.L {
					if strings.HasPrefix(k, t+"|") && x.Sign() != 0 {
						r.logf("skip (avoid: receiver has locked amounts)")
						r.rc.St.Probes["avoided-known-defect"]++
						return nil
					}
				}
			}
		}
		r.logf("%s -> %v amount %s", shortAcct(from.Addr), tos, amt)
		return r.invoke(n, from, reqs, op, m)
	case "propose":
		h := n.L.GetMeta().TrunkHeight
		// h: already past (never settles); h+1: the block that will contain the proposal
		stop := h + int64([]int{2, 3, 1, 4, 0, 2, 3}[abs(st.H)%7])
		pa := &c19Prop{Proposer: from.Addr, Stop: stop}
		pct := []string{"51", "100", "60", "51", "51", "50", "101", "x"}[abs(st.Pct)%8]
		trig := map[string]interface{}{"module": "xkernel", "args": map[string]interface{}{}}
		switch abs(st.C) % 5 {
		case 0, 1:
			trig["contract"], trig["method"] = "$govern_token", "TotalSupply"
		case 2:
			trig["contract"], trig["method"] = "$govern_token", "UnLock"
		case 3:
			trig["contract"], trig["method"] = "$govern_token", "Init"
		case 4:
			trig["contract"], trig["method"] = "$nope", "x"
		}
		if st.H2%4 != 0 {
			pa.Trig = stop + int64(st.H2%4)
			trig["height"] = pa.Trig
		}
		pj, _ := json.Marshal(map[string]interface{}{
			"args":    map[string]interface{}{"min_vote_percent": pct, "stop_vote_height": fmt.Sprint(stop)},
			"trigger": trig,
		})
		r.logf("%s proposes stop=%d trig=%d pct=%s", shortAcct(from.Addr), pa.Stop, pa.Trig, pct)
		return r.invoke(n, from, []*pb.InvokeRequest{kreq("$proposal", "Propose", map[string]string{"proposal": string(pj)})}, &c19Op{Kind: "propose", From: from.Addr, PropArgs: pa}, m)
	case "vote", "thaw":
		pid := r.pickProposal(m, st.B, n.L.GetMeta().TrunkHeight)
		op := &c19Op{Kind: st.Op, From: from.Addr, Pid: pid}
		if st.Op == "thaw" {
			if p := m.Props[pid]; p != nil && st.C%4 != 3 {
				// mostly the proposer himself (anybody else is refused)
				from = acctByAddr(p.Proposer)
				op.From = from.Addr
			}
			r.logf("%s thaws %s", shortAcct(from.Addr), pid)
			return r.invoke(n, from, []*pb.InvokeRequest{kreq("$proposal", "Thaw", map[string]string{"proposal_id": pid})}, op, m)
		}
		amt := c19Amount(st.Amt+2, pv, from.Addr) // (class 0 of a vote: everything that is not locked)
		r.logf("%s votes %s on %s", shortAcct(from.Addr), amt, pid)
		return r.invoke(n, from, []*pb.InvokeRequest{kreq("$proposal", "Vote", map[string]string{"proposal_id": pid, "amount": amt})}, op, m)
	case "stake", "unstake":
		// a nomination / election-vote style lock: the consensus kernel contract ($tdpos) locks or
		// releases the INITIATOR's tokens under the lock type "tdpos" (stand-in method xsimStake,
		// registered by the harness because the chain runs the single consensus)
		amt := c19Amount(st.Amt, pv, from.Addr)
		args := map[string]string{"amount": amt}
		if st.Op == "unstake" {
			args["unlock"] = "1"
		}
		r.logf("%s %ss %s", shortAcct(from.Addr), st.Op, amt)
		return r.invoke(n, from, []*pb.InvokeRequest{kreq(c19StakeContract, "xsimStake", args)}, &c19Op{Kind: st.Op, From: from.Addr, Pid: "stake"}, m)
	case "tnominate", "trevoke", "tvote", "trevokevote":
		// the REAL $tdpos kernel methods (a tdpos instance is built beside the single consensus only to
		// register them). They read the election records through a snapshot at a confirmed height, so the
		// pool is mined first and the height passed is the tip: every record they see is current.
		if v := r.mine(n); v != nil {
			return v
		}
		_, m = r.models(n)
		pv = c19PoolView(n)
		cand := Accts[c19AcctIdx[abs(st.B)%len(c19AcctIdx)]]
		amt := c19Amount(st.Amt, pv, from.Addr)
		if abs(st.Amt)%4 != 3 {
			// mostly amounts that can succeed: 1, half of what is free, 1000
			amt = c19Amount([]int{0, 9, 10}[abs(st.Amt)%4], pv, from.Addr)
		}
		// three times in four a revocation / vote aims at something the model knows to be outstanding
		if abs(st.C)%4 != 3 {
			want := map[string]string{"trevoke": "nom:", "tvote": "nom:", "trevokevote": "tv:"}[st.Op]
			var pairs [][3]string // candidate, locker, amount
			for _, k := range sortedKeys(m.Rec) {
				if want != "" && strings.HasPrefix(k, want) && m.Rec[k].Sign() > 0 {
					f := strings.Split(k[len(want):], "|")
					if len(f) == 3 {
						pairs = append(pairs, [3]string{f[0], f[1], m.Rec[k].String()})
					}
				}
			}
			if len(pairs) > 0 {
				p := pairs[abs(st.C)/4%len(pairs)]
				for _, a := range Accts {
					if a.Addr == p[0] {
						cand = a
					}
					if a.Addr == p[1] && st.Op != "tvote" {
						from = a
					}
				}
				if st.Op == "trevokevote" && abs(st.Amt)%2 == 0 {
					amt = p[2]
				}
			}
		}
		args := map[string]string{"candidate": cand.Addr, "height": fmt.Sprint(n.L.GetMeta().TrunkHeight), "amount": amt}
		method := map[string]string{"tnominate": "nominateCandidate", "trevoke": "revokeNominate", "tvote": "voteCandidate", "trevokevote": "revokeVote"}[st.Op]
		pid := "nom:" + cand.Addr
		if st.Op == "tvote" || st.Op == "trevokevote" {
			pid = "tv:" + cand.Addr
		}
		op := &c19Op{Kind: st.Op, From: from.Addr, Pid: pid}
		if st.Op == "tnominate" {
			op.Co = cand
		}
		r.logf("%s %s candidate %s amount %s", shortAcct(from.Addr), method, shortAcct(cand.Addr), amt)
		return r.invoke(n, from, []*pb.InvokeRequest{kreq(c19StakeContract, method, args)}, op, m)
	case "lock", "unlock":
		// direct calls from outside: no proposal / vote / nomination operation
		victim := r.receiver(st.B)
		lt := []string{"ordinary", "tdpos", "other"}[abs(st.C)%3]
		method := "Lock"
		if st.Op == "unlock" {
			method = "UnLock"
		}
		amt := c19Amount(st.Amt, pv, victim)
		r.logf("%s calls %s(%s,%s,%s)", shortAcct(from.Addr), method, shortAcct(victim), amt, lt)
		return r.invoke(n, from, []*pb.InvokeRequest{kreq("$govern_token", method, map[string]string{"from": victim, "amount": amt, "lock_type": lt})}, &c19Op{Kind: st.Op, From: from.Addr}, m)
	case "mine":
		for i := 0; i <= abs(st.K)%3; i++ {
			time.Sleep(time.Millisecond) // two blocks never carry the same timestamp
			if v := r.mine(n); v != nil {
				return v
			}
		}
	case "sync":
		if len(r.w.Nodes) < 2 {
			r.logf("skip (one node)")
			return nil
		}
		src := r.w.Nodes[(abs(st.N)+1)%len(r.w.Nodes)]
		return r.sync(src, n)
	}
	return nil
}

func (r *c19Run) pickProposal(m *c19Model, sel int, h int64) string {
	var ids, open []string
	for id := range m.Props {
		ids = append(ids, id)
	}
	sort.Strings(ids)
	for _, id := range ids {
		// still in its voting period and something is still locked under it
		if m.Props[id].Stop > h {
			for k, x := range m.Rec {
				if strings.HasPrefix(k, id+"|") && x.Sign() > 0 {
					open = append(open, id)
					break
				}
			}
		}
	}
	if len(ids) == 0 || abs(sel)%9 == 8 {
		return fmt.Sprint(1 + abs(sel)%3) // possibly unknown
	}
	if len(open) > 0 && abs(sel)%4 != 3 {
		return open[abs(sel)%len(open)]
	}
	return ids[abs(sel)%len(ids)]
}

// mine produces one block with the whole pool; the timer transaction of the block (if any) is the
// only operation beyond the pool's transactions and is justified as such.
func (r *c19Run) mine(n *Node) *Violation {
	if !bytes.Equal(n.L.GetMeta().TipBlockid, n.S.GetLatestBlockid()) {
		if err := n.S.Walk(n.L.GetMeta().TipBlockid, false); err != nil {
			r.logf("pre-mine walk failed")
			r.rc.St.Probes["walk-failed"]++
			return nil
		}
	}
	_, m := r.models(n)
	pre := c19PoolView(n)
	poolBefore, _ := n.S.GetUnconfirmedTx(false)
	blk, err := n.Mine(MineOpts{MaxTx: -1})
	if err != nil {
		r.logf("mine failed: %v", err)
		r.rc.St.Probes["mine-failed"]++
		return nil
	}
	post := c19PoolView(n)
	r.note(post)
	var auto *lpb.Transaction
	user := 0
	for _, t := range blk.Transactions {
		if t.Autogen && !t.Coinbase {
			auto = t
		} else if !t.Coinbase {
			user++
		}
	}
	if user != len(poolBefore) {
		panic(fmt.Sprintf("c19: block has %d user txs, pool had %d", user, len(poolBefore)))
	}
	if user > 0 {
		r.rc.St.Probes["blocks-with-gov-txs"]++
	}
	op := &c19Op{Kind: "none", Height: blk.Height}
	if auto != nil {
		op.Kind = "auto"
		r.rc.St.Probes["timer-tx"]++
	}
	e, f := c19Justify(op, pre, post, m)
	r.logf("block %s h=%d txs=%d auto=%v dT{%s} dL{%s}", hx(blk.Blockid), blk.Height, len(blk.Transactions), auto != nil, fmtDelta(diffMaps(pre.T, post.T)), fmtDelta(diffMaps(pre.L, post.L)))
	if f != nil {
		return r.viol(f)
	}
	for _, pid := range m.due(blk.Height) {
		released, held := false, false
		for k, x := range m.Rec {
			if strings.HasPrefix(k, pid+"|") && x.Sign() > 0 {
				held = true
				if d := e.Rec[k]; d != nil && d.Sign() < 0 {
					released = true
				}
			}
		}
		at := "settlement"
		if m.Props[pid].Stop != blk.Height {
			at = "trigger"
		}
		if released {
			r.rc.St.Probes["locks-released-at-"+at]++
		} else if held {
			r.rc.St.Probes["locks-kept-at-"+at]++
		}
	}
	if auto != nil {
		r.eff[string(auto.Txid)] = e
		r.countEffect(op, e, pre, post)
		// does the timer transaction consume versions written further down in the same block?
		later := map[string]bool{}
		seen := false
		for _, t := range blk.Transactions {
			if seen {
				later[string(t.Txid)] = true
			}
			if t == auto {
				seen = true
			}
		}
		for _, in := range auto.TxInputsExt {
			if later[string(in.RefTxid)] {
				r.tainted[string(blk.Blockid)] = true
			}
		}
		if r.tainted[string(blk.Blockid)] {
			r.rc.St.Probes["timer-tx-reads-later-tx-of-block"]++
			r.logf("block %s: timer tx consumes outputs of transactions placed after it", hx(blk.Blockid))
		}
	}
	return nil
}

// sync hands every block of src's chain that dst lacks to dst (ledger confirm, then state walk to
// the ledger tip): dst reorganises when src's chain is the longer one.
func (r *c19Run) sync(src, dst *Node) *Violation {
	before := dst.S.GetLatestBlockid()
	h := src.L.GetMeta().TrunkHeight
	// known defect: a block whose timer transaction precedes its own inputs can neither be verified
	// by another node nor be undone cleanly by its miner
	bad := false
	onSrc := map[string]bool{}
	for i := int64(1); i <= h; i++ {
		b, err := src.L.QueryBlockByHeight(i)
		if err != nil {
			panic(fmt.Sprintf("c19: sync: %v", err))
		}
		onSrc[string(b.Blockid)] = true
		if r.tainted[string(b.Blockid)] && !dst.L.ExistBlock(b.Blockid) {
			bad = true
		}
	}
	if h > dst.L.GetMeta().TrunkHeight {
		for i := int64(1); i <= dst.L.GetMeta().TrunkHeight; i++ {
			b, err := dst.L.QueryBlockByHeight(i)
			if err != nil {
				panic(fmt.Sprintf("c19: sync: %v", err))
			}
			if r.tainted[string(b.Blockid)] && !onSrc[string(b.Blockid)] {
				bad = true
			}
		}
	}
	if bad {
		if r.plan.Avoid {
			r.logf("skip (avoid: a block with a misplaced timer tx would be handed over or undone)")
			r.rc.St.Probes["avoided-known-defect"]++
			return nil
		}
		r.rc.St.Probes["misplaced-timer-block-synced"]++
		defer func() { r.stop = true }()
	}
	given := 0
	for i := int64(1); i <= h; i++ {
		b, err := src.L.QueryBlockByHeight(i)
		if err != nil {
			panic(fmt.Sprintf("c19: sync: %v", err))
		}
		if dst.L.ExistBlock(b.Blockid) {
			continue
		}
		st := dst.L.ConfirmBlock(CloneBlock(b), false)
		if !st.Succ {
			r.logf("confirm %s refused", hx(b.Blockid))
			r.rc.St.Probes["confirm-refused"]++
			break
		}
		given++
	}
	tip := dst.L.GetMeta().TipBlockid
	if !bytes.Equal(tip, before) {
		// was the old tip abandoned?
		if err := dst.S.Walk(tip, false); err != nil {
			r.logf("walk failed: %v", err)
			r.rc.St.Probes["walk-failed"]++
		} else {
			r.rc.St.Faults["chain-switch"]++
			undone := false
			id := tip
			for {
				b, err := dst.L.QueryBlock(id)
				if err != nil || b.Height == 0 {
					undone = !bytes.Equal(id, before) && err == nil
					break
				}
				if bytes.Equal(id, before) {
					break
				}
				id = b.PreHash
			}
			if undone {
				r.rc.St.Faults["reorg-undo"]++
			}
		}
	}
	r.logf("%s -> %s: %d blocks, tip %s", src.Name, dst.Name, given, hx(dst.S.GetLatestBlockid()))
	if bad {
		r.rc.RunBG()
		if v := r.checkNode(dst); v != nil {
			v.Msg = "after undoing / receiving a block whose timer transaction is placed before the transactions it reads: [" + v.Clause + "] " + v.Msg
			v.Clause = c19ClauseTimerOrder
			return v
		}
	}
	return nil
}
