package sim

import (
	"fmt"
	"os"
	"path/filepath"

	"xsim/simkv"

	_ "github.com/xuperchain/xupercore/bcs/consensus/pow"
	_ "github.com/xuperchain/xupercore/bcs/consensus/single"
	_ "github.com/xuperchain/xupercore/bcs/consensus/tdpos"
	_ "github.com/xuperchain/xupercore/bcs/consensus/xpoa"
	"github.com/xuperchain/xupercore/bcs/ledger/xledger/ledger"
	"github.com/xuperchain/xupercore/bcs/ledger/xledger/state"
	xledger "github.com/xuperchain/xupercore/bcs/ledger/xledger/utils"
	xconf "github.com/xuperchain/xupercore/kernel/common/xconfig"
	xctx "github.com/xuperchain/xupercore/kernel/common/xcontext"
	_ "github.com/xuperchain/xupercore/kernel/contract/kernel"
	_ "github.com/xuperchain/xupercore/kernel/contract/manager"
	"github.com/xuperchain/xupercore/kernel/engines/xuperos"
	"github.com/xuperchain/xupercore/kernel/engines/xuperos/common"
	engconf "github.com/xuperchain/xupercore/kernel/engines/xuperos/config"
	nconf "github.com/xuperchain/xupercore/kernel/network/config"
	nctx "github.com/xuperchain/xupercore/kernel/network/context"
	"github.com/xuperchain/xupercore/kernel/network/p2p"
	"github.com/xuperchain/xupercore/lib/logs"
	"github.com/xuperchain/xupercore/lib/timer"
	pb "github.com/xuperchain/xupercore/protos"
)

// World is one simulated execution: nodes on simulated disks joined by the simulated transport.
type World struct {
	G     *Genesis
	K     *Knobs
	Nodes []*Node
	Dir   string
	seq   int
	Log   *EventLog
	St    *RunStats
	// BG holds background tasks captured from instrumented `go` statements, run by the harness.
	BG []BGTask
	// genesis disk image (state right after chain creation), shared by all nodes of the world
	genImg *simkv.Disk
	// Hooks called on node (re)boot so that engines can register kernel methods
	OnBoot []func(n *Node)
	// RPC answers SendMessageWithResponse of a node (nil: no responses)
	RPC func(from *Node, msg *pb.XuperMessage) []*pb.XuperMessage
	// OnSend observes fire-and-forget sends
	OnSend func(from *Node, msg *pb.XuperMessage, opts []p2p.OptionFunc)
}

// BGTask is a captured background goroutine body.
type BGTask struct {
	Site string
	F    func()
}

// Node is one xupercore node ("process") on a simulated disk.
type Node struct {
	W      *World
	Name   string
	KeyIdx int
	Root   string
	Disk   *simkv.Disk
	Chain  *xuperos.Chain
	L      *ledger.Ledger
	S      *state.State
	Net    *Endpoint
	Ctx    *common.ChainCtx
	Gen    int // incremented at every (re)boot
}

var worldSeq int

// NewWorld creates an empty world with the given chain parameters.
func NewWorld(g *Genesis, k *Knobs) *World {
	initEnv()
	worldSeq++
	if k == nil {
		k = &Knobs{}
	}
	w := &World{G: g, K: k, Dir: filepath.Join(envBase, fmt.Sprintf("w%d", worldSeq)), Log: &EventLog{}, St: NewRunStats()}
	return w
}

// Close removes the world's scratch files and mounts.
func (w *World) Close() {
	for _, n := range w.Nodes {
		simkv.Unmount(n.Root)
	}
	os.RemoveAll(w.Dir)
}

func (w *World) newRoot(name string) string {
	w.seq++
	return filepath.Join(w.Dir, fmt.Sprintf("%s-%d", name, w.seq))
}

// AddNode creates a node with a fresh chain (genesis only) whose miner identity is Accts[keyIdx].
func (w *World) AddNode(name string, keyIdx int) (*Node, error) {
	n := &Node{W: w, Name: name, KeyIdx: keyIdx, Root: w.newRoot(name)}
	writeNodeDir(n.Root, keyIdx, w.G, w.K)
	if w.genImg == nil {
		n.Disk = simkv.NewDisk()
		simkv.Mount(n.Root, n.Disk)
		env := n.env()
		if err := xledger.CreateLedger("xuper", filepath.Join(n.Root, "data/genesis/xuper.json"), env); err != nil {
			return nil, fmt.Errorf("create ledger: %w", err)
		}
		w.genImg = n.Disk.Clone()
	} else {
		n.Disk = w.genImg.Clone()
		simkv.Mount(n.Root, n.Disk)
	}
	if err := n.Boot(); err != nil {
		return nil, err
	}
	w.Nodes = append(w.Nodes, n)
	return n, nil
}

// NodeOnDisk boots a node on an existing disk image (twin / crash image / fresh replica).
func (w *World) NodeOnDisk(name string, keyIdx int, d *simkv.Disk) (*Node, error) {
	return w.NodeOnDiskWith(name, keyIdx, d, w.K)
}

// NodeOnDiskWith is NodeOnDisk with its own knobs.
func (w *World) NodeOnDiskWith(name string, keyIdx int, d *simkv.Disk, k *Knobs) (*Node, error) {
	n := &Node{W: w, Name: name, KeyIdx: keyIdx, Root: w.newRoot(name), Disk: d}
	writeNodeDir(n.Root, keyIdx, w.G, k)
	simkv.Mount(n.Root, d)
	if err := n.Boot(); err != nil {
		simkv.Unmount(n.Root)
		os.RemoveAll(n.Root)
		return nil, err
	}
	return n, nil
}

// Fresh returns a node holding only the genesis block.
func (w *World) Fresh(name string, keyIdx int) (*Node, error) {
	if w.genImg == nil {
		return nil, fmt.Errorf("no genesis image yet")
	}
	return w.NodeOnDisk(name, keyIdx, w.genImg.Clone())
}

// FreshWith is Fresh with its own knobs.
func (w *World) FreshWith(name string, keyIdx int, k *Knobs) (*Node, error) {
	if w.genImg == nil {
		return nil, fmt.Errorf("no genesis image yet")
	}
	return w.NodeOnDiskWith(name, keyIdx, w.genImg.Clone(), k)
}

// Drop unmounts a temporary node and removes its directory.
func (n *Node) Drop() {
	simkv.Unmount(n.Root)
	os.RemoveAll(n.Root)
}

func (n *Node) env() *xconf.EnvConf {
	env := xconf.GetDefEnvConf()
	env.RootPath = n.Root
	return env
}

// Boot (re)opens ledger, state and all managers on the node's disk, as a process start does.
func (n *Node) Boot() error {
	env := n.env()
	lg, err := logs.NewLogger("", "eng-"+n.Name)
	if err != nil {
		return err
	}
	nc := &nctx.NetCtx{EnvCfg: env, P2PConf: nconf.GetDefP2PConf()}
	nc.XLog = lg
	nc.Timer = timer.NewXTimer()
	ep := &Endpoint{node: n, ctx: nc, disp: p2p.NewDispatcher(nc)}
	ecfg := engconf.GetDefEngineConf()
	ecfg.RootChain = "xuper"
	eng := &common.EngineCtx{EnvCfg: env, EngCfg: ecfg, Net: ep}
	eng.XLog = lg
	eng.Timer = timer.NewXTimer()
	chain, err := xuperos.LoadChain(eng, "xuper")
	if err != nil {
		return fmt.Errorf("load chain: %v", err)
	}
	n.Chain = chain
	n.Ctx = chain.Context()
	n.L = n.Ctx.Ledger
	n.S = n.Ctx.State
	n.Net = ep
	n.Gen++
	for _, f := range n.W.OnBoot {
		f(n)
	}
	return nil
}

// Twin opens a second instance on a copy of the node's data directory.
func (n *Node) Twin() (*Node, error) {
	return n.W.NodeOnDisk(n.Name+".twin", n.KeyIdx, n.Disk.Clone())
}

// Acct returns the node's miner identity.
func (n *Node) Acct() *Acct { return Accts[n.KeyIdx] }

// BaseCtx returns a request context.
func (n *Node) BaseCtx() xctx.XContext {
	lg, _ := logs.NewLogger("", "req")
	return &xctx.BaseCtx{XLog: lg, Timer: timer.NewXTimer()}
}

// ---- transport endpoint ------------------------------------------------------------------------

// Endpoint is the node's side of the simulated transport. Inbound delivery goes through the real
// p2p.Dispatcher; outbound traffic is handed to the world.
type Endpoint struct {
	node *Node
	ctx  *nctx.NetCtx
	disp p2p.Dispatcher
	Sent int
}

func (e *Endpoint) Start() {}
func (e *Endpoint) Stop()  {}
func (e *Endpoint) SendMessage(c xctx.XContext, m *pb.XuperMessage, o ...p2p.OptionFunc) error {
	e.Sent++
	if e.node.W.OnSend != nil {
		e.node.W.OnSend(e.node, m, o)
	}
	return nil
}
func (e *Endpoint) SendMessageWithResponse(c xctx.XContext, m *pb.XuperMessage, o ...p2p.OptionFunc) ([]*pb.XuperMessage, error) {
	e.Sent++
	if e.node.W.RPC != nil {
		return e.node.W.RPC(e.node, m), nil
	}
	return nil, nil
}
func (e *Endpoint) NewSubscriber(t pb.XuperMessage_MessageType, v interface{}, o ...p2p.SubscriberOption) p2p.Subscriber {
	return p2p.NewSubscriber(e.ctx, t, v, o...)
}
func (e *Endpoint) Register(x p2p.Subscriber) error   { return e.disp.Register(x) }
func (e *Endpoint) UnRegister(x p2p.Subscriber) error { return e.disp.UnRegister(x) }
func (e *Endpoint) Context() *nctx.NetCtx             { return e.ctx }
func (e *Endpoint) PeerInfo() pb.PeerInfo {
	return pb.PeerInfo{Id: e.node.Name, Address: "/sim/" + e.node.Name, Account: e.node.Acct().Addr}
}

// Dispatcher exposes the real dispatcher for inbound delivery.
func (e *Endpoint) Dispatcher() p2p.Dispatcher { return e.disp }
