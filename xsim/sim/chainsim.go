package sim

import (
	"bytes"
	"encoding/hex"
	"fmt"
	"math/big"
	"sort"
	"strings"
	"time"

	"xsim/simkv"

	lpb "github.com/xuperchain/xupercore/bcs/ledger/xledger/xldgpb"
	"github.com/xuperchain/xupercore/kernel/engines/xuperos/xpb"
	"github.com/xuperchain/xupercore/kernel/network/p2p"
	"github.com/xuperchain/xupercore/lib/xsimrt"
	pb "github.com/xuperchain/xupercore/protos"
)

// Engine A — chainsim: 1..3 real nodes (Chain = ledger + state + contracts + ACL + consensus) on
// simulated disks; the plan submits transactions, mines, delivers blocks in any order and calls
// the ledger / state API directly; oracles run after every step.

// CStep is one step of a chainsim plan. Selectors are resolved modulo what exists at run time.
type CStep struct {
	Op    string `json:"op"`
	N     int    `json:"n"`
	A     int    `json:"a,omitempty"`
	B     int    `json:"b,omitempty"`
	C     int    `json:"c,omitempty"`
	D     int    `json:"d,omitempty"`
	Amt   int    `json:"amt,omitempty"`
	Via   int    `json:"via,omitempty"`
	Flag  bool   `json:"flag,omitempty"`
	Defer bool   `json:"defer,omitempty"` // leave background tasks pending after this step
	Prog  []KOp  `json:"prog,omitempty"`
	// storage fault armed for this step: fail the FW-th write unit / FR-th read (1-based, 0 = none)
	FW   int  `json:"fw,omitempty"`
	FR   int  `json:"fr,omitempty"`
	Full bool `json:"full,omitempty"`
}

// ChainPlan is a complete plan of one chainsim run.
type ChainPlan struct {
	Seed      uint64  `json:"seed"`
	MapSeed   uint64  `json:"map_seed"`
	Nodes     int     `json:"nodes"`
	Window    int     `json:"window"`
	UtxoCache int     `json:"utxo_cache"`
	BlkCache  int     `json:"blk_cache"`
	ExtCache  int     `json:"ext_cache"`
	NoFee     bool    `json:"nofee"`
	Steps     []CStep `json:"steps"`
}

// ChainCfg selects oracles (fixed per property, not drawn).
type ChainCfg struct {
	Prop       string
	Diff       bool // C01a: differential against a fresh replay
	Model      bool // C01b / C02: model vs real
	Reopen     bool // C05a: live vs reopened twin
	NoTrace    bool // C05b: failed operation leaves no trace
	LedgerM    bool // C04: ledger battery vs block-tree model
	Irr        bool // C17
	Snap       bool // C18
	Admit      bool // C03
	PoolOrder  bool // C13
	Conserve   bool // C02 sums
	EveryStep  bool
	DiffEveryN int
	RealMiner  bool // honest mining goes through the node's own Miner.mining (packBlock under the size budget)
	BigTx      bool // some transfers carry a description of several hundred KB; blocks are limited to 1 MB
	Crash      bool // C06: journal node 0 and enumerate crash images at the end
	NoStepOrcl bool // skip per-step oracles (C06 scenarios only check at crash images)
}

const nAcct = 5 // accounts used as senders / receivers

type nodeView struct {
	stored    []string
	storedSet map[string]bool
	tip       string
	applied   map[string]bool
	maxIrr    int64
	pruned    bool
}

type chainRun struct {
	rc    *RunCtx
	w     *World
	cm    *ChainModel
	u     *Universe
	cfg   *ChainCfg
	plan  *ChainPlan
	views []*nodeView
	txs   map[string]*lpb.Transaction // pristine honest transactions by id
	step  int
	op    string
	// snapshot expectations recorded when a block was the state tip: blockid -> key -> line
	snapAt      map[string]map[string]string
	sawTruncate bool
}

func (r *chainRun) viol(clause, format string, a ...interface{}) *Violation {
	return &Violation{Prop: r.cfg.Prop, Clause: clause, Step: r.step, Op: r.op, Msg: fmt.Sprintf(format, a...)}
}

// setupChainRun boots the world of a chainsim plan (nodes at genesis, model, universe).
func setupChainRun(plan *ChainPlan, cfg *ChainCfg, rc *RunCtx) (*chainRun, *Violation) {
	g := &Genesis{Predist: map[int]string{0: "1000000000", 1: "500000000", 2: "70000"}, SlideWindow: plan.Window, NoFee: plan.NoFee, Award: "1000000"}
	if cfg.BigTx {
		g.MaxBlockMB = 1
	}
	k := &Knobs{UtxoCache: plan.UtxoCache}
	w := NewWorld(g, k)
	rc.OnCleanup(w.Close)
	tune := map[string]int{}
	if plan.BlkCache > 0 {
		tune["BlockCacheSize"] = plan.BlkCache
	}
	if plan.ExtCache > 0 {
		tune["bucketExtUTXOCacheSize"] = plan.ExtCache
	}
	rc.AttachHooks(&xsimrt.H{MapSeed: plan.MapSeed, Tune: func(name string, def int) int {
		if v, ok := tune[name]; ok {
			return v
		}
		return def
	}})
	w.OnBoot = append(w.OnBoot, RegisterXsim)
	r := &chainRun{rc: rc, w: w, cm: NewChainModel(), u: &Universe{}, cfg: cfg, plan: plan, txs: map[string]*lpb.Transaction{}, snapAt: map[string]map[string]string{}}
	for i := 0; i < nAcct; i++ {
		r.u.Addrs = append(r.u.Addrs, Accts[i].Addr)
	}
	r.u.Addrs = append(r.u.Addrs, XsimContract, "nobody")
	for _, b := range []string{XsimBucket, "xsim2"} {
		r.u.Buckets = append(r.u.Buckets, b)
		for _, key := range []string{"k0", "k1", "k2", "k3", "zz"} {
			r.u.Keys = append(r.u.Keys, [2]string{b, key})
		}
	}
	nn := plan.Nodes
	if nn < 1 {
		nn = 1
	}
	for i := 0; i < nn; i++ {
		n, err := w.AddNode(fmt.Sprintf("n%d", i), 0)
		if err != nil {
			panic(fmt.Sprintf("boot: %v", err))
		}
		if i == 0 {
			root, err := n.L.QueryBlock(n.L.GetMeta().RootBlockid)
			if err != nil {
				panic(err)
			}
			r.cm.Add(CloneBlock(root), 0)
			r.u.AddBlock(root.Blockid)
			for _, t := range root.Transactions {
				r.u.AddTx(t.Txid)
			}
		}
		rid := string(r.cm.Root)
		r.views = append(r.views, &nodeView{stored: []string{rid}, storedSet: map[string]bool{rid: true}, tip: rid, applied: map[string]bool{rid: true}})
	}
	w.RPC = r.rpc
	return r, nil
}

// ExecChain executes a chainsim plan.
func ExecChain(plan *ChainPlan, cfg *ChainCfg, rc *RunCtx) *Violation {
	r, v := setupChainRun(plan, cfg, rc)
	if v != nil {
		return v
	}
	w := r.w
	var crashBase *simkv.Disk
	var stepAt []int
	if cfg.Crash {
		crashBase = w.Nodes[0].Disk.Clone()
		w.Nodes[0].Disk.StartJournal()
	}
	for i := range plan.Steps {
		r.step = i
		st := &plan.Steps[i]
		r.op = st.Op
		xsimrt.SetEpoch(uint64(i + 1))
		time.Sleep(time.Millisecond) // the clock never stands still between two operations
		rc.St.Steps++
		rc.St.Ops[st.Op]++
		if cfg.Crash {
			stepAt = append(stepAt, w.Nodes[0].Disk.JournalLen())
		}
		if v := r.doStep(st); v != nil {
			return v
		}
	}
	if cfg.Crash {
		rc.RunBG()
		journal := w.Nodes[0].Disk.StopJournal()
		return r.crashEnumerate(crashBase, journal, stepAt)
	}
	// final quiescence: run whatever is pending and check once more
	r.step = len(plan.Steps)
	r.op = "final"
	rc.RunBG()
	for i := range w.Nodes {
		if v := r.checkNode(i, true); v != nil {
			return v
		}
	}
	return nil
}

func (r *chainRun) node(i int) (*Node, *nodeView, int) {
	idx := ((i % len(r.w.Nodes)) + len(r.w.Nodes)) % len(r.w.Nodes)
	return r.w.Nodes[idx], r.views[idx], idx
}

func (r *chainRun) rpc(from *Node, msg *pb.XuperMessage) []*pb.XuperMessage {
	switch msg.GetHeader().GetType() {
	case pb.XuperMessage_GET_BLOCK:
		var in xpb.BlockID
		if err := p2p.Unmarshal(msg, &in); err != nil {
			return nil
		}
		mb, ok := r.cm.Blocks[string(in.Blockid)]
		if !ok {
			return nil
		}
		out := &xpb.BlockInfo{Block: CloneBlock(mb.Block)}
		resp := p2p.NewMessage(pb.XuperMessage_GET_BLOCK_RES, out, p2p.WithBCName("xuper"))
		return []*pb.XuperMessage{resp}
	}
	return nil
}

func (r *chainRun) logf(format string, a ...interface{}) {
	r.rc.Log.Add("%d %s: %s", r.step, r.op, fmt.Sprintf(format, a...))
}

// registerBlock records a freshly produced block in the model.
func (r *chainRun) registerBlock(b *lpb.InternalBlock) *MBlock {
	pre, ok := r.cm.Blocks[string(b.PreHash)]
	h := int64(0)
	if ok {
		h = pre.Height + 1
	}
	mb := r.cm.Add(CloneBlock(b), h)
	r.u.AddBlock(b.Blockid)
	for _, t := range b.Transactions {
		r.u.AddTx(t.Txid)
		if _, ok := r.txs[string(t.Txid)]; !ok {
			r.txs[string(t.Txid)] = CloneTx(t)
		}
	}
	return mb
}

// noteStored updates the model's view of a node's ledger after a successful confirmation.
func (v *nodeView) noteStored(cm *ChainModel, id []byte) {
	if v.storedSet[string(id)] {
		return
	}
	v.storedSet[string(id)] = true
	v.stored = append(v.stored, string(id))
	if cm.Blocks[string(id)].Height > cm.Blocks[v.tip].Height {
		v.tip = string(id)
	}
}

func (r *chainRun) doStep(st *CStep) *Violation {
	n, v, ni := r.node(st.N)
	touched := []int{ni}
	var pre *Obs
	armed := false
	if st.Op == "mine" && !bytes.Equal(n.L.GetMeta().TipBlockid, n.S.GetLatestBlockid()) {
		// bring the state machine to the ledger tip first, as its own (fault-free) operation: a later
		// failure of the mining proper must leave no trace relative to the state after this walk
		if err := n.S.Walk(n.L.GetMeta().TipBlockid, false); err != nil {
			r.logf("pre-mine walk failed: %v", err)
		} else {
			r.noteApplied(n, v)
		}
		if !st.Defer {
			r.rc.RunBG() // the walk's own background work (re-admission of rolled-back transactions) belongs to it
		}
	}
	// background work still pending now may legitimately change the state during the step
	bgPendingAtPre := len(r.rc.BG) > 0
	if r.cfg.NoTrace {
		pre = n.ObsAll(r.u, StateObsOpts{Pool: true})
	}
	if st.FW > 0 || st.FR > 0 || st.Full {
		f := simkv.Faults{DiskFull: st.Full}
		if st.FW > 0 {
			f.FailWrite = map[int]bool{st.FW - 1: true}
		}
		if st.FR > 0 {
			f.FailRead = map[int]bool{st.FR - 1: true}
		}
		n.Disk.Arm(f)
		armed = true
	}
	failed := false
	failKind := "all" // what a reported failure allows to change: all=nothing, state-atomic=ledger may have changed, walk=no no-trace check
	switch st.Op {
	case "tx", "kvtx":
		tx := r.buildTx(n, st)
		if tx == nil {
			r.logf("skip (nothing to build)")
			break
		}
		r.u.AddTx(tx.Txid)
		r.txs[string(tx.Txid)] = CloneTx(tx)
		r.logf("built %s", descTx(tx))
		stamped := false
		if r.cfg.Snap && !r.cfg.Admit && abs(st.D)%5 == 4 {
			// an unusual input: the posted transaction arrives with its (unauthenticated) block id field
			// already naming a block of the main chain; whether the node takes it or not, it is pending
			tx.Blockid = append([]byte{}, n.L.GetMeta().TipBlockid...)
			stamped = true
			r.rc.St.Probes["posted-tx-carrying-blockid"]++
		}
		targets := []int{ni}
		for j := range r.w.Nodes {
			if j != ni && st.Via&(1<<uint(j)) != 0 {
				targets = append(targets, j)
			}
		}
		touched = targets
		for _, tj := range targets {
			tn := r.w.Nodes[tj]
			var exp string
			if r.cfg.Admit {
				exp = r.expectAdmission(tn, tx)
			}
			err := tn.Chain.SubmitTx(tn.BaseCtx(), CloneTx(tx))
			r.logf("submit %s to %s: %v", hx(tx.Txid), tn.Name, err != nil)
			if stamped && err == nil {
				r.rc.St.Probes["posted-tx-carrying-blockid-admitted"]++
			}
			if tj == ni {
				failed = err != nil
			}
			if r.cfg.Admit && !armed {
				if err == nil && exp != "" {
					return r.viol("admit-not-current", "tx %s admitted by %s although %s", hx(tx.Txid), tn.Name, exp)
				}
				if err != nil && exp == "" {
					return r.viol("refused-current", "tx %s refused by %s (%v) although all inputs are current", hx(tx.Txid), tn.Name, err)
				}
			}
			if err != nil {
				r.rc.St.Probes["tx-refused"]++
			} else {
				r.rc.St.Probes["tx-admitted"]++
			}
		}
	case "mine":
		if !bytes.Equal(n.L.GetMeta().TipBlockid, n.S.GetLatestBlockid()) {
			if err := n.S.Walk(n.L.GetMeta().TipBlockid, false); err != nil {
				r.logf("pre-mine walk failed")
				failed = true
				failKind = "walk"
				break
			}
			r.noteApplied(n, v)
		}
		max := -1
		if st.A%4 == 0 {
			max = st.B % 3
		}
		var blk *lpb.InternalBlock
		var err error
		if r.cfg.RealMiner && max < 0 {
			blk, err = n.MineReal()
			r.rc.St.Probes["mined-by-real-miner"]++
		} else {
			blk, err = n.Mine(MineOpts{MaxTx: max})
		}
		if err != nil {
			r.logf("mine failed: %v", err)
			failed = true
			if blk != nil && n.L.ExistBlock(blk.Blockid) {
				// ledger accepted, play failed
				mb := r.registerBlock(blk)
				v.noteStored(r.cm, mb.ID)
				failKind = "state-atomic"
			}
			break
		}
		mb := r.registerBlock(blk)
		v.noteStored(r.cm, mb.ID)
		r.noteApplied(n, v)
		r.logf("%s mined %s h=%d pre=%s txs=%s", n.Name, hx(blk.Blockid), mb.Height, hx(blk.PreHash), descTxids(blk.Transactions))
		r.rc.St.Probes["blocks-mined"]++
		if len(blk.Transactions) > 1 {
			r.rc.St.Probes["blocks-with-txs"]++
		}
	case "deliver":
		if len(r.cm.Order) < 2 {
			break
		}
		mb := r.cm.Order[1+abs(st.A)%(len(r.cm.Order)-1)]
		if st.Flag {
			// (motifs) the next block of a foreign chain: the newest valid block this node has not stored
			// yet but whose parent it has
			for _, c := range r.cm.Order[1:] {
				if c.Valid && !v.storedSet[string(c.ID)] && v.storedSet[string(c.Pre)] {
					mb = c
				}
			}
		}
		failed, failKind = r.deliver(n, v, mb, st.Via%4)
	case "walk":
		target := v.stored[abs(st.A)%len(v.stored)]
		before := n.S.GetLatestBlockid()
		err := n.S.Walk([]byte(target), st.Flag)
		r.logf("walk %s -> %s prune=%v: %v", hx(before), hx([]byte(target)), st.Flag, err != nil)
		failed = err != nil
		failKind = "walk"
		if st.Flag {
			v.pruned = true
		}
		r.noteApplied(n, v)
		if err == nil {
			if !bytes.Equal(n.S.GetLatestBlockid(), []byte(target)) {
				return r.viol("walk-wrong-target", "walk reported success but state is at %s, not %s", hx(n.S.GetLatestBlockid()), hx([]byte(target)))
			}
			if !bytes.Equal(before, []byte(target)) && !r.cm.IsAncestor(before, []byte(target)) {
				r.rc.St.Probes["walk-undo"]++
				if !r.cm.IsAncestor([]byte(target), before) {
					r.rc.St.Probes["walk-cross-fork"]++
				}
			}
		} else {
			r.rc.St.Probes["walk-failed"]++
		}
	case "reopen":
		r.dropBG()
		if err := n.Boot(); err != nil {
			return r.viol("reopen-failed", "clean reopen of %s failed: %v", n.Name, err)
		}
		r.logf("reopen %s", n.Name)
	case "bg":
		k := r.rc.RunBG()
		r.logf("ran %d background tasks", k)
		for j := range r.w.Nodes {
			if j != ni {
				touched = append(touched, j)
			}
		}
	case "clock":
		d := time.Duration(1+abs(st.A)%400) * time.Second
		time.Sleep(d)
		r.logf("clock +%v", d)
	case "truncate":
		// as miner.truncateForMiner: walk the state to the target, then truncate the ledger
		m := n.L.GetMeta()
		h := int64(abs(st.A)) % (m.TrunkHeight + 1)
		tb, err := n.L.QueryBlockByHeight(h)
		if err != nil {
			failed = true
			break
		}
		if err := n.S.Walk(tb.Blockid, false); err != nil {
			r.logf("truncate: walk refused")
			r.noteApplied(n, v)
			failed = true
			failKind = "walk"
			break
		}
		r.noteApplied(n, v)
		if err := n.L.Truncate(tb.Blockid); err != nil {
			r.logf("truncate failed: %v", err)
			failed = true
			failKind = "walk"
			break
		}
		r.logf("%s truncate to %s h=%d", n.Name, hx(tb.Blockid), h)
		r.sawTruncate = true
		r.rc.St.Probes["truncate"]++
		var keep []string
		for _, id := range v.stored {
			if r.cm.Blocks[id].Height <= h {
				keep = append(keep, id)
			} else {
				delete(v.storedSet, id)
			}
		}
		v.stored = keep
		v.tip = string(tb.Blockid)
	default:
		if v := r.doAdversarial(st, n, v, &failed, &failKind); v != nil {
			return v
		}
	}
	if armed {
		_, _, _ = n.Disk.Seq()
		fs := n.Disk.St
		n.Disk.Disarm()
		r.rc.St.Faults["kv-write-error"] += fs.FailedWrites
		r.rc.St.Faults["kv-read-error"] += fs.FailedReads
		n.Disk.St = simkv.Stats{}
	}
	if !st.Defer {
		r.rc.RunBG()
	} else if len(r.rc.BG) > 0 {
		r.rc.St.Probes["bg-deferred"]++
	}
	if failed && r.cfg.NoTrace && pre != nil && len(r.rc.BG) == 0 && !bgPendingAtPre && failKind != "walk" {
		post := n.ObsAll(r.u, StateObsOpts{Pool: true})
		inPre := func(k string) bool { _, ok := pre.KV[k]; return ok } // the universe of questions may have grown
		filter := inPre
		if failKind == "state-atomic" {
			filter = func(k string) bool {
				return inPre(k) && strings.HasPrefix(k, "S.") && !strings.HasPrefix(k, "S.qtx.") && !strings.HasPrefix(k, "S.baldet.") && !strings.HasPrefix(k, "S.frozen.")
			}
		}
		if d := Diff(pre, post, filter); d != "" {
			vi := r.viol("failed-op-left-trace", "operation %s on %s reported failure but observations changed: %s", st.Op, n.Name, d)
			// discriminate the known in-memory total defect: total / meta are the only differences
			onlyTotal := Diff(pre, post, func(k string) bool { return filter(k) && k != "S.total" && k != "S.meta" }) == ""
			if onlyTotal {
				vi.Clause = "failed-op-left-trace-in-memory-total"
			}
			return vi
		}
		r.rc.St.Probes["failed-op-checked"]++
	}
	if r.cfg.NoStepOrcl {
		return nil
	}
	for _, ti := range touched {
		if v := r.checkNode(ti, false); v != nil {
			return v
		}
	}
	return nil
}

func (r *chainRun) dropBG() { r.rc.BG = nil }

func abs(x int) int {
	if x < 0 {
		return -x
	}
	return x
}

// noteApplied records the block the state sits on (C17 bookkeeping).
func (r *chainRun) noteApplied(n *Node, v *nodeView) {
	tip := n.S.GetLatestBlockid()
	path, err := r.cm.Path(tip)
	if err != nil {
		return
	}
	for _, mb := range path {
		v.applied[string(mb.ID)] = true
	}
}

// deliver hands a known block to a node. Returns whether the operation reported failure.
func (r *chainRun) deliver(n *Node, v *nodeView, mb *MBlock, via int) (bool, string) {
	parentKnown := v.storedSet[string(mb.Pre)]
	dup := v.storedSet[string(mb.ID)]
	blk := CloneBlock(mb.Block)
	switch via {
	case 0:
		err := n.Chain.ProcBlock(n.BaseCtx(), blk)
		r.logf("procblock %s -> %s: %v", hx(mb.ID), n.Name, err != nil)
		// the sync path stores every missing ancestor it fetched
		path, _ := r.cm.Path(mb.ID)
		for _, p := range path {
			if n.L.ExistBlock(p.ID) {
				v.noteStored(r.cm, p.ID)
			}
		}
		r.noteApplied(n, v)
		if err == nil {
			r.rc.St.Probes["procblock-ok"]++
		}
		return err != nil, "walk"
	default:
		if dup {
			// ledger.ConfirmBlock is only ever called for blocks not yet stored (callers check
			// ExistBlock); the harness respects that precondition
			r.logf("skip duplicate confirm")
			return false, ""
		}
		st := n.L.ConfirmBlock(blk, false)
		r.logf("confirm %s -> %s: succ=%v", hx(mb.ID), n.Name, st.Succ)
		if !st.Succ {
			r.rc.St.Probes["confirm-refused"]++
			return true, "all"
		}
		if !parentKnown {
			// reported to the caller through the ledger oracle (block without parent stored)
			r.rc.St.Probes["confirm-without-parent"]++
		}
		v.noteStored(r.cm, mb.ID)
		if st.TrunkSwitch {
			r.rc.St.Probes["trunk-switch"]++
		}
		if st.Orphan {
			r.rc.St.Probes["side-branch-block"]++
		}
		var err error
		switch via {
		case 2:
			err = n.S.Walk(n.L.GetMeta().TipBlockid, false)
		case 3:
			err = n.S.Play(mb.ID)
		}
		r.noteApplied(n, v)
		if err != nil {
			r.logf("state step failed")
			r.rc.St.Probes["play-refused"]++
			if via == 3 {
				return true, "state-atomic"
			}
			return true, "walk"
		}
		return false, ""
	}
}

// buildTx builds an honest transaction against node n's live state.
func (r *chainRun) buildTx(n *Node, st *CStep) *lpb.Transaction {
	from := Accts[abs(st.A)%nAcct]
	us, err := n.ListUtxos(from.Addr)
	if err != nil {
		return nil
	}
	h := n.L.GetMeta().TrunkHeight
	var spendable []UtxoRef
	for _, u := range us {
		if st.Flag || (u.Frozen != -1 && u.Frozen <= h) { // Flag: do not filter frozen outputs (will be refused)
			spendable = append(spendable, u)
		}
	}
	sp := &TxSpec{From: from, Version: int32(1 + abs(st.C)%3)}
	if st.Op == "kvtx" {
		sp.Version = 3
		resp, err := n.PreExecProg(from, st.Prog, nil)
		if err != nil {
			r.logf("preexec failed: %v", err)
			r.rc.St.Probes["preexec-failed"]++
			return nil
		}
		sp.Invoke = resp
		if resp.GasUsed == 0 && len(spendable) == 0 {
			if !r.plan.NoFee {
				return nil
			}
		}
		need := big.NewInt(resp.GasUsed)
		got := new(big.Int)
		start := 0
		if len(spendable) > 0 {
			start = abs(st.B) % len(spendable)
		}
		for i := 0; i < len(spendable) && (got.Cmp(need) < 0 || len(sp.Inputs) == 0); i++ {
			u := spendable[(start+i)%len(spendable)]
			sp.Inputs = append(sp.Inputs, u)
			got.Add(got, u.Amount)
		}
		if got.Cmp(need) < 0 {
			return nil
		}
		if r.plan.NoFee && abs(st.B)%2 == 0 {
			sp.Inputs = nil
		}
		tx, err := BuildTx(sp)
		if err != nil {
			return nil
		}
		return tx
	}
	if len(spendable) == 0 {
		return nil
	}
	start := abs(st.B) % len(spendable)
	cnt := 1 + abs(st.D)%2
	tot := new(big.Int)
	for i := 0; i < cnt && i < len(spendable); i++ {
		u := spendable[(start+i)%len(spendable)]
		sp.Inputs = append(sp.Inputs, u)
		tot.Add(tot, u.Amount)
	}
	to := Accts[abs(st.C)%nAcct]
	toAddr := to.Addr
	if abs(st.Via)%16 == 3 || (r.cfg.Prop == "C09" && abs(st.Via)%2 == 1) {
		toAddr = XsimContract // fund the workload contract's own account
	}
	if abs(st.Via)%16 == 5 {
		toAddr = XsimContract2 // ... and the second one, whose name the first one's is a prefix of
	}
	// amount: a fraction of the inputs
	amt := new(big.Int).Mul(tot, big.NewInt(int64(1+abs(st.Amt)%4)))
	amt.Div(amt, big.NewInt(5))
	switch abs(st.Amt) % 7 {
	case 5:
		amt = new(big.Int) // zero-value output
	case 6:
		amt = new(big.Int).Set(tot) // everything, no change
	}
	out := OutSpec{To: toAddr, Amount: amt}
	if toAddr == XsimContract && amt.Cmp(big.NewInt(300)) > 0 {
		// several small outputs so that contract transfers consume more than one
		out.Amount = big.NewInt(50)
		sp.Outs = append(sp.Outs, OutSpec{To: toAddr, Amount: big.NewInt(60)}, OutSpec{To: toAddr, Amount: big.NewInt(70)})
	}
	switch abs(st.Via) / 8 % 5 {
	case 1:
		out.Frozen = h + 1
	case 2:
		out.Frozen = h + 3
	case 3:
		out.Frozen = -1
	}
	sp.Outs = append(sp.Outs, out)
	if r.cfg.BigTx && abs(st.D)%3 != 0 {
		// a description of 250..400 KB: three of these do not fit the 0.8 MB transaction budget of a block
		desc := make([]byte, 250000+(abs(st.D)%4)*50000)
		for i := range desc {
			desc[i] = byte('a' + (i+abs(st.D))%23)
		}
		sp.Desc = desc
		r.rc.St.Probes["big-tx-built"]++
	}
	rest := new(big.Int).Sub(tot, amt)
	if !r.plan.NoFee && rest.Cmp(big.NewInt(10)) > 0 && abs(st.Amt)%3 == 1 {
		sp.Outs = append(sp.Outs, OutSpec{To: "$", Amount: big.NewInt(int64(1 + abs(st.Amt)%9))})
	}
	tx, err := BuildTx(sp)
	if err != nil {
		return nil
	}
	return tx
}

// poolModel returns S(state tip) with the node's reported pool applied in the reported order.
// A pool that cannot be applied in its own order is a violation by itself.
func (r *chainRun) poolModel(n *Node) (*MState, []*lpb.Transaction, *Violation) {
	base, err := r.cm.StateAt(n.S.GetLatestBlockid())
	if err != nil {
		return nil, nil, r.viol("state-at-unknown-block", "state of %s sits on a block the harness never produced: %s", n.Name, hx(n.S.GetLatestBlockid()))
	}
	pool, err := n.S.GetUnconfirmedTx(false)
	if err != nil {
		return nil, nil, r.viol("pool-unreadable", "GetUnconfirmedTx on %s failed: %v", n.Name, err)
	}
	s := base.Clone()
	lh := n.L.GetMeta().TrunkHeight
	for i, t := range pool {
		if why := s.Stale(t, lh+1000000); why != "" { // frozen-ness was checked at admission time
			return nil, nil, r.viol("pool-order-or-conflict", "pool of %s: transaction #%d %s is not applicable after its predecessors: %s", n.Name, i, hx(t.Txid), why)
		}
		s.Apply(t, "")
	}
	return s, pool, nil
}

// expectAdmission returns "" when the model says an honest transaction must be admitted by tn,
// else the reason it must be refused.
func (r *chainRun) expectAdmission(tn *Node, tx *lpb.Transaction) string {
	cur, pool, v := r.poolModel(tn)
	if v != nil {
		return "" // reported by checkNode
	}
	for _, p := range pool {
		if bytes.Equal(p.Txid, tx.Txid) {
			return "already pending"
		}
	}
	if ok, _ := tn.L.HasTransaction(tx.Txid); ok {
		return "already confirmed"
	}
	return cur.Stale(tx, tn.L.GetMeta().TrunkHeight)
}

// checkNode runs the enabled oracles on one node.
func (r *chainRun) checkNode(i int, final bool) *Violation {
	n, v := r.w.Nodes[i], r.views[i]
	cfg := r.cfg
	st := n.ObsAll(r.u, StateObsOpts{Pool: true})
	r.rc.St.States[st.Digest()] = true
	if cfg.LedgerM {
		if vi := r.checkLedger(n, v); vi != nil {
			return vi
		}
	}
	var cur *MState
	if cfg.Model || cfg.Conserve || cfg.Admit || cfg.PoolOrder {
		var vi *Violation
		cur, _, vi = r.poolModel(n)
		if vi != nil {
			return vi
		}
	}
	if cfg.Conserve || cfg.Model {
		if vi := r.checkConservation(n, cur); vi != nil {
			return vi
		}
	}
	if cfg.Model {
		if vi := r.checkModelState(n, cur); vi != nil {
			return vi
		}
	}
	if cfg.Irr {
		if vi := r.checkIrr(n, v); vi != nil {
			return vi
		}
	}
	if cfg.Snap {
		if vi := r.checkSnapshots(n); vi != nil {
			return vi
		}
	}
	if cfg.Reopen && len(r.rc.BG) == 0 {
		tw, err := n.Twin()
		if err != nil {
			return r.viol("reopen-failed", "instances cannot be opened on a copy of %s's data: %v", n.Name, err)
		}
		to := tw.ObsAll(r.u, StateObsOpts{Pool: true, RawN: true})
		lo := n.ObsAll(r.u, StateObsOpts{Pool: true, RawN: true})
		tw.Drop()
		if d := Diff(lo, to, nil); d != "" {
			return r.viol("live-differs-from-reopened", "%s (live vs reopened): %s", n.Name, d)
		}
		r.rc.St.Probes["reopen-compared"]++
	}
	if cfg.Diff && (final || cfg.DiffEveryN <= 1 || r.step%cfg.DiffEveryN == 0) && len(r.rc.BG) == 0 {
		if vi := r.checkFreshReplay(n); vi != nil {
			return vi
		}
	}
	return nil
}

func diffFilterState(k string) bool {
	if !strings.HasPrefix(k, "S.") {
		return false
	}
	// depend on the ledger's height / content rather than on the state at B
	if strings.HasPrefix(k, "S.baldet.") || strings.HasPrefix(k, "S.frozen.") || strings.HasPrefix(k, "S.qtx.") || strings.HasPrefix(k, "S.hastx.") {
		return false
	}
	if strings.HasPrefix(k, "S.raw.N") || k == "S.pool" {
		return false
	}
	// the irreversible height depends on every block ever applied, not on B alone (property C17)
	if k == "S.meta.irr" || k == "S.raw.M.MIrreversibleBlockHeight" {
		return false
	}
	return true
}

// checkFreshReplay: C01(a) — a fresh node plays genesis..B, re-admits the pool, and must agree.
func (r *chainRun) checkFreshReplay(n *Node) *Violation {
	tip := n.S.GetLatestBlockid()
	path, err := r.cm.Path(tip)
	if err != nil {
		return r.viol("state-at-unknown-block", "%v", err)
	}
	f, err := r.w.Fresh("fresh", 0)
	if err != nil {
		panic(err)
	}
	defer f.Drop()
	saveBG := r.rc.BG
	if vi := r.replayPath(f, n, path); vi != nil {
		// discriminate the known root cause "block validity depends on the utxo cache capacity":
		// the same replay with a large cache succeeds
		if r.w.K.UtxoCache > 0 && r.w.K.UtxoCache < 100 {
			big := *r.w.K
			big.UtxoCache = 100000
			f2, err := r.w.FreshWith("fresh-bigcache", 0, &big)
			if err != nil {
				panic(err)
			}
			defer f2.Drop()
			if r.replayPath(f2, n, path) == nil {
				vi.Clause = "block-unplayable-with-small-utxo-cache"
				vi.Op = "fresh-replay" // the finding is identified by the discriminator, not by the step that happened to precede the comparison
			}
		}
		r.rc.BG = saveBG
		return vi
	}
	pool, _ := n.S.GetUnconfirmedTx(false)
	for _, t := range pool {
		c := CloneTx(t)
		c.Blockid = nil // membership in the pool is what is replayed; C05 compares the records themselves
		if err := f.S.DoTx(c); err != nil {
			return r.viol("pool-not-replayable", "pool transaction %s of %s cannot be admitted on a fresh node at the same block: %v", hx(t.Txid), n.Name, err)
		}
	}
	r.rc.BG = saveBG
	lo := NewObs()
	n.ObsState(r.u, lo, StateObsOpts{})
	fo := NewObs()
	f.ObsState(r.u, fo, StateObsOpts{})
	if d := Diff(lo, fo, diffFilterState); d != "" {
		return r.viol("state-differs-from-fresh-replay", "%s at block %s (h=%d) vs fresh replay: %s", n.Name, hx(tip), len(path)-1, d)
	}
	r.rc.St.Probes["fresh-replay-compared"]++
	return nil
}

func (r *chainRun) replayPath(f *Node, n *Node, path []*MBlock) *Violation {
	// the fresh node's ledger holds the same block tree as the node's (admission of frozen
	// outputs looks at the ledger height); its state plays genesis..B only
	var v *nodeView
	for i, x := range r.w.Nodes {
		if x == n {
			v = r.views[i]
		}
	}
	onPath := map[string]bool{}
	for _, mb := range path {
		onPath[string(mb.ID)] = true
	}
	for _, mb := range path[1:] {
		cs := f.L.ConfirmBlock(CloneBlock(mb.Block), false)
		if !cs.Succ {
			return r.viol("fresh-replay-refused", "fresh node refuses block %s (h=%d) of the chain %s sits on: %v", hx(mb.ID), mb.Height, n.Name, cs.Error)
		}
	}
	if v != nil {
		for _, id := range v.stored {
			mb := r.cm.Blocks[id]
			if onPath[id] || !f.L.ExistBlock(mb.Pre) {
				continue
			}
			f.L.ConfirmBlock(CloneBlock(mb.Block), false)
		}
	}
	// two ways a node catches up: block by block (Play), or one Walk over the whole path (what the
	// sync path and a restarted node do); which one is a function of the plan and the step
	if (r.plan.Seed+uint64(r.step))%2 == 1 && len(path) > 1 {
		last := path[len(path)-1]
		r.rc.St.Probes["fresh-replay-by-walk"]++
		if err := f.S.Walk(last.ID, false); err != nil {
			return r.viol("fresh-replay-refused", "fresh node cannot walk to block %s (h=%d) of the chain %s sits on: %v", hx(last.ID), last.Height, n.Name, err)
		}
		return nil
	}
	for _, mb := range path[1:] {
		if err := f.S.Play(mb.ID); err != nil {
			return r.viol("fresh-replay-refused", "fresh node cannot play block %s (h=%d) of the chain %s sits on: %v", hx(mb.ID), mb.Height, n.Name, err)
		}
	}
	return nil
}

// checkConservation: C02.
func sortedAddrs(m map[string]*big.Int) []string {
	var ks []string
	for k := range m {
		ks = append(ks, k)
	}
	sortStrings(ks)
	return ks
}

func (r *chainRun) checkConservation(n *Node, cur *MState) *Violation {
	us, err := n.ListUtxos("")
	if err != nil {
		return r.viol("utxo-table-unreadable", "%v", err)
	}
	sum := new(big.Int)
	per := map[string]*big.Int{}
	for _, u := range us {
		sum.Add(sum, u.Amount)
		if per[u.Addr] == nil {
			per[u.Addr] = new(big.Int)
		}
		per[u.Addr].Add(per[u.Addr], u.Amount)
	}
	// every output the node offers to a spender is an unspent output of that address (the selection is
	// served from the utxo cache first: a stale cache entry shows here and nowhere in the tables)
	exists := map[string]*big.Int{}
	for _, u := range us {
		exists[utxoKey([]byte(u.Addr), u.Txid, u.Offset)] = u.Amount
	}
	for _, a := range sortedAddrs(per) {
		if a == "$" || per[a].Sign() == 0 {
			continue
		}
		ins, _, _, err := n.S.SelectUtxos(a, per[a], false, false)
		if err != nil {
			continue // (frozen outputs: not everything is selectable)
		}
		for _, in := range ins {
			k := utxoKey(in.FromAddr, in.RefTxid, in.RefOffset)
			amt := new(big.Int).SetBytes(in.Amount)
			if exists[k] == nil || exists[k].Cmp(amt) != 0 {
				return r.viol("selection-offers-nonexistent-output", "%s: SelectUtxos(%s) offers %s = %s, the unspent-output table holds %v for it", n.Name, a, k, amt, exists[k])
			}
		}
		r.rc.St.Probes["selection-checked-against-table"]++
	}
	pool, _ := n.S.GetUnconfirmedTx(false)
	fee := new(big.Int)
	for _, t := range pool {
		for _, o := range t.TxOutputs {
			if string(o.ToAddr) == "$" {
				fee.Add(fee, new(big.Int).SetBytes(o.Amount))
			}
		}
		if !t.Coinbase && !Balanced(t) {
			return r.viol("unbalanced-tx-admitted", "pool transaction %s has inputs != outputs", hx(t.Txid))
		}
	}
	total := n.S.GetTotal()
	lhs := new(big.Int).Add(sum, fee)
	if lhs.Cmp(total) != 0 {
		vi := r.viol("supply-mismatch", "%s: sum(unspent)=%s + pending fees=%s != reported total %s", n.Name, sum, fee, total)
		// discriminate "only the in-memory total is off": an instance reopened on the same data reports
		// the total that matches the table
		if tw, err := n.Twin(); err == nil {
			if tw.S.GetTotal().Cmp(lhs) == 0 {
				vi.Clause = "in-memory-total-differs-from-disk"
				vi.Msg += fmt.Sprintf(" (a reopened instance reports %s)", tw.S.GetTotal())
			}
			tw.Drop()
		}
		return vi
	}
	base, err := r.cm.StateAt(n.S.GetLatestBlockid())
	if err == nil && base.Total.Cmp(total) != 0 {
		return r.viol("total-not-coinbase-sum", "%s: reported total %s != sum of coinbase outputs of applied blocks %s", n.Name, total, base.Total)
	}
	for _, a := range r.u.Addrs {
		b, err := n.S.GetBalance(a)
		if err != nil {
			return r.viol("balance-unreadable", "%v", err)
		}
		want := per[a]
		if want == nil {
			want = new(big.Int)
		}
		if b.Cmp(want) != 0 {
			return r.viol("balance-mismatch", "%s: GetBalance(%s)=%s but its unspent outputs sum to %s", n.Name, a, b, want)
		}
	}
	// every confirmed non-coinbase transaction of applied blocks is balanced
	path, _ := r.cm.Path(n.S.GetLatestBlockid())
	for _, mb := range path {
		for _, t := range mb.Block.Transactions {
			if !t.Coinbase && !t.Autogen && !Balanced(t) {
				return r.viol("unbalanced-tx-admitted", "confirmed transaction %s in block %s has inputs != outputs", hx(t.Txid), hx(mb.ID))
			}
		}
	}
	return nil
}

// checkModelState: C01(b) — U table, totals and key versions equal S(B) (+) pool.
func (r *chainRun) checkModelState(n *Node, cur *MState) *Violation {
	us, err := n.ListUtxos("")
	if err != nil {
		return r.viol("utxo-table-unreadable", "%v", err)
	}
	got := map[string]MUtxo{}
	for _, u := range us {
		got[utxoKey([]byte(u.Addr), u.Txid, u.Offset)] = MUtxo{Amount: u.Amount, Frozen: u.Frozen}
	}
	for _, k := range cur.SortedUtxoKeys() {
		w := cur.Utxo[k]
		g, ok := got[k]
		if !ok {
			return r.viol("model-utxo-missing", "%s: unspent output %s (amount %s) expected by the model is absent", n.Name, shortKey(k), w.Amount)
		}
		if g.Amount.Cmp(w.Amount) != 0 || g.Frozen != w.Frozen {
			return r.viol("model-utxo-differs", "%s: output %s is %s/f%d, model says %s/f%d", n.Name, shortKey(k), g.Amount, g.Frozen, w.Amount, w.Frozen)
		}
	}
	var gk []string
	for k := range got {
		gk = append(gk, k)
	}
	sort.Strings(gk)
	for _, k := range gk {
		if _, ok := cur.Utxo[k]; !ok {
			return r.viol("model-utxo-extra", "%s: unspent output %s (amount %s) exists but the model says it is spent or never existed", n.Name, shortKey(k), got[k].Amount)
		}
	}
	rd := n.S.CreateXMReader()
	for _, bk := range r.u.Keys {
		v, err := rd.Get(bk[0], []byte(bk[1]))
		if err != nil {
			return r.viol("key-unreadable", "%s: Get(%s/%s) failed: %v", n.Name, bk[0], bk[1], err)
		}
		w, ok := cur.KV[bk[0]+"/"+bk[1]]
		if !ok {
			if len(v.RefTxid) != 0 {
				return r.viol("model-key-differs", "%s: key %s/%s has version %s_%d but was never written on this chain", n.Name, bk[0], bk[1], hx(v.RefTxid), v.RefOffset)
			}
			continue
		}
		if !bytes.Equal(v.RefTxid, w.Txid) || v.RefOffset != w.Off || !bytes.Equal(v.GetPureData().GetValue(), w.Value) {
			return r.viol("model-key-differs", "%s: key %s/%s is %q@%s_%d, model says %q@%s_%d", n.Name, bk[0], bk[1], v.GetPureData().GetValue(), hx(v.RefTxid), v.RefOffset, w.Value, hx(w.Txid), w.Off)
		}
	}
	for _, b := range r.u.Buckets {
		it, err := rd.Select(b, []byte(""), []byte("\xff"))
		if err != nil {
			return r.viol("key-unreadable", "select: %v", err)
		}
		var keys []string
		for it.Next() {
			keys = append(keys, string(it.Key()))
		}
		it.Close()
		var want []string
		for k, w := range cur.KV {
			if strings.HasPrefix(k, b+"/") && !w.Deleted {
				want = append(want, strings.TrimPrefix(k, b+"/"))
			}
		}
		sort.Strings(want)
		if fmt.Sprint(keys) != fmt.Sprint(want) {
			return r.viol("model-scan-differs", "%s: Select(%s) yields %v, model says %v", n.Name, b, keys, want)
		}
	}
	return nil
}

func shortKey(k string) string {
	a := addrOfKey(k)
	rest := strings.TrimPrefix(k, a+"_")
	if len(rest) > 12 {
		rest = rest[:8] + ".." + rest[len(rest)-2:]
	}
	return a[:min(6, len(a))] + "_" + rest
}

// checkIrr: C17.
func (r *chainRun) checkIrr(n *Node, v *nodeView) *Violation {
	m := n.S.GetMeta()
	w := int64(r.plan.Window)
	if m.IrreversibleSlideWindow != w {
		return r.viol("window-changed", "%s: slide window %d, configured %d", n.Name, m.IrreversibleSlideWindow, w)
	}
	if w > 0 && !v.pruned {
		want := int64(0)
		for id := range v.applied {
			if h := r.cm.Blocks[id].Height - w; h > want {
				want = h
			}
		}
		if m.IrreversibleBlockHeight != want {
			return r.viol("irreversible-height-wrong", "%s: irreversible height %d, expected max(applied height - %d)=%d", n.Name, m.IrreversibleBlockHeight, w, want)
		}
		if m.IrreversibleBlockHeight < v.maxIrr {
			return r.viol("irreversible-height-decreased", "%s: irreversible height went from %d to %d without pruning", n.Name, v.maxIrr, m.IrreversibleBlockHeight)
		}
		v.maxIrr = m.IrreversibleBlockHeight
		// the chain the state sits on still contains every applied block at height <= irr
		tip := n.S.GetLatestBlockid()
		var ids []string
		for id := range v.applied {
			ids = append(ids, id)
		}
		sort.Strings(ids)
		for _, id := range ids {
			mb := r.cm.Blocks[id]
			if mb.Height <= m.IrreversibleBlockHeight && mb.Height > 0 && !r.cm.IsAncestor(mb.ID, tip) {
				// only blocks that were applied when they became irreversible count: a block at height
				// <= irr on a branch that was undone before irr passed it is not protected
				if r.wasFinal(v, mb) {
					return r.viol("irreversible-block-undone", "%s: state sits on %s which excludes applied block %s at height %d <= irreversible height %d", n.Name, hx(tip), hx(mb.ID), mb.Height, m.IrreversibleBlockHeight)
				}
			}
		}
	}
	if w == 0 && m.IrreversibleBlockHeight != 0 {
		return r.viol("irreversible-height-wrong", "%s: window 0 but irreversible height %d", n.Name, m.IrreversibleBlockHeight)
	}
	return nil
}

// wasFinal reports whether block mb had a descendant applied at height >= mb.Height + window,
// i.e. whether mb itself was at or below the irreversible height while applied.
func (r *chainRun) wasFinal(v *nodeView, mb *MBlock) bool {
	w := int64(r.plan.Window)
	for id := range v.applied {
		d := r.cm.Blocks[id]
		if d.Height-w >= mb.Height && r.cm.IsAncestor(mb.ID, d.ID) {
			return true
		}
	}
	return false
}

// checkSnapshots: C18 — snapshot at every main-chain block equals the model's S(B).
func (r *chainRun) checkSnapshots(n *Node) *Violation {
	m := n.L.GetMeta()
	// snapshots are defined for blocks of the main chain up to the block the state has applied
	stTip := n.S.GetLatestBlockid()
	if !bytes.Equal(stTip, m.TipBlockid) {
		return nil
	}
	path, err := r.cm.Path(stTip)
	if err != nil {
		return nil
	}
	for _, mb := range path {
		ms, err := r.cm.StateAt(mb.ID)
		if err != nil {
			continue
		}
		snap, err := n.S.CreateSnapshot(mb.ID)
		if err != nil {
			return r.viol("snapshot-unavailable", "%s: CreateSnapshot(%s) failed: %v", n.Name, hx(mb.ID), err)
		}
		sr, err := n.S.CreateXMSnapshotReader(mb.ID)
		if err != nil {
			return r.viol("snapshot-unavailable", "%s: CreateXMSnapshotReader(%s) failed: %v", n.Name, hx(mb.ID), err)
		}
		for _, bk := range r.u.Keys {
			got, err := snap.Get(bk[0], []byte(bk[1]))
			if err != nil {
				return r.viol("snapshot-read-failed", "%s: snapshot(%s h=%d).Get(%s/%s): %v", n.Name, hx(mb.ID), mb.Height, bk[0], bk[1], err)
			}
			w, ok := ms.KV[bk[0]+"/"+bk[1]]
			gv := got.GetPureData().GetValue()
			if !ok {
				if len(got.RefTxid) != 0 || len(gv) != 0 {
					return r.viol("snapshot-wrong", "%s: snapshot(h=%d) key %s/%s = %q@%s but it was never written up to that block", n.Name, mb.Height, bk[0], bk[1], gv, hx(got.RefTxid))
				}
			} else if !bytes.Equal(got.RefTxid, w.Txid) || got.RefOffset != w.Off || !bytes.Equal(gv, w.Value) {
				return r.viol("snapshot-wrong", "%s: snapshot(h=%d of %d) key %s/%s = %q@%s_%d, value when that block was tip: %q@%s_%d", n.Name, mb.Height, m.TrunkHeight, bk[0], bk[1], gv, hx(got.RefTxid), got.RefOffset, w.Value, hx(w.Txid), w.Off)
			}
			rv, err := sr.Get(bk[0], []byte(bk[1]))
			if err != nil {
				return r.viol("snapshot-read-failed", "%s: snapshot reader(%s).Get: %v", n.Name, hx(mb.ID), err)
			}
			if !bytes.Equal(rv, gv) {
				return r.viol("snapshot-readers-disagree", "%s: CreateSnapshot and CreateXMSnapshotReader disagree at h=%d on %s/%s: %q vs %q", n.Name, mb.Height, bk[0], bk[1], gv, rv)
			}
		}
		r.rc.St.Probes["snapshot-compared"]++
		if mb.Height < m.TrunkHeight {
			r.rc.St.Probes["snapshot-below-tip"]++
		}
	}
	return nil
}

// checkLedger: C04 — every ledger query against the block-tree model.
func (r *chainRun) checkLedger(n *Node, v *nodeView) *Violation {
	m := n.L.GetMeta()
	if !bytes.Equal(m.RootBlockid, r.cm.Root) {
		return r.viol("ledger-root", "%s: root %s", n.Name, hx(m.RootBlockid))
	}
	if string(m.TipBlockid) != v.tip {
		return r.viol("ledger-tip", "%s: tip is %s (h=%d) but the main-chain rule gives %s (h=%d)", n.Name, hx(m.TipBlockid), m.TrunkHeight, hx([]byte(v.tip)), r.cm.Blocks[v.tip].Height)
	}
	tipMB := r.cm.Blocks[v.tip]
	if m.TrunkHeight != tipMB.Height {
		return r.viol("ledger-height", "%s: trunk height %d, tip block height %d", n.Name, m.TrunkHeight, tipMB.Height)
	}
	main, _ := r.cm.Path([]byte(v.tip))
	onMain := map[string]*MBlock{}
	next := map[string][]byte{}
	for i, mb := range main {
		onMain[string(mb.ID)] = mb
		if i+1 < len(main) {
			next[string(mb.ID)] = main[i+1].ID
		}
	}
	// children count for leaves
	hasChild := map[string]bool{}
	for _, id := range v.stored {
		hasChild[string(r.cm.Blocks[id].Pre)] = hasChild[string(r.cm.Blocks[id].Pre)] || v.storedSet[string(r.cm.Blocks[id].Pre)]
	}
	for _, mb := range r.cm.Order {
		id := string(mb.ID)
		stored := v.storedSet[id]
		if n.L.ExistBlock(mb.ID) != stored {
			return r.viol("ledger-exist", "%s: ExistBlock(%s)=%v, expected %v", n.Name, hx(mb.ID), !stored, stored)
		}
		b, err := n.L.QueryBlock(mb.ID)
		h, err2 := n.L.QueryBlockHeader(mb.ID)
		if !stored {
			if err == nil || err2 == nil {
				return r.viol("ledger-query-absent", "%s: block %s is not stored but QueryBlock/Header answers", n.Name, hx(mb.ID))
			}
			continue
		}
		if err != nil || err2 != nil {
			return r.viol("ledger-query-failed", "%s: stored block %s: QueryBlock err=%v header err=%v", n.Name, hx(mb.ID), err, err2)
		}
		for _, q := range []*lpb.InternalBlock{b, h} {
			_, trunk := onMain[id]
			if q.InTrunk != trunk {
				return r.viol("ledger-intrunk", "%s: block %s (h=%d) InTrunk=%v, main chain says %v", n.Name, hx(mb.ID), mb.Height, q.InTrunk, trunk)
			}
			if q.Height != mb.Height {
				return r.viol("ledger-block-height", "%s: block %s height %d, expected %d", n.Name, hx(mb.ID), q.Height, mb.Height)
			}
			if !bytes.Equal(q.PreHash, mb.Pre) {
				return r.viol("ledger-prehash", "%s: block %s prehash differs", n.Name, hx(mb.ID))
			}
			wantNext := next[id]
			if !trunk {
				wantNext = nil
			}
			if !bytes.Equal(q.NextHash, wantNext) {
				return r.viol("ledger-nexthash", "%s: block %s (h=%d trunk=%v) NextHash=%s, expected %s", n.Name, hx(mb.ID), mb.Height, trunk, hx(q.NextHash), hx(wantNext))
			}
		}
		if len(b.Transactions) != len(mb.Block.Transactions) {
			return r.viol("ledger-block-body", "%s: block %s has %d transactions, produced with %d", n.Name, hx(mb.ID), len(b.Transactions), len(mb.Block.Transactions))
		}
		for i, t := range b.Transactions {
			if !bytes.Equal(t.Txid, mb.Block.Transactions[i].Txid) {
				return r.viol("ledger-block-body", "%s: block %s transaction #%d differs", n.Name, hx(mb.ID), i)
			}
		}
	}
	for hgt := int64(0); hgt <= m.TrunkHeight+2; hgt++ {
		b, err := n.L.QueryBlockByHeight(hgt)
		if hgt <= m.TrunkHeight {
			if err != nil {
				return r.viol("ledger-by-height", "%s: QueryBlockByHeight(%d) failed: %v", n.Name, hgt, err)
			}
			if !bytes.Equal(b.Blockid, main[hgt].ID) {
				return r.viol("ledger-by-height", "%s: QueryBlockByHeight(%d)=%s, main chain has %s", n.Name, hgt, hx(b.Blockid), hx(main[hgt].ID))
			}
		} else if err == nil {
			return r.viol("ledger-by-height", "%s: QueryBlockByHeight(%d) answers %s above the tip", n.Name, hgt, hx(b.Blockid))
		}
	}
	// transactions: where does each known tx live
	for _, txid := range r.u.Txs {
		var mainBlk *MBlock
		var anyBlk *MBlock
		mainSet := map[string]bool{} // a (defective) chain may carry the transaction in several of its blocks
		for _, id := range v.stored {
			mb := r.cm.Blocks[id]
			for _, t := range mb.Block.Transactions {
				if bytes.Equal(t.Txid, txid) {
					anyBlk = mb
					if _, ok := onMain[id]; ok {
						mainBlk = mb
						mainSet[id] = true
					}
				}
			}
		}
		t, err := n.L.QueryTransaction(txid)
		has, _ := n.L.HasTransaction(txid)
		if anyBlk == nil {
			// a truncated block's transactions may linger in the confirmed table; only the
			// in-trunk answer is pinned down by the property
			if n.L.IsTxInTrunk(txid) {
				return r.viol("ledger-tx-intrunk", "%s: IsTxInTrunk(%s)=true but no stored block contains it", n.Name, hx(txid))
			}
			continue
		}
		if err != nil || !has {
			return r.viol("ledger-tx-missing", "%s: transaction %s of stored block %s not found (err=%v has=%v)", n.Name, hx(txid), hx(anyBlk.ID), err, has)
		}
		if n.L.IsTxInTrunk(txid) != (mainBlk != nil) {
			return r.viol("ledger-tx-intrunk", "%s: IsTxInTrunk(%s)=%v, main chain contains it: %v", n.Name, hx(txid), !(mainBlk != nil), mainBlk != nil)
		}
		qb, err := n.L.QueryBlockByTxid(txid)
		if mainBlk != nil {
			if !mainSet[string(t.Blockid)] {
				return r.viol("ledger-tx-block", "%s: transaction %s maps to block %s, main chain has it in %s", n.Name, hx(txid), hx(t.Blockid), hx(mainBlk.ID))
			}
			if err != nil || !mainSet[string(qb.Blockid)] {
				return r.viol("ledger-tx-block", "%s: QueryBlockByTxid(%s) err=%v", n.Name, hx(txid), err)
			}
		} else if err == nil && !v.storedSet[string(qb.Blockid)] {
			return r.viol("ledger-tx-block", "%s: QueryBlockByTxid(%s) names a block that is not stored", n.Name, hx(txid))
		}
	}
	// branch tips = leaves of the stored tree
	tips, err := n.L.GetBranchInfo(r.cm.Root, 0)
	if err != nil {
		return r.viol("ledger-branch", "GetBranchInfo: %v", err)
	}
	var got, want []string
	for _, t := range tips {
		got = append(got, hex.EncodeToString([]byte(t)))
	}
	for _, id := range v.stored {
		if !hasChild[id] && id != string(r.cm.Root) {
			want = append(want, hex.EncodeToString([]byte(id)))
		}
	}
	sort.Strings(got)
	sort.Strings(want)
	if fmt.Sprint(got) != fmt.Sprint(want) {
		return r.viol("ledger-branch", "%s: branch tips %v, leaves of the stored tree %v", n.Name, short(got), short(want))
	}
	// undo / todo paths between sampled pairs
	for i, a := range v.stored {
		for j, b := range v.stored {
			if (i+j+r.step)%3 != 0 && a != v.tip && b != v.tip {
				continue
			}
			undo, todo, err := n.L.FindUndoAndTodoBlocks([]byte(a), []byte(b))
			if err != nil {
				return r.viol("ledger-path", "%s: FindUndoAndTodoBlocks(%s,%s): %v", n.Name, hx([]byte(a)), hx([]byte(b)), err)
			}
			wu, wt := r.modelPath(a, b)
			if !sameIDs(undo, wu) || !sameIDs(todo, wt) {
				return r.viol("ledger-path", "%s: path %s -> %s: got %s, expected undo=%v todo=%v", n.Name, hx([]byte(a)), hx([]byte(b)), pathLine(undo, todo, nil), hxs(wu), hxs(wt))
			}
		}
	}
	return nil
}

func short(xs []string) []string {
	var o []string
	for _, x := range xs {
		o = append(o, x[:min(12, len(x))])
	}
	return o
}

func hxs(ids [][]byte) []string {
	var o []string
	for _, id := range ids {
		o = append(o, hx(id))
	}
	return o
}

func sameIDs(bs []*lpb.InternalBlock, ids [][]byte) bool {
	if len(bs) != len(ids) {
		return false
	}
	for i := range bs {
		if !bytes.Equal(bs[i].Blockid, ids[i]) {
			return false
		}
	}
	return true
}

// modelPath: the two path segments through the lowest common ancestor, newest first.
func (r *chainRun) modelPath(a, b string) (undo, todo [][]byte) {
	pa, _ := r.cm.Path([]byte(a))
	pb, _ := r.cm.Path([]byte(b))
	i := 0
	for i < len(pa) && i < len(pb) && bytes.Equal(pa[i].ID, pb[i].ID) {
		i++
	}
	for j := len(pa) - 1; j >= i; j-- {
		undo = append(undo, pa[j].ID)
	}
	for j := len(pb) - 1; j >= i; j-- {
		todo = append(todo, pb[j].ID)
	}
	return
}

func descTx(t *lpb.Transaction) string {
	s := hx(t.Txid) + " v" + fmt.Sprint(t.Version) + " in["
	for _, i := range t.TxInputs {
		s += fmt.Sprintf("%s_%s_%d=%s ", i.FromAddr[:4], hx(i.RefTxid), i.RefOffset, new(big.Int).SetBytes(i.Amount))
	}
	s += "] out["
	for _, o := range t.TxOutputs {
		s += fmt.Sprintf("%s=%s/f%d ", o.ToAddr[:min(4, len(o.ToAddr))], new(big.Int).SetBytes(o.Amount), o.FrozenHeight)
	}
	s += "] r["
	for _, i := range t.TxInputsExt {
		s += fmt.Sprintf("%s/%s@%s_%d ", i.Bucket, i.Key, hx(i.RefTxid), i.RefOffset)
	}
	s += "] w["
	for _, o := range t.TxOutputsExt {
		s += fmt.Sprintf("%s/%s=%q ", o.Bucket, o.Key, o.Value)
	}
	return s + "]"
}

func descTxids(ts []*lpb.Transaction) string {
	s := ""
	for _, t := range ts {
		s += hx(t.Txid) + ","
	}
	return s
}
