// Package sim is the xsim simulator core: scratch environments, node boot on simulated disks,
// clients, harness mining, the observation battery, reference models and the seeded runner.
package sim

import (
	"crypto/ecdsa"
	"encoding/json"
	"fmt"
	"os"
	"path/filepath"
	"sync"

	cryptoClient "github.com/xuperchain/xupercore/lib/crypto/client"
	cryptoBase "github.com/xuperchain/xupercore/lib/crypto/client/base"
	"github.com/xuperchain/xupercore/lib/logs"
)

// Acct is a fixed test identity.
type Acct struct {
	Idx             int
	Addr, Pub, Priv string
	SK              *ecdsa.PrivateKey
}

var (
	envOnce sync.Once
	envBase string
	// Crypto is the default (P-256) crypto client, used by harness clients and independent verifiers.
	Crypto cryptoBase.CryptoClient
	// Accts are the fixed identities (index = position in keys_gen.go).
	Accts []*Acct
)

// Base returns the per-process scratch directory (outside /repo and /verif).
func Base() string {
	initEnv()
	return envBase
}

func initEnv() {
	envOnce.Do(func() {
		root := os.Getenv("XSIM_SCRATCH")
		if root == "" {
			root = "/var/tmp"
		}
		var err error
		envBase, err = os.MkdirTemp(root, "xsim-env-")
		if err != nil {
			panic(err)
		}
		lvl := os.Getenv("XSIM_LOGLEVEL")
		if lvl == "" {
			lvl = "error"
		}
		must(os.MkdirAll(envBase+"/logconf", 0o755))
		must(os.WriteFile(envBase+"/logconf/log.yaml", []byte(fmt.Sprintf("module: xchain\nfilename: xchain\nfmt: logfmt\nconsole: false\nlevel: %s\n", lvl)), 0o644))
		logs.InitLog(envBase+"/logconf/log.yaml", envBase+"/logs")
		Crypto, err = cryptoClient.CreateCryptoClient("default")
		must(err)
		for i, k := range fixedKeys {
			sk, err := Crypto.GetEcdsaPrivateKeyFromJsonStr(k.Priv)
			must(err)
			Accts = append(Accts, &Acct{Idx: i, Addr: k.Addr, Pub: k.Pub, Priv: k.Priv, SK: sk})
		}
	})
}

// Cleanup removes the per-process scratch directory.
func Cleanup() {
	if envBase != "" && os.Getenv("XSIM_KEEP") == "" {
		os.RemoveAll(envBase)
	}
}

func must(err error) {
	if err != nil {
		panic(err)
	}
}

// Genesis holds the per-run chain parameters (knobs).
type Genesis struct {
	Consensus    string                 // single | tdpos | xpoa | pow
	ConsConfig   map[string]interface{} // config block of genesis_consensus
	Predist      map[int]string         // account index -> quota
	Award        string
	NoFee        bool
	SlideWindow  int
	MaxBlockMB   int
	NewAcctRes   int64
	AwardGap     int64
	AwardRatio   float64
	Reserved     []map[string]interface{}
	GasAllZero   bool
	ExtraPredist map[string]string // raw address -> quota
}

// JSON renders the genesis configuration.
func (g *Genesis) JSON() []byte {
	initEnv()
	type pd struct {
		Address string `json:"address"`
		Quota   string `json:"quota"`
	}
	var pds []pd
	for i := 0; i < len(Accts); i++ {
		if q, ok := g.Predist[i]; ok {
			pds = append(pds, pd{Accts[i].Addr, q})
		}
	}
	var extra []string
	for a := range g.ExtraPredist {
		extra = append(extra, a)
	}
	sortStrings(extra)
	for _, a := range extra {
		pds = append(pds, pd{a, g.ExtraPredist[a]})
	}
	mb := g.MaxBlockMB
	if mb == 0 {
		mb = 16
	}
	award := g.Award
	if award == "" {
		award = "1000000"
	}
	gap := g.AwardGap
	if gap == 0 {
		gap = 31536000
	}
	ratio := g.AwardRatio
	if ratio == 0 {
		ratio = 1
	}
	gas := map[string]interface{}{"cpu_rate": 1000, "mem_rate": 1000000, "disk_rate": 1, "xfee_rate": 1}
	if g.GasAllZero {
		gas = map[string]interface{}{"cpu_rate": 0, "mem_rate": 0, "disk_rate": 0, "xfee_rate": 0}
	}
	cons := g.Consensus
	if cons == "" {
		cons = "single"
	}
	cc := g.ConsConfig
	if cc == nil {
		cc = map[string]interface{}{"miner": Accts[0].Addr, "period": "3000"}
	}
	m := map[string]interface{}{
		"version":                     "1",
		"predistribution":             pds,
		"maxblocksize":                fmt.Sprint(mb),
		"award":                       award,
		"decimals":                    "8",
		"nofee":                       g.NoFee,
		"award_decay":                 map[string]interface{}{"height_gap": gap, "ratio": ratio},
		"gas_price":                   gas,
		"new_account_resource_amount": g.NewAcctRes,
		"irreversibleslidewindow":     fmt.Sprint(g.SlideWindow),
		"genesis_consensus":           map[string]interface{}{"name": cons, "config": cc},
	}
	if len(g.Reserved) > 0 {
		m["reserved_contracts"] = g.Reserved
	}
	b, err := json.Marshal(m)
	must(err)
	return b
}

// Knobs are per-run configuration values outside genesis.
type Knobs struct {
	UtxoCache   int            // ledger.yaml utxo.cachesize
	TmpLockSecs int            // ledger.yaml utxo.tmplockSeconds
	Tune        map[string]int // T8 tunables (BlockCacheSize, ...)
}

func writeNodeDir(root string, keyIdx int, g *Genesis, k *Knobs) {
	initEnv()
	must(os.MkdirAll(filepath.Join(root, "conf"), 0o755))
	must(os.MkdirAll(filepath.Join(root, "data/keys"), 0o755))
	must(os.MkdirAll(filepath.Join(root, "data/genesis"), 0o755))
	cache, lockSecs := k.UtxoCache, k.TmpLockSecs
	if cache <= 0 {
		cache = 1000
	}
	if lockSecs <= 0 {
		lockSecs = 60
	}
	w := func(name, content string) { must(os.WriteFile(filepath.Join(root, name), []byte(content), 0o644)) }
	w("conf/ledger.yaml", fmt.Sprintf("kvEngineType: simkv\nstorageType: single\nutxo:\n  cachesize: %d\n  tmplockSeconds: %d\n", cache, lockSecs))
	w("conf/contract.yaml", "enableUpgrade: true\nwasm:\n  enable: false\n  driver: \"xvm\"\nevm:\n  enable: false\n  driver: \"evm\"\nnative:\n  enable: false\nxkernel:\n  enable: true\n  driver: \"default\"\n")
	w("conf/engine.yaml", "rootChain: xuper\nblockBroadcastMode: 0\nminNewChainAmount: \"100\"\n")
	a := Accts[keyIdx]
	w("data/keys/address", a.Addr)
	w("data/keys/public.key", a.Pub)
	w("data/keys/private.key", a.Priv)
	must(os.WriteFile(filepath.Join(root, "data/genesis/xuper.json"), g.JSON(), 0o644))
}

func sortStrings(s []string) {
	for i := 1; i < len(s); i++ {
		for j := i; j > 0 && s[j] < s[j-1]; j-- {
			s[j], s[j-1] = s[j-1], s[j]
		}
	}
}
