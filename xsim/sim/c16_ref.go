package sim

import (
	"fmt"
	"math/big"
)

// ---- C16 reference pieces (independent of the code under test) ----------------------------------

// c16RefCompact decodes a compact difficulty encoding (sign-and-magnitude floating format: the top
// byte is the size in bytes, the low 23 bits the mantissa, bit 0x00800000 the sign).
func c16RefCompact(c uint32) (v *big.Int, negative bool) {
	size := uint(c >> 24)
	mant := int64(c & 0x007fffff)
	v = big.NewInt(mant)
	if size <= 3 {
		v.Rsh(v, 8*(3-size))
	} else {
		v.Lsh(v, 8*(size-3))
	}
	negative = v.Sign() != 0 && c&0x00800000 != 0
	return v, negative
}

// c16RefTarget is the target a proof must not exceed for a bits value: the decoded compact value for
// the compact style, 2^(256-bits) for the leading-zero style.
func c16RefTarget(bitcoin bool, bits uint32) (t *big.Int, valid bool) {
	if bitcoin {
		v, neg := c16RefCompact(bits)
		return v, !neg
	}
	if bits > 256 {
		return big.NewInt(0), false
	}
	t = big.NewInt(1)
	t.Lsh(t, uint(256-bits))
	return t, true
}

func c16HashInt(id []byte) *big.Int { return new(big.Int).SetBytes(id) }

// c16IntBytes32 renders x as a 32-byte big-endian id (x must fit).
func c16IntBytes32(x *big.Int) []byte {
	b := x.Bytes()
	if len(b) >= 32 {
		return b[len(b)-32:]
	}
	out := make([]byte, 32)
	copy(out[32-len(b):], b)
	return out
}

// c16Slot is the schedule's own label of an instant.
type c16Slot struct {
	Term, Pos, BlockPos int64
	Valid               bool   // the schedule names a producer
	Who                 string // the named producer (address) when Valid
}

func (a c16Slot) same(b c16Slot) bool {
	return a.Term == b.Term && a.Pos == b.Pos && a.BlockPos == b.BlockPos && a.Valid == b.Valid && a.Who == b.Who
}

// c16Sample is one observed instant of a tiling sweep.
type c16Sample struct {
	T   int64 // millisecond
	Lab c16Slot
	Acc []string // proposers whose block with this timestamp is accepted (candidate order)
}

// c16Run is a maximal stretch of samples entitled to the same producer inside one term.
type c16Run struct {
	Who         string
	Term        int64
	First, Last int64
	Slots       map[[2]int64]bool
}

// c16TileOracle judges a sweep against the statement: at most one entitled producer per instant,
// an accepted producer is the one the schedule names, entitled stretches follow the configured
// validator order term after term without overlap, and every validator owns its configured number
// of consecutive slots (period-long production intervals) in every complete term.
// firstFull / lastFull bound the terms that lie completely inside the sweep.
func c16TileOracle(samples []c16Sample, validators []string, blockNum, period int64, firstFull, lastFull int64) (clause, msg string) {
	var runs []*c16Run
	var cur *c16Run
	prevTerm := int64(-1 << 62)
	for i := range samples {
		s := &samples[i]
		if len(s.Acc) > 1 {
			return "tile-two-entitled", fmt.Sprintf("instant %d ms: blocks of %v are all accepted", s.T, c16Shorts(s.Acc))
		}
		if len(s.Acc) == 1 && (!s.Lab.Valid || s.Lab.Who != s.Acc[0]) {
			return "tile-accept-unscheduled", fmt.Sprintf("instant %d ms: block of %s accepted, the schedule (term %d pos %d blockPos %d valid=%v) names %q", s.T, shortAddr(s.Acc[0]), s.Lab.Term, s.Lab.Pos, s.Lab.BlockPos, s.Lab.Valid, shortAddr(s.Lab.Who))
		}
		if s.Lab.Term < prevTerm {
			return "tile-term-order", fmt.Sprintf("instant %d ms: term label %d after %d", s.T, s.Lab.Term, prevTerm)
		}
		if prevTerm > -1<<62 && s.Lab.Term > prevTerm+1 {
			return "tile-term-order", fmt.Sprintf("instant %d ms: term label jumps %d -> %d", s.T, prevTerm, s.Lab.Term)
		}
		prevTerm = s.Lab.Term
		who := ""
		if len(s.Acc) == 1 {
			who = s.Acc[0]
		}
		if who == "" {
			cur = nil
			continue
		}
		if cur == nil || cur.Who != who || cur.Term != s.Lab.Term {
			cur = &c16Run{Who: who, Term: s.Lab.Term, First: s.T, Slots: map[[2]int64]bool{}}
			runs = append(runs, cur)
		}
		cur.Last = s.T
		cur.Slots[[2]int64{s.Lab.Pos, s.Lab.BlockPos}] = true
	}
	byTerm := map[int64][]*c16Run{}
	for _, r := range runs {
		byTerm[r.Term] = append(byTerm[r.Term], r)
	}
	for t := firstFull; t <= lastFull; t++ {
		rs := byTerm[t]
		if len(rs) != len(validators) {
			var who []string
			for _, r := range rs {
				who = append(who, fmt.Sprintf("%s[%d..%d]", shortAddr(r.Who), r.First, r.Last))
			}
			return "tile-order", fmt.Sprintf("term %d: %d entitled stretches %v for %d validators", t, len(rs), who, len(validators))
		}
		for i, r := range rs {
			if r.Who != validators[i] {
				return "tile-order", fmt.Sprintf("term %d: stretch %d [%d..%d ms] belongs to %s, configured order names %s", t, i, r.First, r.Last, shortAddr(r.Who), shortAddr(validators[i]))
			}
			if int64(len(r.Slots)) != blockNum {
				return "tile-slot-count", fmt.Sprintf("term %d: %s owns %d slots in [%d..%d ms], configured block_num %d", t, shortAddr(r.Who), len(r.Slots), r.First, r.Last, blockNum)
			}
			l := r.Last - r.First + 1
			if l > blockNum*period || l <= (blockNum-1)*period {
				return "tile-slot-count", fmt.Sprintf("term %d: %s is entitled for %d ms [%d..%d], which is not %d consecutive slots of %d ms", t, shortAddr(r.Who), l, r.First, r.Last, blockNum, period)
			}
		}
	}
	return "", ""
}

func shortAddr(a string) string {
	if len(a) > 6 {
		return a[:6]
	}
	return a
}

func c16Shorts(xs []string) []string {
	var o []string
	for _, x := range xs {
		o = append(o, shortAddr(x))
	}
	return o
}

// ---- xpoa rotation (reference, written from the statement) ----------------------------------------

// c16RefXpoaSlot is the rotation the statement describes for xpoa: time (milliseconds since the
// epoch) is cut into terms of n*blockNum slots of `period` ms; inside a term the validator at list
// position i owns the blockNum consecutive slots [i*blockNum, (i+1)*blockNum). It returns the term
// (counted from 0), the list position of the entitled validator and the slot inside its turn (from 0).
func c16RefXpoaSlot(tsNs, period, blockNum int64, n int) (term, pos, slot int64) {
	ms := tsNs / 1000000
	turn := period * blockNum
	termLen := turn * int64(n)
	term = ms / termLen
	off := ms % termLen
	return term, off / turn, (off % turn) / period
}

// c16RefXpoaEntitled names the producer entitled at tsNs when `set` is the validator list in force
// ("" when the reference names nobody: empty list or an instant before the epoch).
func c16RefXpoaEntitled(tsNs, period, blockNum int64, set []string) string {
	if len(set) == 0 || tsNs < 0 || period <= 0 || blockNum <= 0 {
		return ""
	}
	_, pos, _ := c16RefXpoaSlot(tsNs, period, blockNum, len(set))
	return set[pos]
}

// c16Epoch is one validator list and the height of the block whose transaction installed it
// (0: the configured initial list).
type c16Epoch struct {
	H   int64
	Set []string
}

// c16Window is the number of blocks after the block carrying a validator change during which the
// oracle accepts either list: the statement does not say when a change comes into force, so only
// heights before the change and at least c16Window blocks after it are judged against one list.
const c16Window = 6

// c16Admissible returns the lists that may govern a block of the given height: from the list of the
// last change that lies at least c16Window blocks back to the list of the last change at or below
// the height (epochs are ordered by height; the first is the initial list).
func c16Admissible(epochs []c16Epoch, height int64) []c16Epoch {
	lo, hi := 0, 0
	for i := 1; i < len(epochs); i++ {
		if epochs[i].H <= height {
			hi = i
		}
		if epochs[i].H+c16Window <= height {
			lo = i
		}
	}
	return epochs[lo : hi+1]
}
