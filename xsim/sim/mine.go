package sim

import (
	"bytes"
	"errors"
	"fmt"
	"time"

	"github.com/golang/protobuf/proto"
	"github.com/xuperchain/xupercore/bcs/ledger/xledger/state"
	"github.com/xuperchain/xupercore/bcs/ledger/xledger/tx"
	lpb "github.com/xuperchain/xupercore/bcs/ledger/xledger/xldgpb"
)

// MineOpts controls one harness-produced block. The harness miner performs the same public calls
// in the same order as miner.packBlock + confirmBlockForMiner.
type MineOpts struct {
	Proposer  *Acct // default: node identity
	MaxTx     int   // <0: all pending
	Timestamp int64
	NoPlay    bool // confirm into the ledger only
	// Txs, when non-nil, replaces the pool selection (used by adversarial block builders)
	Txs         []*lpb.Transaction
	SecondAward bool
	AwardAmount string
	NoAward     bool // the block carries no award of its own (an adversarial Txs[0] poses as it)
}

// ErrStateBehind is returned when the node's state is not at the ledger tip.
var ErrStateBehind = errors.New("xsim: state not at ledger tip")

// PackBlock assembles (does not confirm) a block on top of the node's state tip.
func (n *Node) PackBlock(o MineOpts) (*lpb.InternalBlock, error) {
	tip := n.S.GetLatestBlockid()
	hdr, err := n.L.QueryBlockHeader(tip)
	if err != nil {
		return nil, fmt.Errorf("tip header: %v", err)
	}
	height := hdr.Height + 1
	p := o.Proposer
	if p == nil {
		p = n.Acct()
	}
	var txs []*lpb.Transaction
	amount := o.AwardAmount
	if amount == "" {
		amount = n.L.GenesisBlock.CalcAward(height).String()
	}
	award, err := tx.GenerateAwardTx(p.Addr, amount, []byte("award"))
	if err != nil {
		return nil, err
	}
	if !o.NoAward {
		txs = append(txs, award)
	}
	if o.SecondAward {
		a2, _ := tx.GenerateAwardTx(p.Addr, amount, []byte("award2"))
		txs = append(txs, a2)
	}
	auto, err := n.S.GetTimerTx(height)
	if err != nil {
		return nil, fmt.Errorf("timer tx: %v", err)
	}
	if auto != nil && len(auto.TxOutputsExt) > 0 {
		txs = append(txs, auto)
	}
	if o.Txs != nil {
		txs = append(txs, o.Txs...)
	} else {
		pool, err := n.S.GetUnconfirmedTx(false)
		if err != nil {
			return nil, fmt.Errorf("pool: %v", err)
		}
		if o.MaxTx >= 0 && len(pool) > o.MaxTx {
			pool = pool[:o.MaxTx]
		}
		txs = append(txs, pool...)
	}
	ts := o.Timestamp
	if ts == 0 {
		ts = time.Now().UnixNano()
	}
	blk, err := n.L.FormatMinerBlock(txs, []byte(p.Addr), p.SK, ts, 0, 0, tip, 0, n.S.GetTotal(), nil, nil, height)
	if err != nil {
		return nil, err
	}
	return blk, nil
}

// Mine packs a block from the node's pool, confirms it and plays it for the miner.
func (n *Node) Mine(o MineOpts) (*lpb.InternalBlock, error) {
	if !bytes.Equal(n.L.GetMeta().TipBlockid, n.S.GetLatestBlockid()) {
		return nil, ErrStateBehind
	}
	blk, err := n.PackBlock(o)
	if err != nil {
		return nil, err
	}
	keep := proto.Clone(blk).(*lpb.InternalBlock)
	st := n.L.ConfirmBlock(blk, false)
	if !st.Succ {
		return keep, fmt.Errorf("confirm failed: %v", st.Error)
	}
	if st.Orphan || o.NoPlay {
		return keep, nil
	}
	if err := n.S.PlayForMiner(blk.Blockid); err != nil {
		return keep, fmt.Errorf("play for miner: %w", err)
	}
	if err := n.Ctx.Consensus.ProcessConfirmBlock(state.NewBlockAgent(blk)); err != nil {
		return keep, fmt.Errorf("consensus confirm: %v", err)
	}
	return keep, nil
}

// MineReal lets the node's own block producer (kernel/engines/xuperos/miner) run one round: the real
// packBlock (size budget, pool order), confirmBlockForMiner and the broadcast (a background task).
// It returns a copy of the new ledger tip.
func (n *Node) MineReal() (*lpb.InternalBlock, error) {
	before := append([]byte{}, n.L.GetMeta().TipBlockid...)
	if err := n.Chain.XsimMiner().XsimMining(n.BaseCtx()); err != nil {
		// the ledger may already have accepted the block (the state machine or the consensus failed later)
		if tip := n.L.GetMeta().TipBlockid; !bytes.Equal(tip, before) {
			if blk, qerr := n.L.QueryBlock(tip); qerr == nil {
				return proto.Clone(blk).(*lpb.InternalBlock), err
			}
		}
		return nil, err
	}
	tip := n.L.GetMeta().TipBlockid
	if bytes.Equal(tip, before) {
		return nil, fmt.Errorf("xsim: the miner reported success but the ledger tip did not move")
	}
	blk, err := n.L.QueryBlock(tip)
	if err != nil {
		return nil, err
	}
	return proto.Clone(blk).(*lpb.InternalBlock), nil
}

// CloneBlock returns a deep copy as a receiver would decode it from the wire.
func CloneBlock(b *lpb.InternalBlock) *lpb.InternalBlock {
	c := proto.Clone(b).(*lpb.InternalBlock)
	// fields a sender never transmits meaningfully are reset to what FormatBlock leaves
	return c
}

// CloneTx returns a deep copy of a transaction.
func CloneTx(t *lpb.Transaction) *lpb.Transaction { return proto.Clone(t).(*lpb.Transaction) }
