package sim

// C14 engine: quorum certificates are presented to the real chained-bft code on every entry path
// (DefaultSaftyRules.CheckProposal obtained through Smr.GetSaftyRules, the smr proposal handler,
// the smr vote collection, CalVotesThreshold, CheckVote, and - c14_chain.go - xpoa / tdpos
// CheckMinerMatch on a booted chain, c14_vc.go - the same across a validator change made on that
// chain) and every acceptance is judged by the independent verifier of c14_model.go.

import (
	"bytes"
	"container/list"
	"encoding/hex"
	"encoding/json"
	"fmt"
	"time"

	xctx "github.com/xuperchain/xupercore/kernel/common/xcontext"
	cbft "github.com/xuperchain/xupercore/kernel/consensus/base/driver/chained-bft"
	cCrypto "github.com/xuperchain/xupercore/kernel/consensus/base/driver/chained-bft/crypto"
	bftpb "github.com/xuperchain/xupercore/kernel/consensus/base/driver/chained-bft/pb"
	cctx "github.com/xuperchain/xupercore/kernel/consensus/context"
	nctx "github.com/xuperchain/xupercore/kernel/network/context"
	"github.com/xuperchain/xupercore/kernel/network/p2p"
	"github.com/xuperchain/xupercore/lib/logs"
	pb "github.com/xuperchain/xupercore/protos"
)

const c14CertView = 1 // view of the certified proposal

// c14Net is the transport stub handed to an Smr: it records what is sent.
type c14Net struct {
	acct string
	sent []c14Sent
}

type c14Sent struct {
	msg *pb.XuperMessage
	to  []string
}

func (e *c14Net) Start() {}
func (e *c14Net) Stop()  {}
func (e *c14Net) SendMessage(c xctx.XContext, m *pb.XuperMessage, o ...p2p.OptionFunc) error {
	e.sent = append(e.sent, c14Sent{msg: m, to: p2p.Apply(o).Accounts})
	return nil
}
func (e *c14Net) SendMessageWithResponse(c xctx.XContext, m *pb.XuperMessage, o ...p2p.OptionFunc) ([]*pb.XuperMessage, error) {
	return nil, nil
}
func (e *c14Net) NewSubscriber(t pb.XuperMessage_MessageType, v interface{}, o ...p2p.SubscriberOption) p2p.Subscriber {
	return nil
}
func (e *c14Net) Register(x p2p.Subscriber) error   { return nil }
func (e *c14Net) UnRegister(x p2p.Subscriber) error { return nil }
func (e *c14Net) Context() *nctx.NetCtx             { return nil }
func (e *c14Net) PeerInfo() pb.PeerInfo             { return pb.PeerInfo{Id: e.acct, Account: e.acct} }

// c14Election is the validator schedule handed to an Smr: the set V is in force for the certified
// view only; every other view has a different set that contains the outsiders, so that code which
// consults the wrong view's set is exposed.
type c14Election struct {
	v, other []string
	leader   string
}

func (e *c14Election) GetLeader(round int64) string { return e.leader }
func (e *c14Election) GetValidators(round int64) []string {
	if round == c14CertView {
		return e.v
	}
	return e.other
}
func (e *c14Election) GetIntAddress(a string) string { return a }

// c14H is the state of one run.
type c14H struct {
	p   *C14Plan
	k   *c14Keys
	rc  *RunCtx
	log logs.Logger

	coll     *Acct
	accAcct  *Acct
	acc      *cbft.Smr // the checking node
	accNet   *c14Net
	p1Msg    *pb.XuperMessage // proposal message announcing the certified proposal (justify = genesis)
	collSign *bftpb.QuorumCertSign
	voteOne  map[*bftpb.QuorumCertSign]*pb.XuperMessage

	listedAll, otherAll []*Violation // first violation per (clause, path)
	flagged             map[string]bool
	step                int
	chainPick           []*C14Cert // enum mode: certificates also presented on the chain path
}

// clauses that are separately listed findings on the unchanged tree; any other clause outranks them
var c14Listed = map[string]bool{
	"collector-own-signature-counted":   true,
	"repeated-signer-counted":           true,
	"unchecked-vote-signatures-counted": true,
	"vote-signature-not-verified":       true,
}

func (h *c14H) flag(clause, op, msg string) {
	h.rc.St.Probes["flag:"+clause+"/"+op]++
	if h.flagged[clause+"/"+op] {
		return
	}
	h.flagged[clause+"/"+op] = true
	v := &Violation{Prop: "C14", Clause: clause, Step: h.step, Op: op, Msg: msg}
	h.rc.Log.Add("FLAG %s/%s step=%d", clause, op, h.step)
	if c14Listed[clause] {
		h.listedAll = append(h.listedAll, v)
		return
	}
	h.otherAll = append(h.otherAll, v)
}

// verdict of the run: any clause that is not a listed finding wins; among the listed findings that
// fired the plan seed picks one (so that every one of them keeps being reported).
func (h *c14H) result() *Violation {
	if len(h.otherAll) > 0 {
		return h.otherAll[0]
	}
	if len(h.listedAll) > 0 {
		return h.listedAll[int(h.p.Seed%uint64(len(h.listedAll)))]
	}
	return nil
}

func c14Addr(a *Acct) *cctx.Address {
	return &cctx.Address{Address: a.Addr, PrivateKeyStr: a.Priv, PublicKeyStr: a.Pub, PrivateKey: a.SK, PublicKey: &a.SK.PublicKey}
}

// newSmr builds a real Smr (real pacemaker, safety rules, pending tree, crypto) for identity who.
func (h *c14H) newSmr(who *Acct, leader string) (*cbft.Smr, *c14Net) {
	k := h.k
	g := &cbft.ProposalNode{In: &cbft.QuorumCert{
		VoteInfo:         &cbft.VoteInfo{ProposalId: k.IDParent, ProposalView: 0},
		LedgerCommitInfo: &cbft.LedgerCommitInfo{CommitStateId: k.IDParent},
	}}
	tree := &cbft.QCPendingTree{Genesis: g, Root: g, HighQC: g, CommitQC: g, Log: h.log, OrphanList: list.New(), OrphanMap: map[string]bool{}}
	cc := cCrypto.NewCBFTCrypto(c14Addr(who), Crypto)
	rules := &cbft.DefaultSaftyRules{Crypto: cc, QcTree: tree, Log: h.log}
	other := []string{k.Outs[0].Addr, k.Outs[1].Addr, k.Outs[2].Addr, k.Members[k.N-1].Addr}
	el := &c14Election{v: k.Addrs(), other: other, leader: leader}
	net := &c14Net{acct: who.Addr}
	s := cbft.NewSmr("xuper", who.Addr, h.log, net, cc, &cbft.DefaultPaceMaker{CurrentView: 0}, rules, el, tree)
	if s == nil {
		panic("c14: NewSmr failed")
	}
	return s, net
}

func (h *c14H) proposalMsg(signer *Acct, view int64, id []byte, justify *cbft.QuorumCert) *pb.XuperMessage {
	jb, err := json.Marshal(justify)
	must(err)
	m := &bftpb.ProposalMsg{ProposalView: view, ProposalId: id, Timestamp: time.Now().UnixNano(), JustifyQC: jb}
	m, err = cCrypto.NewCBFTCrypto(c14Addr(signer), Crypto).SignProposalMsg(m)
	must(err)
	msg := p2p.NewMessage(pb.XuperMessage_CHAINED_BFT_NEW_PROPOSAL_MSG, m, p2p.WithBCName("xuper"))
	if msg == nil {
		panic("c14: NewMessage")
	}
	return msg
}

func (h *c14H) voteMsg(signs []*bftpb.QuorumCertSign) *pb.XuperMessage {
	if len(signs) == 1 {
		if m, ok := h.voteOne[signs[0]]; ok {
			return m
		}
	}
	k := h.k
	vi, err := json.Marshal(&cbft.VoteInfo{ProposalId: k.IDCert, ProposalView: c14CertView, ParentId: k.IDParent, ParentView: 0})
	must(err)
	li, err := json.Marshal(&cbft.LedgerCommitInfo{VoteInfoHash: k.IDCert})
	must(err)
	msg := p2p.NewMessage(pb.XuperMessage_CHAINED_BFT_VOTE_MSG, &bftpb.VoteMsg{VoteInfo: vi, LedgerCommitInfo: li, Signature: signs}, p2p.WithBCName("xuper"))
	if len(signs) == 1 {
		h.voteOne[signs[0]] = msg
	}
	return msg
}

func (h *c14H) certQC(signs []*bftpb.QuorumCertSign) *cbft.QuorumCert {
	k := h.k
	return &cbft.QuorumCert{
		VoteInfo:  &cbft.VoteInfo{ProposalId: k.IDCert, ProposalView: c14CertView, ParentId: k.IDParent, ParentView: 0},
		SignInfos: signs,
	}
}

// drain runs the sends captured from instrumented go statements.
func (h *c14H) drain() { h.rc.RunBG() }

// ExecC14 executes one plan.
func ExecC14(p *C14Plan, rc *RunCtx) *Violation {
	initEnv()
	lg, err := logs.NewLogger("", "c14")
	must(err)
	k := newC14Keys(p.N, p.Rot, p.Collector)
	h := &c14H{p: p, k: k, rc: rc, log: lg, coll: k.Members[p.Collector], voteOne: map[*bftpb.QuorumCertSign]*pb.XuperMessage{}, flagged: map[string]bool{}}
	if p.Acceptor >= p.N {
		h.accAcct = k.Outs[2]
	} else {
		h.accAcct = k.Members[p.Acceptor]
	}
	rc.Log.Add("c14 n=%d thr=%d collector=%d acceptor=%d mode=%s slice=%d/%d order=%d batch=%d chain=%s", p.N, k.Thr, p.Collector, p.Acceptor, p.Mode, p.Slice, p.Slices, p.Order, p.Batch, p.Chain)

	h.checkThresholdFn()

	// the checking node learns the certified proposal through its real proposal handler
	h.acc, h.accNet = h.newSmr(h.accAcct, k.Members[(p.Collector+1)%p.N].Addr)
	first := &cbft.QuorumCert{VoteInfo: &cbft.VoteInfo{ProposalId: k.IDParent, ProposalView: 0}}
	h.p1Msg = h.proposalMsg(k.Members[(p.Collector+p.N-1)%p.N], c14CertView, k.IDCert, first)
	h.acc.XsimHandleProposal(h.p1Msg)
	h.drain()
	if !h.acc.XsimHasNode(k.IDCert) {
		panic("c14 harness: checking node did not adopt the certified proposal")
	}
	h.collSign = &bftpb.QuorumCertSign{Address: h.coll.Addr, PublicKey: h.coll.Pub, Sign: c14Sign(h.coll, k.IDChild)}

	h.organic()

	switch p.Mode {
	case "enum":
		u := c14Universe(p.N, p.Collector)
		for _, e := range u {
			h.checkVote(e)
		}
		done := 0
		total := c14EnumMultisets(len(u), p.N+2, func(ord int, idx []int) {
			if p.Slices > 1 && ord%p.Slices != p.Slice {
				return
			}
			c := C14Cert{}
			for _, i := range idx {
				c.E = append(c.E, u[i])
			}
			switch p.Order {
			case 1:
				for i, j := 0, len(c.E)-1; i < j; i, j = i+1, j-1 {
					c.E[i], c.E[j] = c.E[j], c.E[i]
				}
			case 2:
				if n := len(c.E); n > 1 {
					r := ord % n
					c.E = append(append([]C14Entry{}, c.E[r:]...), c.E[:r]...)
				}
			}
			switch p.Batch {
			case 1:
				if len(c.E) > 1 {
					c.Batch = []int{len(c.E)}
				}
			case 2:
				if len(c.E) > 2 {
					c.Batch = []int{2}
				}
			}
			h.step = ord
			h.runCert(&c, false)
			done++
			if p.Chain != "" {
				plain := true
				for _, e := range c.E {
					if !(e.K == C14Valid || e.K == C14Outsider || (e.K == C14Mismatch && e.X == 1)) {
						plain = false
					}
				}
				// the chain path gets the certificates without an outright invalid member entry, thinned out
				if (plain && done%5 == 0) || done%97 == 0 {
					cc := c
					h.chainPick = append(h.chainPick, &cc)
				}
			}
		})
		rc.St.Probes["enum-slice-complete"]++
		rc.St.States[fmt.Sprintf("enum n=%d size<=%d slice=%d/%d (%d multisets)", p.N, p.N+2, p.Slice, p.Slices, total)] = true
		rc.Log.Add("enum done=%d of %d", done, total)
	default:
		for i := range p.Certs {
			h.step = i
			for _, e := range p.Certs[i].E {
				h.checkVote(e)
			}
			h.runCert(&p.Certs[i], true)
		}
	}

	if p.Chain != "" {
		execC14Chain(h)
	}
	return h.result()
}

// checkThresholdFn: CalVotesThreshold may answer true only at or above the statement's threshold.
func (h *c14H) checkThresholdFn() {
	r := h.mkRules()
	for n := 1; n <= 10+h.p.N; n++ {
		thr := C14Threshold(n)
		for in := -1; in <= n+2; in++ {
			got := r.CalVotesThreshold(in, n)
			h.rc.St.Ops["cal-threshold"]++
			if got && in < thr {
				h.flag("threshold-too-low", "cal-threshold", fmt.Sprintf("CalVotesThreshold(%d signatures, %d validators) = true, statement requires at least %d", in, n, thr))
			}
			if got && in == thr {
				h.rc.St.Probes["threshold-exact-true"]++
			}
			if !got && in >= thr {
				h.rc.St.Probes["threshold-refuses-sufficient"]++
			}
		}
	}
}

func (h *c14H) mkRules() *cbft.DefaultSaftyRules {
	s, _ := h.newSmr(h.k.Outs[2], "")
	return s.GetSaftyRules().(*cbft.DefaultSaftyRules)
}

// checkVote: a single vote is accepted by CheckVote only if it is a valid signature of a member.
func (h *c14H) checkVote(e C14Entry) {
	if h.acc == nil {
		return
	}
	s := h.k.Build(e)
	err := h.acc.GetSaftyRules().CheckVote(h.certQC([]*bftpb.QuorumCertSign{s}), "c14", h.k.Addrs())
	h.rc.St.Ops["check-vote"]++
	if err == nil {
		if h.k.validFor(s) == "" {
			clause := "vote-accepted-invalid"
			if h.k.boundOnly(s) {
				clause = "vote-signature-not-verified" // member address, member's key, signature does not verify
			}
			h.flag(clause, "check-vote", fmt.Sprintf("CheckVote accepted entry %v (n=%d): address %s, signature valid over the voted id: false", e, h.k.N, s.Address))
		} else {
			h.rc.St.Probes["vote-accepted-valid"]++
		}
	} else {
		h.rc.St.Probes["vote-refused"]++
	}
}

// organic forms a certificate through the real vote collection from honest votes (exactly the
// threshold many), lets the collector build its next proposal with the real ProcessProposal and
// hands that message to the checking node: non-vacuity of "accepted".
func (h *c14H) organic() {
	k := h.k
	if k.Thr == 0 {
		return
	}
	cs, cnet := h.newSmr(h.coll, h.coll.Addr)
	cs.XsimHandleProposal(h.p1Msg)
	h.drain()
	cnt := 0
	for i := 0; i < k.N && cnt < k.Thr; i++ {
		if i == k.Coll {
			continue
		}
		cs.XsimHandleVote(h.voteMsg([]*bftpb.QuorumCertSign{k.Build(C14Entry{K: C14Valid, W: i})}))
		cnt++
	}
	if !bytes.Equal(cs.GetHighQC().GetProposalId(), k.IDCert) {
		h.rc.St.Probes["organic-qc-not-formed"]++
		return
	}
	h.rc.St.Probes["organic-qc-formed"]++
	orgID := append([]byte{}, k.IDChild...)
	orgID[30] = 0x77
	if err := cs.ProcessProposal(2, orgID, k.Addrs()); err != nil {
		h.rc.St.Probes["organic-proposal-failed"]++
		return
	}
	h.drain()
	if len(cnet.sent) == 0 {
		h.rc.St.Probes["organic-proposal-failed"]++
		return
	}
	msg := cnet.sent[len(cnet.sent)-1].msg
	h.acc.XsimHandleProposal(msg)
	h.drain()
	if h.acc.XsimHasNode(orgID) {
		h.rc.St.Probes["organic-qc-accepted"]++
		// the oracle must agree that an organically formed certificate is sufficient
		pm := &bftpb.ProposalMsg{}
		must(p2p.Unmarshal(msg, pm))
		qc := &cbft.QuorumCert{}
		must(json.Unmarshal(pm.JustifyQC, qc))
		if v := k.Judge(qc.SignInfos); !v.Sufficient() {
			h.flag(v.Classify(), "smr-proposal", "organically collected certificate accepted but insufficient: "+v.String())
		}
	} else {
		h.rc.St.Probes["organic-qc-refused"]++
	}
}

// runCert presents one certificate on the three smr-level paths.
func (h *c14H) runCert(c *C14Cert, logIt bool) {
	k := h.k
	st := h.rc.St
	st.Steps++
	signs := make([]*bftpb.QuorumCertSign, len(c.E))
	seenValid := map[int]bool{}
	for i, e := range c.E {
		signs[i] = k.Build(e)
		st.Faults["entry:"+c14KindNames[e.K]]++
		if e.K == C14Valid {
			if e.W == k.Coll {
				st.Faults["entry:collector-own"]++
			}
			if seenValid[e.W] {
				st.Faults["entry:repeated-member"]++
			}
			seenValid[e.W] = true
		}
	}
	v := k.Judge(signs)

	// path 1: DefaultSaftyRules.CheckProposal through Smr.GetSaftyRules, as tdpos / xpoa call it
	prop := &cbft.QuorumCert{
		VoteInfo:  &cbft.VoteInfo{ProposalId: k.IDChild, ProposalView: 2, ParentId: k.IDCert, ParentView: c14CertView},
		SignInfos: []*bftpb.QuorumCertSign{h.collSign},
	}
	err := h.acc.GetSaftyRules().CheckProposal(prop, h.certQC(signs), k.Addrs())
	st.Ops["check-proposal"]++
	acc1 := err == nil
	h.judge(acc1, v, "check-proposal", c)

	// path 2: the smr proposal handler (parent QC of a proposal message signed by the collector)
	pid := make([]byte, 32)
	copy(pid, []byte(fmt.Sprintf("c14-carry-%d", h.step)))
	pid[31] = 0xa5
	msg := h.proposalMsg(h.coll, 2, pid, h.certQC(signs))
	h.acc.XsimHandleProposal(msg)
	h.drain()
	h.accNet.sent = h.accNet.sent[:0]
	st.Ops["smr-proposal"]++
	acc2 := h.acc.XsimHasNode(pid)
	h.judge(acc2, v, "smr-proposal", c)

	// path 3: vote collection by the collector
	acc3 := h.collect(c, signs)

	if logIt {
		h.rc.Log.Add("cert %d %s others=%d/%d rules=%v smr=%v collect=%v", h.step, c.String(), v.Others, v.Thr, acc1, acc2, acc3)
	} else if acc1 || acc2 || acc3 {
		h.rc.Log.Add("cert %d %s others=%d/%d rules=%v smr=%v collect=%v", h.step, c.String(), v.Others, v.Thr, acc1, acc2, acc3)
	}
}

func (h *c14H) judge(accepted bool, v c14Verdict, op string, c *C14Cert) {
	st := h.rc.St
	switch {
	case accepted && v.Sufficient():
		st.Probes["cert-accepted-sufficient"]++
		if v.Others == v.Thr {
			st.Probes["cert-accepted-at-threshold"]++
		}
	case !accepted && !v.Sufficient():
		st.Probes["cert-refused-insufficient"]++
		if v.Others == v.Thr-1 {
			st.Probes["cert-refused-one-below-threshold"]++
		}
	case !accepted:
		st.Probes["cert-refused-sufficient"]++
	default:
		h.flag(v.Classify(), op, fmt.Sprintf("n=%d collector=member %d: certificate %s accepted on path %s; %s", h.k.N, h.k.Coll, c.String(), op, v.String()))
	}
}

// collect feeds the entries as vote messages to a fresh collector and judges the certificate the
// collector assembles when (if) it declares the quorum reached. Returns whether a QC was formed.
func (h *c14H) collect(c *C14Cert, signs []*bftpb.QuorumCertSign) bool {
	k := h.k
	st := h.rc.St
	cs, _ := h.newSmr(h.coll, h.coll.Addr)
	cs.XsimHandleProposal(h.p1Msg)
	h.drain()
	st.Ops["collect"]++
	extras := map[string]bool{} // entries delivered behind the first signature of a vote message
	pos := 0
	for bi := 0; pos < len(signs); bi++ {
		b := 1
		if bi < len(c.Batch) && c.Batch[bi] > 0 {
			b = c.Batch[bi]
		}
		if pos+b > len(signs) {
			b = len(signs) - pos
		}
		part := signs[pos : pos+b]
		pos += b
		if b > 1 {
			st.Faults["vote-message-with-several-signatures"]++
		}
		cs.XsimHandleVote(h.voteMsg(part))
		h.drain()
		for _, x := range part[1:] {
			extras[c14Key(x)] = true
		}
		if !bytes.Equal(cs.GetHighQC().GetProposalId(), k.IDCert) {
			continue
		}
		// the collector declared a quorum: judge what it assembled
		asm := cs.GetCompleteHighQC().GetSignsInfo()
		v := k.Judge(asm)
		st.Probes["collect-formed"]++
		if v.Sufficient() {
			st.Probes["cert-accepted-sufficient"]++
			if v.Others == v.Thr {
				st.Probes["cert-accepted-at-threshold"]++
			}
			return true
		}
		clause := v.Classify()
		if clause != "collector-own-signature-counted" {
			// assembled entries that were delivered behind the first (the only checked) signature of a message
			unchecked := 0
			for _, s := range asm {
				if extras[c14Key(s)] {
					unchecked++
				}
			}
			if unchecked > 0 {
				clause = "unchecked-vote-signatures-counted"
			} else if v.BadSig > 0 && v.BoundDistinct >= v.Thr {
				clause = "vote-signature-not-verified"
			}
		}
		h.flag(clause, "collect", fmt.Sprintf("n=%d collector=member %d: after %d of the vote messages of %s (batches %v) the collector declared a quorum and assembled %d entries; %s", k.N, k.Coll, bi+1, c.String(), c.Batch, len(asm), v.String()))
		return true
	}
	st.Probes["collect-not-formed"]++
	return false
}

func c14Key(s *bftpb.QuorumCertSign) string {
	return s.Address + "|" + s.PublicKey + "|" + hex.EncodeToString(s.Sign)
}
