package sim

import (
	"pgregory.net/rapid"
)

// GenC19Plan draws a C19 plan. The smallest values are the benign ones: one node, plain transfer of
// 1 token, known defects avoided.
func GenC19Plan(rt *rapid.T, tier string) *G19Plan {
	pl := &G19Plan{}
	pl.Seed = rapid.Uint64Range(1, 1<<40).Draw(rt, "seed")
	if rapid.Bool().Draw(rt, "maporder") {
		pl.MapSeed = rapid.Uint64Range(1, 1<<30).Draw(rt, "mapseed")
	}
	pl.Nodes = rapid.SampledFrom([]int{1, 1, 2}).Draw(rt, "nodes")
	pl.Predist = rapid.IntRange(0, len(c19Predists)-1).Draw(rt, "predist")
	// three plans out of four stay clear of the two known defects so that the search goes on behind them
	pl.Avoid = rapid.IntRange(0, 3).Draw(rt, "noavoid") != 3
	maxSteps := 26
	if tier == "thorough" {
		maxSteps = 60
	}
	// (ordered: rapid prefers the front of the list)
	kinds := []string{"transfer", "mine", "propose", "vote", "thaw", "stake", "transfer2", "unstake", "unlock", "lock", "init", "sync", "tnominate", "tvote", "trevoke", "trevokevote"}
	weight := map[string]int{"transfer": 8, "mine": 8, "propose": 5, "vote": 6, "thaw": 3, "stake": 3, "transfer2": 2, "unstake": 2, "unlock": 2, "lock": 1, "init": 1, "sync": 0, "tnominate": 3, "tvote": 2, "trevoke": 3, "trevokevote": 2}
	if pl.Nodes > 1 {
		weight["sync"] = 4
	}
	// round-robin so that every prefix of the list is a fair mix
	var ops []string
	for left := true; left; {
		left = false
		for _, k := range kinds {
			if weight[k] > 0 {
				weight[k]--
				ops = append(ops, k)
				left = true
			}
		}
	}
	ns := rapid.IntRange(4, maxSteps).Draw(rt, "nsteps")
	// nearly every plan initialises first (on every node); a few start without
	if rapid.IntRange(0, 9).Draw(rt, "noinit") != 9 {
		for i := 0; i < pl.Nodes; i++ {
			pl.Steps = append(pl.Steps, G19Step{Op: "init", N: i})
		}
	}
	for i := 0; i < ns; i++ {
		st := G19Step{Op: rapid.SampledFrom(ops).Draw(rt, "op")}
		st.N = rapid.IntRange(0, pl.Nodes-1).Draw(rt, "n")
		st.A = rapid.IntRange(0, 3).Draw(rt, "a")
		st.B = rapid.IntRange(0, 8).Draw(rt, "b")
		st.C = rapid.IntRange(0, 8).Draw(rt, "c")
		st.Amt = rapid.IntRange(0, 15).Draw(rt, "amt")
		switch st.Op {
		case "propose":
			st.H = rapid.IntRange(0, 6).Draw(rt, "h")
			st.H2 = rapid.IntRange(0, 3).Draw(rt, "h2")
			st.Pct = rapid.IntRange(0, 7).Draw(rt, "pct")
		case "transfer2":
			st.H = rapid.IntRange(0, 15).Draw(rt, "amt2")
		case "mine":
			st.K = rapid.IntRange(0, 2).Draw(rt, "k")
		}
		pl.Steps = append(pl.Steps, st)
	}
	return pl
}
