package sim

import (
	"encoding/json"
	"fmt"
	"math/big"
	"sort"
	"strings"
)

// C19 reference model and oracle: governance tokens are conserved, locked amounts change only by
// lock / unlock operations on that account, no transfer leaves a balance below a locked amount.
//
// The model is a fold of per-transaction EFFECTS. The effect of a transaction is observed (as a
// difference of two reads of the governToken bucket) the first time the transaction is applied
// anywhere, and is JUSTIFIED at that moment against the kind of operation the transaction is
// (statement clauses). Because a transaction is only valid where it reads the same versions, the
// same effect is what it may have on any other chain; the state of any node must therefore be the
// sum of the (justified) effects of the transactions on its chain and in its pool.

const (
	c19Bucket    = "governToken"
	c19BalPrefix = "balanceOf_"
)

// govView is one read of the governToken bucket (confirmed state, or state + pool).
type govView struct {
	T      map[string]*big.Int // account -> total balance
	L      map[string]*big.Int // account|locktype -> locked amount
	Supply *big.Int            // totalSupply record (nil: absent)
	Dist   bool                // "distributed" flag
	Bad    string              // unreadable record, if any
}

func newGovView() *govView {
	return &govView{T: map[string]*big.Int{}, L: map[string]*big.Int{}}
}

type c19Rec struct {
	Total  *big.Int            `json:"total_balance"`
	Locked map[string]*big.Int `json:"locked_balances"`
}

func (v *govView) put(key string, val []byte) {
	switch {
	case strings.HasPrefix(key, c19BalPrefix):
		a := key[len(c19BalPrefix):]
		var r c19Rec
		if err := json.Unmarshal(val, &r); err != nil || r.Total == nil {
			v.Bad = fmt.Sprintf("%s=%q", key, val)
			return
		}
		v.T[a] = r.Total
		for t, x := range r.Locked {
			if x == nil {
				v.Bad = fmt.Sprintf("%s=%q", key, val)
				return
			}
			v.L[a+"|"+t] = x
		}
	case key == "totalSupply":
		x, ok := new(big.Int).SetString(string(val), 10)
		if !ok {
			v.Bad = fmt.Sprintf("%s=%q", key, val)
			return
		}
		v.Supply = x
	case key == "distributed":
		v.Dist = string(val) == "true"
	}
}

func (v *govView) sum() *big.Int {
	s := new(big.Int)
	for _, x := range v.T {
		s.Add(s, x)
	}
	return s
}

func zget(m map[string]*big.Int, k string) *big.Int {
	if x, ok := m[k]; ok {
		return x
	}
	return new(big.Int)
}

func sortedKeys(ms ...map[string]*big.Int) []string {
	set := map[string]bool{}
	for _, m := range ms {
		for k := range m {
			set[k] = true
		}
	}
	var ks []string
	for k := range set {
		ks = append(ks, k)
	}
	sort.Strings(ks)
	return ks
}

func (v *govView) String() string {
	var sb strings.Builder
	for _, a := range sortedKeys(v.T) {
		fmt.Fprintf(&sb, "%s=%s", shortAcct(a), v.T[a])
		for _, k := range sortedKeys(v.L) {
			if strings.HasPrefix(k, a+"|") && v.L[k].Sign() != 0 {
				fmt.Fprintf(&sb, "[%s:%s]", k[len(a)+1:], v.L[k])
			}
		}
		sb.WriteString(" ")
	}
	if v.Supply != nil {
		fmt.Fprintf(&sb, "supply=%s", v.Supply)
	}
	return sb.String()
}

func shortAcct(a string) string {
	if len(a) > 6 {
		return a[:6]
	}
	return a
}

// c19PoolView reads state + pool (the latest versions) by scanning the whole bucket.
func c19PoolView(n *Node) *govView {
	v := newGovView()
	it, err := n.S.CreateXMReader().Select(c19Bucket, []byte(""), []byte("\xff"))
	if err != nil {
		panic(fmt.Sprintf("c19: select: %v", err))
	}
	defer it.Close()
	for it.Next() {
		val := it.Value().GetPureData().GetValue()
		if len(val) == 0 {
			continue
		}
		v.put(string(it.Key()), val)
	}
	if it.Error() != nil {
		panic(fmt.Sprintf("c19: select: %v", it.Error()))
	}
	return v
}

// c19ConfView reads the confirmed state (snapshot at the state tip) for the known accounts; total
// balances additionally go through State.QueryAccountGovernTokenBalance.
func c19ConfView(n *Node, accts []string) (*govView, string) {
	v := newGovView()
	rd, err := n.S.GetTipXMSnapshotReader()
	if err != nil {
		panic(fmt.Sprintf("c19: snapshot reader: %v", err))
	}
	for _, k := range []string{"totalSupply", "distributed"} {
		if val, err := rd.Get(c19Bucket, []byte(k)); err == nil && len(val) > 0 {
			v.put(k, val)
		}
	}
	for _, a := range accts {
		val, err := rd.Get(c19Bucket, []byte(c19BalPrefix+a))
		if err != nil || len(val) == 0 {
			continue
		}
		v.put(c19BalPrefix+a, val)
		q, qerr := n.S.QueryAccountGovernTokenBalance(a)
		if qerr != nil {
			return v, fmt.Sprintf("QueryAccountGovernTokenBalance(%s) fails (%v) although the confirmed record exists", a, qerr)
		}
		if t, ok := v.T[a]; ok && q.TotalBalance != t.String() {
			return v, fmt.Sprintf("QueryAccountGovernTokenBalance(%s)=%s but the confirmed record says %s", a, q.TotalBalance, t)
		}
	}
	return v, ""
}

// c19Eff is the observed effect of one transaction (all values are signed differences).
type c19Eff struct {
	Kind string
	DT   map[string]*big.Int // account -> change of total balance
	DL   map[string]*big.Int // account|type -> change of locked amount
	Rec  map[string]*big.Int // proposal|account|type -> change of what is locked under that proposal
	Init *big.Int            // total supply fixed by this (initialising) transaction
	Prop *c19Prop            // proposal created by this transaction
}

// c19Prop is what the model knows about a proposal (all of it is input of the Propose call, plus
// the id returned by the call).
type c19Prop struct {
	ID       string
	Proposer string
	Stop     int64 // stop_vote_height: settlement of the vote happens in the block of that height
	Trig     int64 // trigger height: execution + release happens in the block of that height
}

func diffMaps(a, b map[string]*big.Int) map[string]*big.Int {
	d := map[string]*big.Int{}
	for _, k := range sortedKeys(a, b) {
		x := new(big.Int).Sub(zget(b, k), zget(a, k))
		if x.Sign() != 0 {
			d[k] = x
		}
	}
	return d
}

func fmtDelta(d map[string]*big.Int) string {
	var sb strings.Builder
	for _, k := range sortedKeys(d) {
		i := strings.Index(k, "|")
		if i < 0 {
			fmt.Fprintf(&sb, "%s:%+d ", shortAcct(k), d[k])
		} else {
			fmt.Fprintf(&sb, "%s%s:%+d ", shortAcct(k[:i]), k[i:], d[k])
		}
	}
	return strings.TrimSpace(sb.String())
}

// c19Model is the fold of effects along one chain (+ pool).
type c19Model struct {
	T      map[string]*big.Int
	L      map[string]*big.Int
	Rec    map[string]*big.Int
	Props  map[string]*c19Prop
	Supply *big.Int
}

func newC19Model() *c19Model {
	return &c19Model{T: map[string]*big.Int{}, L: map[string]*big.Int{}, Rec: map[string]*big.Int{}, Props: map[string]*c19Prop{}}
}

func addInto(m, d map[string]*big.Int) {
	for k, x := range d {
		m[k] = new(big.Int).Add(zget(m, k), x)
	}
}

func (m *c19Model) apply(e *c19Eff) {
	addInto(m.T, e.DT)
	addInto(m.L, e.DL)
	addInto(m.Rec, e.Rec)
	if e.Init != nil {
		m.Supply = e.Init
	}
	if e.Prop != nil {
		m.Props[e.Prop.ID] = e.Prop
	}
}

func (m *c19Model) clone() *c19Model {
	c := newC19Model()
	addInto(c.T, m.T)
	addInto(c.L, m.L)
	addInto(c.Rec, m.Rec)
	for k, p := range m.Props {
		c.Props[k] = p
	}
	c.Supply = m.Supply
	return c
}

// due lists the proposals of the model whose settlement (stop) or execution (trigger) height is h.
func (m *c19Model) due(h int64) []string {
	var ids []string
	for id, p := range m.Props {
		if p.Stop == h || (p.Trig == h && p.Trig != 0) {
			ids = append(ids, id)
		}
	}
	sort.Strings(ids)
	// proposals whose voting ends at h first: a release at h is attributed to them before it is
	// attributed to a proposal that merely triggers at h (attribution in the wrong order made a later
	// thaw of the triggering proposal look like an unbacked release)
	sort.SliceStable(ids, func(i, j int) bool {
		return m.Props[ids[i]].Stop == h && m.Props[ids[j]].Stop != h
	})
	return ids
}

// c19Op describes the operation a transaction performs (known to the harness: it built it).
type c19Op struct {
	Kind     string // init transfer propose vote thaw lock unlock auto none
	From     string // initiator
	To       string // receiver of a transfer
	To2      string // receiver of the second transfer of a two-call transaction
	Pid      string // proposal voted / thawed / created
	Height   int64  // auto: block height
	Refused  bool   // the transaction was refused: nothing may change
	Co       *Acct  // co-signer: a nominated candidate other than the initiator
	PropArgs *c19Prop
}

// c19Known are the clause ids of the defects of the unchanged tree (genuine, see known findings).
const (
	c19ClauseSelfMint   = "self-transfer-mints"
	c19ClauseRecvLocks  = "transfer-resets-receiver-locks"
	c19ClauseTimerOrder = "state-corrupt-after-misplaced-timer-tx"
)

type c19Fail struct {
	Clause string
	Msg    string
}

// c19Invariants checks the clauses that hold in every single state.
func c19Invariants(v *govView, supply0 *big.Int, what string) *c19Fail {
	if v.Bad != "" {
		return &c19Fail{"balance-record-unreadable", fmt.Sprintf("%s: %s", what, v.Bad)}
	}
	for _, a := range sortedKeys(v.T) {
		if v.T[a].Sign() < 0 {
			return &c19Fail{"negative-amount", fmt.Sprintf("%s: total balance of %s is %s", what, a, v.T[a])}
		}
	}
	for _, k := range sortedKeys(v.L) {
		if v.L[k].Sign() < 0 {
			return &c19Fail{"negative-amount", fmt.Sprintf("%s: locked amount %s is %s", what, k, v.L[k])}
		}
	}
	if supply0 == nil {
		// not initialised on this chain: nobody may hold anything
		if s := v.sum(); s.Sign() != 0 {
			return &c19Fail{"sum-not-conserved", fmt.Sprintf("%s: balances sum to %s before any initialisation", what, s)}
		}
		return nil
	}
	if v.Supply == nil || v.Supply.Cmp(supply0) != 0 {
		return &c19Fail{"total-supply-changed", fmt.Sprintf("%s: total supply record is %v, fixed at initialisation to %s", what, v.Supply, supply0)}
	}
	if s := v.sum(); s.Cmp(supply0) != 0 {
		return &c19Fail{"sum-not-conserved", fmt.Sprintf("%s: balances sum to %s, total supply fixed at initialisation is %s [%s]", what, s, supply0, v)}
	}
	return nil
}

// c19Justify checks the observed transition pre -> post caused by op against the statement and
// returns the effect to record. m is the model of the state before the transition.
func c19Justify(op *c19Op, pre, post *govView, m *c19Model) (*c19Eff, *c19Fail) {
	e := &c19Eff{Kind: op.Kind, DT: diffMaps(pre.T, post.T), DL: diffMaps(pre.L, post.L), Rec: map[string]*big.Int{}}
	desc := fmt.Sprintf("%s from=%s to=%s pid=%s: dT{%s} dL{%s}", op.Kind, shortAcct(op.From), shortAcct(op.To), op.Pid, fmtDelta(e.DT), fmtDelta(e.DL))
	if post.Bad != "" {
		return nil, &c19Fail{"balance-record-unreadable", desc + ": " + post.Bad}
	}
	supply0 := m.Supply
	// --- initialisation
	if op.Kind == "init" && !op.Refused && m.Supply == nil {
		if post.Supply == nil {
			if len(e.DT) != 0 || len(e.DL) != 0 {
				return nil, &c19Fail{"init-without-supply", desc}
			}
			return e, nil
		}
		e.Init = post.Supply
		supply0 = post.Supply
		if len(e.DL) != 0 {
			return nil, &c19Fail{"locked-changed-without-lock-op", desc + ": initialisation changed locked amounts"}
		}
		if f := c19Invariants(post, supply0, "after init"); f != nil {
			return nil, f
		}
		return e, nil
	}
	// --- conservation (with the one classified known case)
	dsum := new(big.Int).Sub(post.sum(), pre.sum())
	if dsum.Sign() != 0 {
		if op.Kind == "transfer" && !op.Refused && op.From == op.To && op.To2 == "" && dsum.Sign() > 0 && len(e.DT) == 1 && e.DT[op.From] != nil {
			return nil, &c19Fail{c19ClauseSelfMint, desc + fmt.Sprintf(": transfer to self created %s tokens", dsum)}
		}
		return nil, &c19Fail{"sum-not-conserved", desc + fmt.Sprintf(": sum of balances changed by %s", dsum)}
	}
	if (pre.Supply == nil) != (post.Supply == nil) || (pre.Supply != nil && pre.Supply.Cmp(post.Supply) != 0) {
		return nil, &c19Fail{"total-supply-changed", desc + fmt.Sprintf(": total supply record %v -> %v", pre.Supply, post.Supply)}
	}
	// --- locked amounts
	allowedUp := map[string]bool{}       // account (any lock type) that may lock
	allowedDown := map[string]*big.Int{} // account|type -> how much may be released
	downBy := map[string][]string{}      // account|type -> proposals whose records back the release
	if !op.Refused {
		switch op.Kind {
		case "propose", "vote", "stake", "tnominate", "tvote":
			allowedUp[op.From] = true
		case "trevoke", "trevokevote":
			// the real $tdpos revocations: only what THIS initiator locked for THIS candidate comes back
			for _, k := range sortedKeys(m.Rec) {
				if strings.HasPrefix(k, op.Pid+"|"+op.From+"|") && m.Rec[k].Sign() > 0 {
					lk := k[len(op.Pid)+1:]
					allowedDown[lk] = new(big.Int).Add(zget(allowedDown, lk), m.Rec[k])
					downBy[lk] = append(downBy[lk], op.Pid)
				}
			}
		case "unstake":
			for _, k := range sortedKeys(m.Rec) {
				if strings.HasPrefix(k, "stake|"+op.From+"|") && m.Rec[k].Sign() > 0 {
					lk := k[len("stake|"):]
					allowedDown[lk] = new(big.Int).Add(zget(allowedDown, lk), m.Rec[k])
					downBy[lk] = append(downBy[lk], "stake")
				}
			}
		case "thaw":
			for _, k := range sortedKeys(m.Rec) {
				if strings.HasPrefix(k, op.Pid+"|"+op.From+"|") && m.Rec[k].Sign() > 0 {
					lk := k[len(op.Pid)+1:]
					allowedDown[lk] = new(big.Int).Add(zget(allowedDown, lk), m.Rec[k])
					downBy[lk] = append(downBy[lk], op.Pid)
				}
			}
		case "auto":
			for _, pid := range m.due(op.Height) {
				for _, k := range sortedKeys(m.Rec) {
					if strings.HasPrefix(k, pid+"|") && m.Rec[k].Sign() > 0 {
						lk := k[len(pid)+1:]
						allowedDown[lk] = new(big.Int).Add(zget(allowedDown, lk), m.Rec[k])
						downBy[lk] = append(downBy[lk], pid)
					}
				}
			}
		}
	}
	for _, k := range sortedKeys(e.DL) {
		d := e.DL[k]
		acct := k[:strings.LastIndex(k, "|")]
		if d.Sign() > 0 {
			if !allowedUp[acct] {
				return nil, c19LockFail(op, e, pre, post, desc, fmt.Sprintf("locked amount %s rose by %s", k, d))
			}
			pid := op.Pid
			e.Rec[pid+"|"+k] = new(big.Int).Set(d)
			continue
		}
		rel := new(big.Int).Neg(d)
		if rel.Cmp(zget(allowedDown, k)) > 0 {
			if allowedDown[k] != nil {
				return nil, &c19Fail{"unlock-exceeds-lock", desc + fmt.Sprintf(": %s released %s, but only %s was locked by the operations being undone", k, rel, allowedDown[k])}
			}
			return nil, c19LockFail(op, e, pre, post, desc, fmt.Sprintf("locked amount %s fell by %s", k, rel))
		}
		// attribute the release to the backing proposals, in order
		for _, pid := range downBy[k] {
			if rel.Sign() == 0 {
				break
			}
			have := m.Rec[pid+"|"+k]
			take := new(big.Int).Set(have)
			if take.Cmp(rel) > 0 {
				take.Set(rel)
			}
			e.Rec[pid+"|"+k] = new(big.Int).Neg(take)
			rel.Sub(rel, take)
		}
	}
	// --- locks bind: tokens left an account by a transfer => balance stays >= every locked amount
	if op.Kind == "transfer" && !op.Refused {
		if d := e.DT[op.From]; d != nil && d.Sign() < 0 {
			for _, k := range sortedKeys(post.L) {
				if strings.HasPrefix(k, op.From+"|") && zget(post.T, op.From).Cmp(post.L[k]) < 0 {
					return nil, &c19Fail{"transfer-below-locked", desc + fmt.Sprintf(": balance %s left below locked amount %s=%s", zget(post.T, op.From), k, post.L[k])}
				}
			}
		}
	}
	if f := c19Invariants(post, supply0, "after "+op.Kind); f != nil {
		return nil, f
	}
	if op.Kind == "propose" && !op.Refused && op.PropArgs != nil {
		e.Prop = op.PropArgs
	}
	return e, nil
}

// c19LockFail classifies an unjustified change of a locked amount.
func c19LockFail(op *c19Op, e *c19Eff, pre, post *govView, desc, what string) *c19Fail {
	if op.Kind == "transfer" && !op.Refused && op.To2 == "" {
		// known case: every changed locked amount belongs to the receiver and was reset to zero
		only := true
		for k := range e.DL {
			if !strings.HasPrefix(k, op.To+"|") || zget(post.L, k).Sign() != 0 || zget(pre.L, k).Sign() <= 0 {
				only = false
			}
		}
		if only {
			return &c19Fail{c19ClauseRecvLocks, desc + ": " + what + " (receiver's locked amounts reset by an incoming transfer)"}
		}
	}
	if op.Refused {
		return &c19Fail{"locked-changed-without-lock-op", desc + ": " + what + " by a REFUSED transaction"}
	}
	return &c19Fail{"locked-changed-without-lock-op", desc + ": " + what + " although the operation is no lock/unlock operation on that account"}
}

// c19CompareLocks checks that a view's locked amounts are exactly the fold of the effects.
func c19CompareLocks(v *govView, m *c19Model, what string) *c19Fail {
	for _, k := range sortedKeys(v.L, m.L) {
		if zget(v.L, k).Cmp(zget(m.L, k)) != 0 {
			return &c19Fail{"locked-not-sum-of-lock-ops", fmt.Sprintf("%s: locked amount %s is %s, the lock/unlock operations on this chain give %s", what, k, zget(v.L, k), zget(m.L, k))}
		}
	}
	return nil
}
