package sim

import (
	"pgregory.net/rapid"
)

// ---- C10: contract sandbox (read-your-writes, exact scans, sound replayable RW set) --------------
//
// A plan first builds a backing state through the real transaction pipeline (setup programs of
// put / del, mined into blocks; an optional last batch is left unconfirmed), then runs ONE contract
// execution: a sequence of Get / Put / Del / Select / Transfer calls on a real StateSandbox over the
// node's real XModel, some of them under an armed storage read fault.

// C10Op is one call of the execution under test.
type C10Op struct {
	Op     string `json:"op"` // get put del sel xfer
	B      string `json:"b,omitempty"`
	K      string `json:"k,omitempty"`
	V      string `json:"v,omitempty"`
	End    string `json:"end,omitempty"`
	NilEnd bool   `json:"nilend,omitempty"` // sel: pass a nil end key (End ignored)
	Limit  int    `json:"limit,omitempty"`  // sel: stop after Limit items (0: until exhausted)
	Amt    int    `json:"amt,omitempty"`    // xfer
	FR     int    `json:"fr,omitempty"`     // >0: the FR-th storage read issued by this call fails
	FI     int    `json:"fi,omitempty"`     // >0: the first storage iterator of this call fails after FI-1 items
}

// C10Tx is one setup transaction.
type C10Tx struct {
	Prog []KOp `json:"prog"`
}

// C10Plan is a complete C10 scenario.
type C10Plan struct {
	Seed     uint64    `json:"seed"`
	ExtCache int       `json:"ext_cache,omitempty"` // xmodel per-bucket version cache size (0: default)
	Fund     bool      `json:"fund,omitempty"`      // give the contract address some outputs
	Blocks   [][]C10Tx `json:"blocks"`
	Pending  []C10Tx   `json:"pending,omitempty"` // submitted after the last block, left unconfirmed
	Ops      []C10Op   `json:"ops"`
	Flush    bool      `json:"flush,omitempty"`
}

// C10Params bounds generation.
type C10Params struct {
	MaxBlocks, MaxTxs, MaxProg, MaxOps int
}

// C10Transient is the name of the transient bucket as the contract API documents it.
const C10Transient = "$transient"

var (
	c10Buckets = []string{"b0", "b0", "b0", "b0", "b0", "b0", "b1", "b10"}
	c10Keys    = []string{"a", "b", "b0", "c", "d", "e", "f"}
	c10Bounds  = []string{"", "a", "b", "b0", "b1", "c", "d", "e", "f", "g", "~"}
	c10Vals    = []string{"v1", "v2", "v3", "v1", "v2", "v3", "longer-value", ""}
)

func genC10Tx(rt *rapid.T, p *C10Params) C10Tx {
	n := rapid.IntRange(2, p.MaxProg).Draw(rt, "setup-proglen")
	var tx C10Tx
	for i := 0; i < n; i++ {
		op := KOp{Op: rapid.SampledFrom([]string{"put", "put", "put", "del"}).Draw(rt, "setup-op")}
		op.B = rapid.SampledFrom(c10Buckets).Draw(rt, "setup-bucket")
		op.K = rapid.SampledFrom(c10Keys).Draw(rt, "setup-key")
		if op.Op == "put" {
			op.V = rapid.SampledFrom([]string{"s1", "s2", "s3"}).Draw(rt, "setup-val")
		}
		tx.Prog = append(tx.Prog, op)
	}
	return tx
}

// GenC10Plan draws a plan; the smallest values are the benign ones (no fault, no early stop).
func GenC10Plan(rt *rapid.T, tier string) *C10Plan {
	p := &C10Params{MaxBlocks: 2, MaxTxs: 3, MaxProg: 6, MaxOps: 16}
	if tier == "thorough" {
		p = &C10Params{MaxBlocks: 4, MaxTxs: 4, MaxProg: 7, MaxOps: 36}
	}
	pl := &C10Plan{}
	pl.Seed = rapid.Uint64Range(1, 1<<40).Draw(rt, "seed")
	pl.ExtCache = rapid.SampledFrom([]int{0, 1, 2}).Draw(rt, "extcache")
	pl.Fund = rapid.IntRange(0, 2).Draw(rt, "fund") > 0
	nb := rapid.IntRange(1, p.MaxBlocks).Draw(rt, "nblocks")
	for b := 0; b < nb; b++ {
		nt := rapid.IntRange(1, p.MaxTxs).Draw(rt, "ntxs")
		var blk []C10Tx
		for i := 0; i < nt; i++ {
			blk = append(blk, genC10Tx(rt, p))
		}
		pl.Blocks = append(pl.Blocks, blk)
	}
	np := rapid.IntRange(0, 2).Draw(rt, "npending")
	for i := 0; i < np; i++ {
		pl.Pending = append(pl.Pending, genC10Tx(rt, p))
	}
	kinds := []string{"get", "get", "get", "put", "put", "put", "put", "put", "del", "del", "del", "sel", "sel", "sel", "sel", "sel"}
	if pl.Fund {
		kinds = append(kinds, "xfer", "xfer")
	}
	no := rapid.IntRange(1, p.MaxOps).Draw(rt, "nops")
	for i := 0; i < no; i++ {
		op := C10Op{Op: rapid.SampledFrom(kinds).Draw(rt, "op")}
		if op.Op == "xfer" {
			op.Amt = rapid.IntRange(0, 30).Draw(rt, "amt")
			pl.Ops = append(pl.Ops, op)
			continue
		}
		op.B = rapid.SampledFrom(c10Buckets).Draw(rt, "bucket")
		if rapid.IntRange(0, 7).Draw(rt, "transient") == 7 {
			op.B = C10Transient
		}
		switch op.Op {
		case "get", "del":
			op.K = rapid.SampledFrom(c10Keys).Draw(rt, "key")
		case "put":
			op.K = rapid.SampledFrom(c10Keys).Draw(rt, "key")
			op.V = rapid.SampledFrom(c10Vals).Draw(rt, "val")
		case "sel":
			si := min(rapid.IntRange(0, len(c10Bounds)-1).Draw(rt, "start"), rapid.IntRange(0, len(c10Bounds)-1).Draw(rt, "start2"))
			op.K = c10Bounds[si]
			switch rapid.IntRange(0, 15).Draw(rt, "endkind") {
			case 14: // any bound, possibly below the start key
				op.End = rapid.SampledFrom(c10Bounds[1:]).Draw(rt, "end-any")
			case 15:
				op.NilEnd = true
			default: // a bound not below the start key
				lo := max(si, 1)
				op.End = c10Bounds[max(rapid.IntRange(lo, len(c10Bounds)-1).Draw(rt, "end"), rapid.IntRange(lo, len(c10Bounds)-1).Draw(rt, "end2"))]
			}
			op.Limit = rapid.SampledFrom([]int{0, 0, 0, 1, 2, 3}).Draw(rt, "limit")
		}
		if rapid.IntRange(0, 7).Draw(rt, "fault") == 7 {
			if op.Op == "sel" && rapid.Bool().Draw(rt, "iterfault") {
				op.FI = rapid.IntRange(1, 4).Draw(rt, "fi")
			} else {
				op.FR = rapid.IntRange(1, 8).Draw(rt, "fr")
			}
		}
		pl.Ops = append(pl.Ops, op)
	}
	pl.Flush = rapid.Bool().Draw(rt, "flush")
	return pl
}
