package sim

import (
	"pgregory.net/rapid"
)

// OpMix gives the relative frequency of each step kind in generated plans.
type OpMix map[string]int

// GenParams bounds plan generation.
type GenParams struct {
	Mix          OpMix
	MaxSteps     int
	MaxNodes     int
	Windows      []int
	KV           bool
	StorFaults   bool // arm storage faults on some steps
	ReorgMotif   bool // append the shared-transaction reorganisation motif to some plans
	CatchUpMotif bool // append the multi-block catch-up motif to some plans
	MapOrders    bool
	SmallCache   bool
	Defer        bool
	NoTinyUtxo   bool // keep the utxo cache large (the known small-cache finding would end most runs early)
}

var kvKeys = []string{"k0", "k1", "k2", "k3"}

func genProg(rt *rapid.T, depth int) []KOp {
	n := rapid.IntRange(1, 4).Draw(rt, "proglen")
	var prog []KOp
	for i := 0; i < n; i++ {
		kinds := []string{"put", "put", "get", "del", "sel", "put"}
		if depth == 0 {
			kinds = append(kinds, "call")
		}
		op := KOp{Op: rapid.SampledFrom(kinds).Draw(rt, "kop")}
		if rapid.IntRange(0, 5).Draw(rt, "bucket2") == 0 {
			op.B = "xsim2"
		}
		op.K = rapid.SampledFrom(kvKeys).Draw(rt, "key")
		switch op.Op {
		case "put":
			op.V = rapid.SampledFrom([]string{"a", "b", "c", "dd", ""}).Draw(rt, "val")
			if op.V == "" {
				op.V = "e"
			}
		case "sel":
			op.K = rapid.SampledFrom([]string{"", "k0", "k1", "k2"}).Draw(rt, "start")
			op.End = rapid.SampledFrom([]string{"k2", "k3", "k9", "\x7f"}).Draw(rt, "end")
			op.Limit = rapid.IntRange(0, 2).Draw(rt, "limit")
		case "call":
			op.Prog = genProg(rt, depth+1)
		}
		prog = append(prog, op)
	}
	return prog
}

// GenChainPlan draws a chainsim plan. Generators are written so that the smallest value is the
// benign one (no fault, sorted map order, one node, no deferral).
func GenChainPlan(rt *rapid.T, p *GenParams) *ChainPlan {
	pl := &ChainPlan{}
	pl.Seed = rapid.Uint64Range(1, 1<<40).Draw(rt, "seed")
	if p.MapOrders {
		if rapid.Bool().Draw(rt, "maporder") {
			pl.MapSeed = rapid.Uint64Range(1, 1<<30).Draw(rt, "mapseed")
		}
	}
	pl.Nodes = rapid.IntRange(1, p.MaxNodes).Draw(rt, "nodes")
	if len(p.Windows) > 0 {
		pl.Window = rapid.SampledFrom(p.Windows).Draw(rt, "window")
	}
	if p.NoTinyUtxo {
		pl.UtxoCache = rapid.SampledFrom([]int{1000, 200}).Draw(rt, "utxocache")
	} else {
		pl.UtxoCache = rapid.SampledFrom([]int{1000, 1000, 200, 3, 1}).Draw(rt, "utxocache")
	}
	if p.SmallCache {
		pl.BlkCache = rapid.SampledFrom([]int{0, 1, 2, 4}).Draw(rt, "blkcache")
		pl.ExtCache = rapid.SampledFrom([]int{0, 1, 2, 4}).Draw(rt, "extcache")
	}
	pl.NoFee = rapid.IntRange(0, 3).Draw(rt, "nofee") == 3
	var ops []string
	for k, w := range p.Mix {
		for i := 0; i < w; i++ {
			ops = append(ops, k)
		}
	}
	sortStrings(ops)
	ns := rapid.IntRange(1, p.MaxSteps).Draw(rt, "nsteps")
	for i := 0; i < ns; i++ {
		st := CStep{Op: rapid.SampledFrom(ops).Draw(rt, "op")}
		st.N = rapid.IntRange(0, pl.Nodes-1).Draw(rt, "n")
		st.A = rapid.IntRange(0, 40).Draw(rt, "a")
		st.B = rapid.IntRange(0, 40).Draw(rt, "b")
		st.C = rapid.IntRange(0, 40).Draw(rt, "c")
		st.D = rapid.IntRange(0, 40).Draw(rt, "d")
		st.Amt = rapid.IntRange(0, 60).Draw(rt, "amt")
		st.Via = rapid.IntRange(0, 63).Draw(rt, "via")
		switch st.Op {
		case "kvtx":
			st.Prog = genProg(rt, 0)
		case "invoke":
			st.Prog = genProgC09(rt, 0)
			st.Flag = rapid.IntRange(0, 4).Draw(rt, "stale") == 4
		case "walk":
			st.Flag = rapid.IntRange(0, 5).Draw(rt, "prune") == 5
		case "tx":
			st.Flag = rapid.IntRange(0, 7).Draw(rt, "spendfrozen") == 7
		}
		if p.Defer {
			st.Defer = rapid.IntRange(0, 3).Draw(rt, "defer") == 3
		}
		if p.StorFaults && rapid.IntRange(0, 3).Draw(rt, "fault") == 3 {
			switch rapid.IntRange(0, 5).Draw(rt, "faultkind") {
			case 0, 1, 2:
				st.FW = rapid.IntRange(1, 4).Draw(rt, "fw")
			case 3, 4:
				st.FR = rapid.IntRange(1, 30).Draw(rt, "fr")
			case 5:
				st.Full = true
			}
		}
		pl.Steps = append(pl.Steps, st)
	}
	// shared-transaction reorganisation motif: one transfer reaches every node, two nodes confirm it in
	// sibling blocks, one of them gets ahead and its chain is handed to the other through the sync path
	// (the same transaction above the fork point on the abandoned and on the new trunk).
	if p.ReorgMotif && pl.Nodes >= 2 && rapid.IntRange(0, 2).Draw(rt, "reorgmotif") == 2 {
		extra := rapid.IntRange(1, 2).Draw(rt, "reorgextra")
		pl.Steps = append(pl.Steps,
			CStep{Op: "tx", N: 0, Via: 63, Amt: rapid.IntRange(0, 4).Draw(rt, "reorgamt")},
			CStep{Op: "mine", N: 0, A: 1})
		if rapid.Bool().Draw(rt, "reorglate") {
			// the other node confirms it one block later: the block that switches the trunk carries it
			pl.Steps = append(pl.Steps, CStep{Op: "mine", N: 1, A: 0, B: 0})
		}
		pl.Steps = append(pl.Steps, CStep{Op: "mine", N: 1, A: 1})
		for i := 0; i < extra-1; i++ {
			pl.Steps = append(pl.Steps, CStep{Op: "mine", N: 1, A: 1})
		}
		// handed over block by block through ConfirmBlock (the single consensus of these worlds refuses
		// foreign producers on the sync path)
		for i := 0; i < 3; i++ {
			pl.Steps = append(pl.Steps, CStep{Op: "deliver", N: 0, Flag: true, Via: 1})
		}
		if rapid.Bool().Draw(rt, "reorgback") {
			pl.Steps = append(pl.Steps, CStep{Op: "mine", N: 0, A: 1}, CStep{Op: "mine", N: 0, A: 1})
			for i := 0; i < 5; i++ {
				pl.Steps = append(pl.Steps, CStep{Op: "deliver", N: 1, Flag: true, Via: 1})
			}
		}
	}
	// catch-up motif: another node gets several blocks ahead, node 0 stores them one by one and then
	// walks its state machine over all of them in one Walk (one storage batch per block: the crash
	// points between them are the interesting ones).
	if p.CatchUpMotif && pl.Nodes >= 2 && rapid.IntRange(0, 2).Draw(rt, "catchup") == 2 {
		k := rapid.IntRange(2, 3).Draw(rt, "catchupblocks")
		if rapid.Bool().Draw(rt, "catchuptx") {
			pl.Steps = append(pl.Steps, CStep{Op: "tx", N: 1, Via: 2, Amt: rapid.IntRange(0, 4).Draw(rt, "catchupamt")})
		}
		for i := 0; i < k; i++ {
			pl.Steps = append(pl.Steps, CStep{Op: "mine", N: 1, A: 1})
		}
		for i := 0; i < k-1; i++ {
			pl.Steps = append(pl.Steps, CStep{Op: "deliver", N: 0, Flag: true, Via: 1})
		}
		pl.Steps = append(pl.Steps, CStep{Op: "deliver", N: 0, Flag: true, Via: 2})
	}
	// fault-then-recover motif (drawn last so that earlier draws are unchanged): a pending write of a
	// key, an own block whose confirmation or play hits a write error, a walk that rolls the pool back
	// and re-admits it, then two more transactions on the same key. Uniformly drawn steps almost never
	// line these up (the defect behind it was found by hand, not by 17 000 random plans).
	if p.StorFaults && rapid.IntRange(0, 5).Draw(rt, "motif") == 5 {
		k := rapid.SampledFrom(kvKeys).Draw(rt, "motifkey")
		n := rapid.IntRange(0, pl.Nodes-1).Draw(rt, "motifnode")
		fw := rapid.IntRange(1, 3).Draw(rt, "motiffw")
		real := rapid.IntRange(0, 3).Draw(rt, "motifreal") // 0: the harness's own assembly (MaxTx), else the node's miner
		pl.Steps = append(pl.Steps,
			CStep{Op: "kvtx", N: n, Prog: []KOp{{Op: "put", K: k, V: "m1"}}},
			CStep{Op: "mine", N: n, A: real, B: 2, FW: fw},
			CStep{Op: "walk", N: n, A: rapid.IntRange(0, 3).Draw(rt, "motifwalk")},
			CStep{Op: "kvtx", N: n, Prog: []KOp{{Op: "put", K: k, V: "m2"}}},
			CStep{Op: "kvtx", N: n, Prog: []KOp{{Op: "get", K: k}, {Op: "put", K: kvKeys[0], V: "m3"}}},
		)
	}
	return pl
}

// genProgC09 draws programs that also fail (status >= 400 / error) part of the time.
func genProgC09(rt *rapid.T, depth int) []KOp {
	prog := genProg(rt, depth)
	// contract-originated transfers (the contract account is funded by ordinary transfers)
	for i, nx := 0, rapid.SampledFrom([]int{0, 0, 0, 1, 2, 3}).Draw(rt, "nxfer"); i < nx; i++ {
		prog = append(prog, KOp{Op: "xfer", To: Accts[rapid.IntRange(0, nAcct-1).Draw(rt, "xferto")].Addr, Amount: rapid.SampledFrom([]string{"1", "7", "40", "0"}).Draw(rt, "xferamt")})
	}
	if rapid.IntRange(0, 2).Draw(rt, "cp") == 0 {
		prog = append(prog, KOp{Op: "cp", K: rapid.SampledFrom(kvKeys).Draw(rt, "cpsrc"), V: rapid.SampledFrom(kvKeys).Draw(rt, "cpdst")})
	}
	// list-then-insert (drawn after the rest): a key is looked at (often absent), a range covering it is
	// scanned and the keys the scan yielded are written into an index key
	if rapid.IntRange(0, 3).Draw(rt, "listinsert") == 0 {
		probe := KOp{Op: "get", K: rapid.SampledFrom(kvKeys).Draw(rt, "likey")}
		scan := KOp{Op: "sel", K: "", End: "\x7f", V: "idx"}
		if rapid.Bool().Draw(rt, "liorder") {
			prog = append(prog, probe, scan)
		} else {
			prog = append(prog, scan, probe)
		}
	}
	switch rapid.IntRange(0, 9).Draw(rt, "failkind") {
	case 8:
		prog = append(prog, KOp{Op: "fail", Status: rapid.SampledFrom([]int{400, 500}).Draw(rt, "status")})
	case 9:
		prog = append(prog, KOp{Op: "err"})
	}
	return prog
}
