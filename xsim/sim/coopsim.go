package sim

import (
	"github.com/xuperchain/xupercore/protos"
	"os"
	"xsim/simkv"

	"bytes"
	"fmt"
	"math/big"
	"sort"
	"strings"

	lpb "github.com/xuperchain/xupercore/bcs/ledger/xledger/xldgpb"
	"github.com/xuperchain/xupercore/lib/xsimrt"
	"pgregory.net/rapid"
)

// Engine B — coopsim (C12): 2-4 concurrent requests (transaction submissions, locking output
// selections, one block play) on one real node under the cooperative scheduler; the outcome must
// equal that of SOME one-at-a-time order of the same requests executed on an identical node.

// CoopReq is one concurrent request.
type CoopReq struct {
	Kind string `json:"kind"` // dotx kvtx select play
	A    int    `json:"a"`
	B    int    `json:"b"`
	C    int    `json:"c"`
	Amt  int    `json:"amt"`
	D    int    `json:"d,omitempty"` // dotx: 1 = spend two consecutive outputs
	Prog []KOp  `json:"prog,omitempty"`
}

// CoopPlan is the plan of one C12 run.
type CoopPlan struct {
	Chain    ChainPlan `json:"chain"` // sequential setup on two nodes
	Reqs     []CoopReq `json:"reqs"`
	Preempts []Preempt `json:"preempts"`
	OnBlock  []int     `json:"on_block"`
	FW       int       `json:"fw"` // fail the FW-th write unit during the concurrent phase (0 = none)
}

func GenCoopPlan(rt *rapid.T, tier string) *CoopPlan {
	gp := &GenParams{Mix: OpMix{"tx": 6, "kvtx": 3, "mine": 3}, MaxSteps: 8, MaxNodes: 1, Windows: []int{0}, NoTinyUtxo: false}
	pl := &CoopPlan{Chain: *GenChainPlan(rt, gp)}
	pl.Chain.Nodes = 2
	pl.Chain.MapSeed = 0
	nr := rapid.IntRange(2, 4).Draw(rt, "nreq")
	hasPlay := false
	for i := 0; i < nr; i++ {
		kinds := []string{"dotx", "dotx", "kvtx", "kvtx", "select"}
		if !hasPlay {
			kinds = append(kinds, "play")
		}
		r := CoopReq{Kind: rapid.SampledFrom(kinds).Draw(rt, "kind")}
		r.A = rapid.IntRange(0, 2).Draw(rt, "ra")
		r.B = rapid.IntRange(0, 3).Draw(rt, "rb")
		r.C = rapid.IntRange(0, 4).Draw(rt, "rc")
		r.Amt = rapid.IntRange(0, 20).Draw(rt, "ramt")
		if r.Kind == "kvtx" {
			r.Prog = genProg(rt, 1)
		}
		if r.Kind == "play" {
			hasPlay = true
		}
		pl.Reqs = append(pl.Reqs, r)
	}
	maxAt := 400
	if tier == "thorough" {
		maxAt = 900
	}
	// conflict trio (one plan in six): three submissions spending the same output (same payer and
	// selector, different receivers) - the shortest history in which a lock released by a loser lets a
	// third conflicting submission through
	if rapid.IntRange(0, 5).Draw(rt, "trio") == 5 {
		a, b := rapid.IntRange(0, 2).Draw(rt, "trioa"), rapid.IntRange(0, 3).Draw(rt, "triob")
		kind := rapid.SampledFrom([]string{"dotx", "kvtx"}).Draw(rt, "triokind")
		pl.Reqs = nil
		for i := 0; i < 3; i++ {
			r := CoopReq{Kind: kind, A: a, B: b, C: i, Amt: rapid.IntRange(0, 20).Draw(rt, "trioamt")}
			if kind == "kvtx" {
				r.Prog = []KOp{{Op: "put", K: kvKeys[0], V: fmt.Sprintf("t%d", i)}}
			}
			pl.Reqs = append(pl.Reqs, r)
		}
		maxAt = 250
	}
	// selection duel (one plan in five, drawn after the requests so that earlier draws are unchanged):
	// two locking selections on one address, at least one through the by-size entry, preempted early
	if rapid.IntRange(0, 4).Draw(rt, "duel") == 4 {
		a := rapid.IntRange(0, 2).Draw(rt, "duela")
		pl.Reqs = []CoopReq{{Kind: "select", A: a, B: 2, Amt: rapid.IntRange(0, 20).Draw(rt, "duelamt")},
			{Kind: "select", A: a, B: rapid.SampledFrom([]int{2, 0}).Draw(rt, "duelb"), Amt: rapid.IntRange(0, 20).Draw(rt, "duelamt2")}}
		maxAt = 150
	}
	// partial overlap (one plan in six, drawn last): one submission spends one output, another the
	// same output together with a neighbour - the refused one has taken part of its locks when it
	// meets the contended one; what it took must be free again once it has returned (follow-ups)
	if rapid.IntRange(0, 5).Draw(rt, "overlap") == 5 {
		a, b := rapid.IntRange(0, 2).Draw(rt, "ova"), rapid.IntRange(0, 3).Draw(rt, "ovb")
		first := rapid.IntRange(0, 1).Draw(rt, "ovfirst")
		one := CoopReq{Kind: "dotx", A: a, B: b + first, C: 0, Amt: rapid.IntRange(0, 20).Draw(rt, "ovamt")}
		two := CoopReq{Kind: "dotx", A: a, B: b, C: 1, D: 1, Amt: rapid.IntRange(0, 20).Draw(rt, "ovamt2")}
		pl.Reqs = []CoopReq{one, two}
		if rapid.Bool().Draw(rt, "ovswap") {
			pl.Reqs = []CoopReq{two, one}
		}
		maxAt = 250
	}
	np := rapid.IntRange(0, 4).Draw(rt, "npre")
	for i := 0; i < np; i++ {
		pl.Preempts = append(pl.Preempts, Preempt{At: rapid.IntRange(0, maxAt).Draw(rt, "at"), To: rapid.IntRange(0, 4).Draw(rt, "to")})
	}
	for i := 0; i < 6; i++ {
		pl.OnBlock = append(pl.OnBlock, rapid.IntRange(0, 3).Draw(rt, "onblock"))
	}
	if rapid.IntRange(0, 9).Draw(rt, "fault") == 9 {
		pl.FW = rapid.IntRange(1, 3).Draw(rt, "fw")
	}
	return pl
}

type preparedReq struct {
	req    *CoopReq
	tx     *lpb.Transaction
	block  *lpb.InternalBlock
	addr   string
	need   *big.Int
	bySize bool
}

// execReq executes a prepared request on a node and returns a canonical outcome.
func execReq(n *Node, p *preparedReq) string {
	switch p.req.Kind {
	case "dotx", "kvtx":
		if p.tx == nil {
			return "skip"
		}
		if err := n.Chain.SubmitTx(n.BaseCtx(), CloneTx(p.tx)); err != nil {
			return "refused"
		}
		return "admitted"
	case "select":
		var ins []*protos.TxInput
		var tot *big.Int
		var err error
		if p.bySize {
			// the "merge utxo" entry: as many outputs as fit a transaction, locked
			ins, _, tot, err = n.S.SelectUtxosBySize(p.addr, true, false)
		} else {
			ins, _, tot, err = n.S.SelectUtxos(p.addr, p.need, true, false)
		}
		if err != nil || len(ins) == 0 {
			return "select:err"
		}
		var ks []string
		for _, in := range ins {
			ks = append(ks, utxoKey(in.FromAddr, in.RefTxid, in.RefOffset))
		}
		sort.Strings(ks)
		return fmt.Sprintf("select:%s:%s", tot, strings.Join(ks, ","))
	case "play":
		if p.block == nil {
			return "skip"
		}
		blk := CloneBlock(p.block)
		cs := n.L.ConfirmBlock(blk, false)
		if !cs.Succ {
			return "confirm-refused"
		}
		if err := n.S.Play(blk.Blockid); err != nil {
			return "play-refused"
		}
		return "played"
	}
	return "?"
}

// ExecCoop executes a C12 plan.
func ExecCoop(plan *CoopPlan, rc *RunCtx) *Violation {
	cfg := &ChainCfg{Prop: "C12", NoStepOrcl: true}
	r, v := setupChainRun(&plan.Chain, cfg, rc)
	if v != nil {
		return v
	}
	// sequential setup; node 1 mirrors node 0's chain
	for i := range plan.Chain.Steps {
		st := plan.Chain.Steps[i]
		st.N = 0
		st.Via = 0
		st.Defer = false
		st.FW, st.FR, st.Full = 0, 0, false
		r.step = i
		r.op = st.Op
		if v := r.doStep(&st); v != nil {
			return v
		}
	}
	rc.RunBG()
	n0, n1 := r.w.Nodes[0], r.w.Nodes[1]
	if !bytes.Equal(n0.L.GetMeta().TipBlockid, n0.S.GetLatestBlockid()) {
		return nil
	}
	path, _ := r.cm.Path(n0.S.GetLatestBlockid())
	for _, mb := range path[1:] {
		if err := n1.Chain.ProcBlock(n1.BaseCtx(), CloneBlock(mb.Block)); err != nil {
			return nil // setup could not be mirrored (e.g. known small-cache finding): nothing to check
		}
		r.views[1].noteStored(r.cm, mb.ID)
	}
	rc.RunBG()
	// prepare the requests against the common pre-state
	r.op = "prepare"
	var prep []*preparedReq
	h := n0.L.GetMeta().TrunkHeight
	for i := range plan.Reqs {
		rq := &plan.Reqs[i]
		p := &preparedReq{req: rq}
		switch rq.Kind {
		case "dotx":
			st := &CStep{Op: "tx", A: rq.A, B: rq.B, C: rq.C, Amt: rq.Amt, D: rq.D}
			p.tx = r.buildTx(n0, st)
		case "kvtx":
			st := &CStep{Op: "kvtx", A: rq.A, B: rq.B, C: rq.C, Amt: rq.Amt, Prog: rq.Prog}
			p.tx = r.buildTx(n0, st)
		case "select":
			p.addr = Accts[rq.A%nAcct].Addr
			bal, _ := n0.S.GetBalance(p.addr)
			p.need = new(big.Int).Div(new(big.Int).Mul(bal, big.NewInt(int64(1+rq.Amt%4))), big.NewInt(6))
			if p.need.Sign() == 0 {
				p.need = big.NewInt(1)
			}
			if rq.B%3 == 2 {
				p.bySize = true
				p.need = big.NewInt(1) // any non-empty set of free outputs is admissible
			}
		case "play":
			// the competing block comes from node 1, which holds one transaction of its own
			st := &CStep{Op: "tx", A: rq.A, B: rq.B, C: rq.C, Amt: rq.Amt}
			if rq.Amt%3 == 0 {
				st = &CStep{Op: "kvtx", A: rq.A, B: rq.B, Prog: []KOp{{Op: "put", K: kvKeys[rq.C%len(kvKeys)], V: "blk"}}}
			}
			if tx := r.buildTx(n1, st); tx != nil {
				n1.Chain.SubmitTx(n1.BaseCtx(), CloneTx(tx))
				r.txs[string(tx.Txid)] = CloneTx(tx)
				r.u.AddTx(tx.Txid)
			}
			blk, err := n1.Mine(MineOpts{MaxTx: -1})
			if err == nil {
				p.block = blk
				r.registerBlock(blk)
				r.views[1].noteStored(r.cm, blk.Blockid)
			}
		}
		if p.tx != nil {
			r.txs[string(p.tx.Txid)] = CloneTx(p.tx)
			r.u.AddTx(p.tx.Txid)
		}
		prep = append(prep, p)
		_ = h
	}
	// somebody has looked at every balance before (a polling wallet): the balance cache is warm, so
	// in-memory balance bookkeeping of the concurrent requests is visible afterwards
	for _, a := range Accts[:nAcct] {
		n0.S.GetBalance(a.Addr)
	}
	pre := n0.Disk.Clone()
	// ---- concurrent execution ------------------------------------------------------------------------
	r.op = "concurrent"
	coop := NewCoop(rc, plan.Preempts, plan.OnBlock, &xsimrt.H{MapSeed: 0})
	outcomes := make([]string, len(prep))
	for i, p := range prep {
		i, p := i, p
		coop.Spawn(fmt.Sprintf("req%d:%s", i, p.req.Kind), func() {
			outcomes[i] = execReq(n0, p)
		})
	}
	if plan.FW > 0 {
		// a storage write error inside one of the concurrent submissions
		n0.Disk.Arm(simkvFaultWrite(plan.FW - 1))
	}
	dl, pan := coop.Run()
	faulted := false
	if plan.FW > 0 {
		faulted = n0.Disk.St.FailedWrites > 0
		rc.St.Faults["kv-write-error"] += n0.Disk.St.FailedWrites
		n0.Disk.Disarm()
	}
	rc.AttachHooks(&xsimrt.H{})
	if pan != "" {
		return r.viol("crash", "a concurrent request crashed the node: %s", pan)
	}
	if dl != "" {
		return r.viol("deadlock", "%s; requests %v; trace %s", dl, reqKinds(prep), coop.Trace())
	}
	for _, race := range coop.Races {
		rc.St.Probes["coop-map-race-candidates"]++
		rc.Log.Add("map race candidate: %s", race)
		if os.Getenv("XSIM_RACES") != "" {
			fmt.Fprintf(os.Stderr, "RACE-CANDIDATE %s\n", race)
		}
	}
	rc.RunBG()
	rc.Log.Add("concurrent outcomes %v switches %d", outcomes, coop.Switches)
	for i, o := range outcomes {
		rc.St.Probes["outcome-"+strings.SplitN(o, ":", 2)[0]]++
		_ = i
	}
	for _, p := range prep {
		if p.block != nil && n0.L.ExistBlock(p.block.Blockid) {
			r.views[0].noteStored(r.cm, p.block.Blockid)
		}
	}
	r.noteApplied(n0, r.views[0])
	// selectors never share an output - unless an admitted transaction of the batch spent it in between:
	// the node cannot tell who built a transaction, an admitted spend consumes the selection, and when
	// that transaction is rolled back (a played block conflicts with it) the output is free again
	consumed := map[string]bool{}
	for i, p := range prep {
		if p.tx != nil && outcomes[i] == "admitted" {
			for _, in := range p.tx.TxInputs {
				consumed[utxoKey(in.FromAddr, in.RefTxid, in.RefOffset)] = true
			}
		}
	}
	seen := map[string]int{}
	for i, o := range outcomes {
		if !strings.HasPrefix(o, "select:") || o == "select:err" {
			continue
		}
		parts := strings.SplitN(o, ":", 3)
		for _, k := range strings.Split(parts[2], ",") {
			if j, dup := seen[k]; dup && consumed[k] {
				rc.St.Probes["selection-consumed-then-freed-by-rollback"]++
			} else if dup {
				return r.viol("output-selected-twice", "locking selectors #%d and #%d were both handed output %s (trace %s)", j, i, shortKey(k), coop.Trace())
			}
			seen[k] = i
		}
		tot, _ := new(big.Int).SetString(parts[1], 10)
		if tot == nil || tot.Cmp(prep[i].need) < 0 {
			return r.viol("selection-insufficient", "selector #%d was handed %s for a need of %s", i, parts[1], prep[i].need)
		}
	}
	// invariants of C02 / C03 on the final state
	fin := &ChainCfg{Prop: "C12", Conserve: true, PoolOrder: true, Model: true}
	r.cfg = fin
	if vi := r.checkNode(0, true); vi != nil {
		vi.Msg += " (after concurrent requests " + fmt.Sprint(reqKinds(prep)) + " -> " + fmt.Sprint(outcomes) + ", trace " + coop.Trace() + ")"
		return vi
	}
	if faulted {
		// an injected write error may fail one request; equivalence to a fault-free serial order is not demanded
		rc.St.Probes["concurrent-with-write-fault"]++
		return nil
	}
	// ---- some serial order explains it ------------------------------------------------------------------
	obsOf := func(n *Node) *Obs {
		o := NewObs()
		n.ObsState(r.u, o, StateObsOpts{Pool: true})
		m := n.L.GetMeta()
		o.Put("L.meta", "tip=%s h=%d", hx(m.TipBlockid), m.TrunkHeight)
		return o
	}
	got := obsOf(n0)
	filter := func(k string) bool {
		return !strings.HasPrefix(k, "S.baldet.") && !strings.HasPrefix(k, "S.frozen.")
	}
	strip := func(o []string) []string {
		out := make([]string, len(o))
		for i, x := range o {
			if strings.HasPrefix(x, "select:") {
				x = "select"
				if strings.HasPrefix(o[i], "select:err") {
					x = "select:err"
				}
			}
			out[i] = x
		}
		return out
	}
	// The admission lock is a try-lock: under contention a submission that shares an output or a key
	// (with at least one writer) with another request of the batch may be refused outright. Such a
	// refusal is a legal outcome of the concurrent batch (the request had no effect); it is excused,
	// i.e. left out of the serial reference. Every other refusal must also happen serially.
	excused := map[int]bool{}
	for i, p := range prep {
		if outcomes[i] != "refused" || p.tx == nil {
			continue
		}
		for j, q := range prep {
			if i == j {
				continue
			}
			var others []*lpb.Transaction
			if q.tx != nil {
				others = append(others, q.tx)
			}
			if q.block != nil {
				others = append(others, q.block.Transactions...)
			}
			for _, o := range others {
				if lockConflict(p.tx, o) {
					excused[i] = true
				}
			}
		}
		if excused[i] {
			rc.St.Probes["refusal-excused-by-lock-conflict"]++
		}
	}
	var perm []int
	for i := range prep {
		if !excused[i] {
			perm = append(perm, i)
		}
	}
	var closest string
	var followViol *Violation
	found := false
	permute(perm, 0, func(order []int) bool {
		ref, err := r.w.NodeOnDisk("serial", 0, pre.Clone())
		if err != nil {
			panic(err)
		}
		defer ref.Drop()
		ro := make([]string, len(prep))
		for i := range ro {
			if excused[i] {
				ro[i] = "refused"
			}
		}
		// Which outputs a selection picks is not pinned down by the property (the running node serves its
		// cache first, a cold instance scans the table in key order), and whether a later selection still
		// finds enough depends on that choice. A selection is therefore judged for admissibility at its
		// place in the order instead of being re-executed: a successful one must have been handed outputs
		// that are unspent, unfrozen and not handed out before; a failed one is justified only if what
		// is left falls short of the amount asked for.
		handedOut := map[string]bool{}
		for _, i := range order {
			if prep[i].req.Kind != "select" || os.Getenv("XSIM_C12_REEXEC_SELECT") != "" {
				ro[i] = execReq(ref, prep[i])
				rc.RunBG()
				if ro[i] == "admitted" && prep[i].tx != nil {
					// an admitted spend consumes the selections of its inputs
					for _, in := range prep[i].tx.TxInputs {
						delete(handedOut, utxoKey(in.FromAddr, in.RefTxid, in.RefOffset))
					}
				}
				continue
			}
			us, _ := ref.ListUtxos(prep[i].addr)
			h := ref.L.GetMeta().TrunkHeight
			free := map[string]*big.Int{}
			avail := new(big.Int)
			for _, u := range us {
				k := utxoKey([]byte(u.Addr), u.Txid, u.Offset)
				if handedOut[k] || u.Frozen == -1 || u.Frozen > h || u.Amount.Sign() == 0 {
					continue
				}
				free[k] = u.Amount
				avail.Add(avail, u.Amount)
			}
			if outcomes[i] == "select:err" {
				ro[i] = "select:err"
				if avail.Cmp(prep[i].need) >= 0 {
					ro[i] = fmt.Sprintf("select:ok (%s free for %s asked)", avail, prep[i].need)
				}
				continue
			}
			parts := strings.SplitN(outcomes[i], ":", 3)
			ro[i] = "select"
			sum := new(big.Int)
			if len(parts) == 3 {
				for _, k := range strings.Split(parts[2], ",") {
					if free[k] == nil {
						ro[i] = "select:err (handed " + k + " which is spent, frozen or already handed out)"
						break
					}
					sum.Add(sum, free[k])
					handedOut[k] = true
				}
			}
			if ro[i] == "select" && sum.Cmp(prep[i].need) < 0 {
				ro[i] = fmt.Sprintf("select:err (handed %s for %s asked)", sum, prep[i].need)
			}
		}
		rc.St.Probes["serial-orders-executed"]++
		if fmt.Sprint(strip(ro)) != fmt.Sprint(strip(outcomes)) {
			if closest == "" {
				closest = fmt.Sprintf("order %v gives outcomes %v", order, ro)
			}
			return true
		}
		if d := Diff(got, obsOf(ref), filter); d != "" {
			closest = fmt.Sprintf("order %v gives the same outcomes but a different final state: %s", order, d)
			return true
		}
		found = true
		// Nothing is in flight any more, so nothing may still be locked: every output a request of the
		// batch named as an input and that is still unspent is now spent by its owner in a transaction
		// of its own, on the node and on the serial reference; both must answer alike.
		for _, fu := range r.followUps(n0, prep) {
			a, b := n0.Chain.SubmitTx(n0.BaseCtx(), CloneTx(fu)) == nil, ref.Chain.SubmitTx(ref.BaseCtx(), CloneTx(fu)) == nil
			rc.RunBG()
			rc.St.Probes["follow-up-submitted"]++
			if a != b {
				followViol = r.viol("request-effect-outlives-request", "after the concurrent requests %v finished with outcomes %v (explained by order %v), a transaction spending the still unspent output %s alone is admitted=%v on the node but admitted=%v on the one-at-a-time reference; trace %s", reqKinds(prep), outcomes, order, hx(fu.TxInputs[0].RefTxid), a, b, coop.Trace())
				break
			}
		}
		return false
	})
	if followViol != nil {
		return followViol
	}
	if !found {
		return r.viol("not-serialisable", "requests %v finished with outcomes %v; no one-at-a-time order of the same requests on an identical node gives that result (%s); trace %s", reqKinds(prep), outcomes, closest, coop.Trace())
	}
	rc.St.Probes["serialisable-checked"]++
	if coop.Switches > len(prep) {
		rc.St.Probes["serialisable-checked-with-preemption"]++
	}
	return nil
}

func reqKinds(prep []*preparedReq) []string {
	var ks []string
	for _, p := range prep {
		k := p.req.Kind
		if p.tx != nil {
			k += ":" + hx(p.tx.Txid)
		}
		ks = append(ks, k)
	}
	return ks
}

// permute calls f with every permutation of a until f returns false.
func permute(a []int, k int, f func([]int) bool) bool {
	if k == len(a) {
		return f(append([]int{}, a...))
	}
	for i := k; i < len(a); i++ {
		a[k], a[i] = a[i], a[k]
		if !permute(a, k+1, f) {
			a[k], a[i] = a[i], a[k]
			return false
		}
		a[k], a[i] = a[i], a[k]
	}
	return true
}

func simkvFaultWrite(k int) simkv.Faults { return simkv.Faults{FailWrite: map[int]bool{k: true}} }

// lockConflict reports whether two transactions contend in the admission lock protocol as the
// property describes it: same output consumed, or same key touched with at least one writer.
func lockConflict(a, b *lpb.Transaction) bool {
	ins := map[string]bool{}
	for _, i := range a.TxInputs {
		ins[utxoKey(i.FromAddr, i.RefTxid, i.RefOffset)] = true
	}
	for _, i := range b.TxInputs {
		if ins[utxoKey(i.FromAddr, i.RefTxid, i.RefOffset)] {
			return true
		}
	}
	type rw struct{ r, w bool }
	keys := func(t *lpb.Transaction) map[string]*rw {
		m := map[string]*rw{}
		for _, i := range t.TxInputsExt {
			k := i.Bucket + "/" + string(i.Key)
			if m[k] == nil {
				m[k] = &rw{}
			}
			m[k].r = true
		}
		for _, o := range t.TxOutputsExt {
			if o.Bucket == transientBucket {
				continue
			}
			k := o.Bucket + "/" + string(o.Key)
			if m[k] == nil {
				m[k] = &rw{}
			}
			m[k].w = true
		}
		return m
	}
	ka, kb := keys(a), keys(b)
	for k, x := range ka {
		if y, ok := kb[k]; ok && (x.w || y.w) {
			return true
		}
	}
	return false
}

// followUps builds, for every output named as an input by a transaction of the batch and still
// listed as unspent and unfrozen on n, a transaction in which its owner spends just that output.
func (r *chainRun) followUps(n *Node, prep []*preparedReq) []*lpb.Transaction {
	var out []*lpb.Transaction
	done := map[string]bool{}
	h := n.L.GetMeta().TrunkHeight
	for _, p := range prep {
		if p.tx == nil {
			continue
		}
		for _, in := range p.tx.TxInputs {
			k := utxoKey(in.FromAddr, in.RefTxid, in.RefOffset)
			if done[k] {
				continue
			}
			done[k] = true
			var owner *Acct
			for _, a := range Accts {
				if a.Addr == string(in.FromAddr) {
					owner = a
				}
			}
			if owner == nil {
				continue
			}
			us, _ := n.ListUtxos(owner.Addr)
			for _, u := range us {
				if utxoKey([]byte(u.Addr), u.Txid, u.Offset) != k || u.Frozen == -1 || u.Frozen > h || u.Amount.Sign() == 0 {
					continue
				}
				if tx, err := BuildTx(&TxSpec{From: owner, Version: 3, Inputs: []UtxoRef{u}, Outs: []OutSpec{{To: owner.Addr, Amount: u.Amount}}, NoChange: true}); err == nil {
					out = append(out, tx)
				}
			}
		}
	}
	return out
}
