package sim

// C14 chain path, continued: the validator list of the booted xpoa+BFT chain is changed ON CHAIN by
// a real editValidates transaction (pre-executed by the node's Chain.PreExec, authorised and signed
// by the validators in force, carried by an honest block that goes through Chain.ProcBlock), the
// chain is driven on through ProcBlock with honest blocks, and at every height after the change
// certificates are presented as the `justify` of correctly slotted and signed candidate blocks to
// CheckMinerMatch.
//
// ORACLE. A certificate carried by a block of height h certifies view h-1; it is judged by the
// independent verifier of c14_model.go against the validator list in force for view h-1 (NOT the
// list that governs the carrying block) and the collector = producer of the carrying block. Which
// list is in force for a view is not computed from an activation constant:
//   - views up to e (the height of the block that carries the change) are governed by the old list;
//   - from e+1 on the harness asks the node, height by height, which list it applies to the
//     PRODUCER of a block of that height (xpoa.XsimExpectedValidators = the plugin's own
//     GetLocalValidates) and then has an honest block of exactly that list's rotation - produced by
//     a member of that list only, where there is one - adopted through ProcBlock. The first view
//     answered with the new list is the activation view a; the property's reading of "a change
//     confirmed in block e" requires a in (e, e+6], old answers before a, new answers from a on.
//     Anything else (another list, old after new, no activation inside the window, an honest block
//     that is not adopted) ends the stage: nothing is judged where the governing list is not
//     established.
// The boundary block is the one of view a: its own producer is taken from the new list, the
// certificate it carries is for view a-1, the last view of the old list.

import (
	"bytes"
	"encoding/json"
	"fmt"
	"math/big"
	"strings"
	"time"

	"github.com/xuperchain/xupercore/bcs/consensus/xpoa"
	"github.com/xuperchain/xupercore/bcs/ledger/xledger/state"
	"github.com/xuperchain/xupercore/bcs/ledger/xledger/tx"
	lpb "github.com/xuperchain/xupercore/bcs/ledger/xledger/xldgpb"
	"github.com/xuperchain/xupercore/kernel/consensus"
	ccommon "github.com/xuperchain/xupercore/kernel/consensus/base/common"
	cbft "github.com/xuperchain/xupercore/kernel/consensus/base/driver/chained-bft"
	bftpb "github.com/xuperchain/xupercore/kernel/consensus/base/driver/chained-bft/pb"
	pb "github.com/xuperchain/xupercore/protos"
)

const (
	c14OpChain  = "xpoa-check-miner-match"               // listed findings keep their fingerprint
	c14OpChange = "xpoa-check-miner-match-at-set-change" // certificates judged at or after a validator change
	c14Window   = 6                                      // a change confirmed in block e governs views from some a in (e, e+c14Window]
)

// c14Contracts: names under which an xpoa instance registers its kernel contract (with / without bft_config).
var c14Contracts = []string{"$xpoa", "$poa"}

type c14VCRun struct {
	h, hk *c14H // hk: the chain path's copy of the run state (flags are collected there)
	n     *Node
	plug  interface{}
	vc    *C14VC
	certs []*C14Cert // the plan's certificates (as the height-2 stage got them)

	ids          []*Acct // identity j of the plan
	byAddr       map[string]*Acct
	old, new     []*Acct
	oldAd, newAd []string
	e, a         int64 // height of the block that carries the change; first view governed by the new list (0: not seen yet)
	idChild      []byte
}

func c14Addrs(set []*Acct) []string {
	out := make([]string, len(set))
	for i, a := range set {
		out[i] = a.Addr
	}
	return out
}

func c14In(set []*Acct, a *Acct) bool {
	for _, m := range set {
		if m.Addr == a.Addr {
			return true
		}
	}
	return false
}

func c14SameList(a, b []string) bool {
	return len(a) == len(b) && strings.Join(a, ";") == strings.Join(b, ";")
}

func (cx *c14VCRun) logf(format string, a ...interface{}) {
	cx.h.rc.Log.Add("vc "+format, a...)
}

func (cx *c14VCRun) probe(name string) { cx.h.rc.St.Probes[name]++ }

func (cx *c14VCRun) tip() *lpb.InternalBlock {
	b, err := cx.n.L.QueryBlock(cx.n.L.GetMeta().TipBlockid)
	if err != nil {
		panic("c14 harness: tip block: " + err.Error())
	}
	return b
}

// execC14VC runs the validator-change stage on the node the height-2 stage leaves behind.
func execC14VC(h, hk *c14H, n *Node, certs []*C14Cert) {
	p := h.p
	if len(Accts) != c14Ids {
		panic("c14: identity universe changed")
	}
	cx := &c14VCRun{h: h, hk: hk, n: n, vc: p.VC, certs: certs, byAddr: map[string]*Acct{}}
	cx.plug = consensus.XsimCurrent(n.Ctx.Consensus)
	if xpoa.XsimValidators(cx.plug) == nil {
		panic("c14 harness: the booted consensus is not xpoa")
	}
	for j := 0; j < c14Ids; j++ {
		a := Accts[(p.Rot+j)%c14Ids]
		cx.ids = append(cx.ids, a)
		cx.byAddr[a.Addr] = a
	}
	cx.old = append(cx.old, cx.ids[:p.N]...)
	seen := map[int]bool{}
	for _, j := range p.VC.New {
		if j < 0 || j >= c14Ids || seen[j] {
			panic("c14: bad new validator list in plan")
		}
		seen[j] = true
		cx.new = append(cx.new, cx.ids[j])
	}
	cx.oldAd, cx.newAd = c14Addrs(cx.old), c14Addrs(cx.new)
	if len(cx.new) == 0 || c14SameList(cx.oldAd, cx.newAd) {
		panic("c14: plan's validator change changes nothing")
	}
	cx.idChild = make([]byte, 32)
	copy(cx.idChild, []byte("c14-vc-child"))
	cx.idChild[31] = 0x5a
	cx.run()
}

func (cx *c14VCRun) run() {
	vc := cx.vc
	// honest blocks under the configured list
	for i := 0; i < vc.Pre; i++ {
		if !cx.honest(cx.old, cx.old, nil, "spacer") {
			cx.probe("chain-vc-spacer-block-refused")
			return
		}
	}
	// the change
	etx := cx.editTx()
	if etx == nil {
		return
	}
	if !cx.honest(cx.old, cx.old, []*lpb.Transaction{etx}, "edit") {
		cx.probe("chain-vc-edit-block-refused")
		return
	}
	cx.e = cx.tip().Height
	if got := cx.query(); !c14SameList(got, cx.newAd) {
		panic(fmt.Sprintf("c14 harness: after the change the contract reports validators %v, want %v", c16Shorts(got), c16Shorts(cx.newAd)))
	}
	oldOnly, newOnly := 0, 0
	for _, m := range cx.old {
		if !c14In(cx.new, m) {
			oldOnly++
		}
	}
	for _, m := range cx.new {
		if !c14In(cx.old, m) {
			newOnly++
		}
	}
	cx.probe("chain-validator-set-changed")
	switch {
	case len(cx.new) > len(cx.old):
		cx.probe("chain-validator-set-grew")
	case len(cx.new) < len(cx.old):
		cx.probe("chain-validator-set-shrank")
	default:
		cx.probe("chain-validator-set-same-size")
	}
	if oldOnly > 0 && newOnly > 0 {
		cx.probe("chain-validator-set-old-only-and-new-only-members")
	}
	if oldOnly > 0 && newOnly == 0 {
		cx.probe("chain-validator-set-members-only-leave")
	}
	if oldOnly == 0 && newOnly > 0 {
		cx.probe("chain-validator-set-members-only-join")
	}
	cx.logf("validators %v -> %v by the block at height %d", c16Shorts(cx.oldAd), c16Shorts(cx.newAd), cx.e)

	// drive the chain on; judge certificates at every height
	prev := cx.old // list in force for view hgt-1
	for hgt := cx.e + 1; ; hgt++ {
		ans := xpoa.XsimExpectedValidators(cx.plug, hgt)
		var g []*Acct
		switch {
		case c14SameList(ans, cx.newAd):
			g = cx.new
			if cx.a == 0 {
				cx.a = hgt
				cx.logf("the node applies the new list to producers from height %d on (change in block %d)", hgt, cx.e)
			}
		case c14SameList(ans, cx.oldAd) && cx.a == 0:
			g = cx.old
		default:
			cx.probe("chain-vc-governing-list-not-established")
			cx.logf("height %d: the node answers %v: governing list not established, stage ends", hgt, c16Shorts(ans))
			return
		}
		if cx.a == 0 && hgt >= cx.e+c14Window {
			// (hgt = e+6 answered "old": the new list would have to start later than the window allows)
			cx.probe("chain-vc-no-activation-in-window")
			cx.logf("height %d: the new list is still not applied, stage ends", hgt)
			return
		}
		where := "old"
		switch {
		case hgt == cx.a:
			where = "boundary"
		case cx.a != 0:
			where = "new"
		}
		cx.judgeHeight(hgt, prev, g, where)
		if cx.a != 0 && hgt >= cx.a+int64(vc.Tail) {
			return
		}
		if !cx.honest(g, prev, nil, where) {
			cx.probe("chain-vc-honest-block-refused-" + where)
			return
		}
		prev = g
	}
}

// ---- blocks --------------------------------------------------------------------------------------

// mkBlock builds a block on `pre`, produced and signed by `proposer` in its own slot of the
// rotation of `set` (the list governing the new block's height).
func (cx *c14VCRun) mkBlock(proposer *Acct, set []*Acct, pre *lpb.InternalBlock, qc *lpb.QuorumCert, txs []*lpb.Transaction) *lpb.InternalBlock {
	n := cx.n
	pos := -1
	for i, m := range set {
		if m.Addr == proposer.Addr {
			pos = i
		}
	}
	if pos < 0 {
		panic("c14 harness: producer outside its list")
	}
	height := pre.Height + 1
	award, err := tx.GenerateAwardTx(proposer.Addr, n.L.GenesisBlock.CalcAward(height).String(), []byte("award"))
	must(err)
	ts := c14SlotTime("xpoa", len(set), pos, 0, pre.Timestamp)
	all := append([]*lpb.Transaction{award}, txs...)
	b, err := n.L.FormatMinerBlock(all, []byte(proposer.Addr), proposer.SK, ts, 0, 0, pre.Blockid, 0, n.S.GetTotal(), qc, nil, height)
	must(err)
	return b
}

// qc wraps signature entries into the justify of a block built on `pre`.
func (cx *c14VCRun) qc(pre *lpb.InternalBlock, signs []*bftpb.QuorumCertSign) *lpb.QuorumCert {
	old, err := ccommon.NewToOldQC(&cbft.QuorumCert{
		VoteInfo:  &cbft.VoteInfo{ProposalId: pre.Blockid, ProposalView: pre.Height, ParentId: pre.PreHash, ParentView: pre.Height - 1},
		SignInfos: signs,
	})
	must(err)
	return old
}

// honest builds and delivers (ProcBlock) the next block: producer from g (the list governing the
// new height; a member of g only and not the checking node itself, where possible), justify signed
// by every member of the list in force for the certified view (gPrev) - and, across a change, of g
// as well: signatures of non-members are neither needed nor harmful - besides the producer.
func (cx *c14VCRun) honest(g, gPrev []*Acct, txs []*lpb.Transaction, what string) bool {
	rc := cx.h.rc
	time.Sleep(time.Millisecond)
	pre := cx.tip()
	other := cx.new
	if len(g) == len(cx.new) && c14SameList(c14Addrs(g), cx.newAd) {
		other = cx.old
	}
	var prod *Acct
	best := -1
	off := cx.vc.Sel + int(pre.Height)
	for i := range g {
		m := g[(i+off)%len(g)]
		score := 0
		if m.Addr != cx.h.accAcct.Addr {
			score += 2
		}
		if !c14In(other, m) {
			score++
		}
		if score > best {
			best, prod = score, m
		}
	}
	var signs []*bftpb.QuorumCertSign
	signed := map[string]bool{prod.Addr: true}
	for _, set := range [][]*Acct{gPrev, g} {
		for _, m := range set {
			if signed[m.Addr] {
				continue
			}
			signed[m.Addr] = true
			signs = append(signs, &bftpb.QuorumCertSign{Address: m.Addr, PublicKey: m.Pub, Sign: c14Sign(m, pre.Blockid)})
		}
	}
	b := cx.mkBlock(prod, g, pre, cx.qc(pre, signs), txs)
	if d := time.Until(time.Unix(0, b.Timestamp)); d > 0 {
		time.Sleep(d + time.Second)
	}
	err := cx.n.Chain.ProcBlock(cx.n.BaseCtx(), CloneBlock(b))
	rc.BG = nil
	rc.St.Ops["xpoa-proc-block-honest"]++
	adopted := err == nil && bytes.Equal(cx.n.L.GetMeta().TipBlockid, b.Blockid) && bytes.Equal(cx.n.S.GetLatestBlockid(), b.Blockid)
	excl := !c14In(other, prod)
	cx.logf("honest %s block height %d by %s (list of %d, in that list only: %v), %d signatures: adopted=%v err=%v", what, b.Height, shortAddr(prod.Addr), len(g), excl, len(signs), adopted, err)
	if !adopted && prod.Addr == cx.h.accAcct.Addr {
		// (the list is the checking node alone: the node takes a block of its own identity for one it
		// mined itself and tries to propose it to the others - not this property's business)
		cx.probe("chain-vc-honest-block-of-the-checking-node-itself-refused")
	}
	if adopted {
		cx.probe("chain-vc-honest-block-adopted")
		if excl && cx.e != 0 {
			cx.probe("chain-vc-list-confirmed-by-exclusive-producer")
		}
		if what == "boundary" {
			cx.probe("chain-boundary-honest-block-adopted")
		}
	}
	return adopted
}

// ---- the change ----------------------------------------------------------------------------------

// query reads the validator list through the contract's getValidates method.
func (cx *c14VCRun) query() []string {
	n := cx.n
	for _, name := range c14Contracts {
		req := &pb.InvokeRequest{ModuleName: "xkernel", ContractName: name, MethodName: "getValidates", Args: map[string][]byte{}}
		resp, err := n.Chain.PreExec(n.BaseCtx(), []*pb.InvokeRequest{req}, Accts[0].Addr, []string{Accts[0].Addr})
		cx.h.rc.BG = nil
		if err != nil || len(resp.Responses) == 0 {
			continue
		}
		var out struct {
			Address []string `json:"address"`
		}
		if json.Unmarshal(resp.Responses[len(resp.Responses)-1].Body, &out) != nil {
			continue
		}
		return out.Address
	}
	return nil
}

// editTx builds the transaction that installs the new list: editValidates pre-executed on the node
// (the recipe of the C16 engine): threshold authorisation naming every validator the node
// schedules, weight 1 each; all of them sign.
func (cx *c14VCRun) editTx() *lpb.Transaction {
	n := cx.n
	aks := xpoa.XsimValidators(cx.plug)
	weights := map[string]float64{}
	var signers []*Acct
	for _, a := range aks {
		weights[a] = 1
		s := cx.byAddr[a]
		if s == nil {
			panic("c14 harness: a scheduled validator is not one of the plan's identities")
		}
		signers = append(signers, s)
	}
	wj, err := json.Marshal(weights)
	must(err)
	args := map[string][]byte{
		"validates":   []byte(strings.Join(cx.newAd, ";")),
		"aksWeight":   wj,
		"rule":        []byte("1"),
		"acceptValue": []byte(fmt.Sprint(len(aks))),
	}
	from := Accts[0]
	var resp *pb.InvokeResponse
	for _, name := range c14Contracts {
		req := &pb.InvokeRequest{ModuleName: "xkernel", ContractName: name, MethodName: "editValidates", Args: args}
		resp, err = n.Chain.PreExec(n.BaseCtx(), []*pb.InvokeRequest{req}, from.Addr, aks)
		cx.h.rc.BG = nil
		if err == nil {
			break
		}
	}
	if err != nil {
		cx.probe("chain-vc-edit-preexec-refused")
		cx.logf("editValidates %v refused by pre-execution: %v", c16Shorts(cx.newAd), err)
		return nil
	}
	us, err := n.ListUtxos(from.Addr)
	must(err)
	need := big.NewInt(resp.GasUsed)
	var in []UtxoRef
	for _, u := range us {
		if u.Frozen == 0 && u.Amount.Cmp(need) >= 0 {
			in = append(in, u)
			break
		}
	}
	if len(in) == 0 {
		panic("c14 harness: the initiator cannot pay the fee of editValidates")
	}
	t, err := BuildTx(&TxSpec{From: from, Version: 3, Invoke: resp, Inputs: in, AuthRequire: aks, Signers: signers})
	must(err)
	cx.logf("editValidates %v authorised by %v: tx %s", c16Shorts(cx.newAd), c16Shorts(aks), hx(t.Txid))
	return t
}

// ---- judging -------------------------------------------------------------------------------------

// outsFor lists identities outside `set`: the members of `prefer` first (list order), then the
// other identities of the plan, at least three.
func (cx *c14VCRun) outsFor(set, prefer []*Acct) []*Acct {
	var outs []*Acct
	for _, m := range prefer {
		if !c14In(set, m) {
			outs = append(outs, m)
		}
	}
	for _, m := range cx.ids {
		if len(outs) >= 3 {
			break
		}
		if !c14In(set, m) && !c14In(outs, m) {
			outs = append(outs, m)
		}
	}
	return outs
}

// collectors picks the producers of the candidate blocks of one height (members of g). At the
// boundary: a member of the new list only and a member of both lists, where they exist.
func (cx *c14VCRun) collectors(hgt int64, gPrev, g []*Acct, where string) []*Acct {
	off := cx.vc.Sel + int(hgt)
	if where != "boundary" {
		return []*Acct{g[off%len(g)]}
	}
	var excl, common *Acct
	for i := range g {
		m := g[(i+off)%len(g)]
		if c14In(gPrev, m) {
			if common == nil {
				common = m
			}
		} else if excl == nil {
			excl = m
		}
	}
	var out []*Acct
	for _, m := range []*Acct{excl, common} {
		if m != nil {
			out = append(out, m)
		}
	}
	if cx.vc.Sel%2 == 1 && len(out) == 2 {
		out[0], out[1] = out[1], out[0]
	}
	return out
}

// motifs builds the certificates every judged height gets besides the plan's; g is the OTHER list
// of the change (the one that is not in force for the certified view): (1) exactly the threshold
// many members of the certified view's list besides the collector, members that are not in the
// other list first; (2) one short of the threshold from the members both lists share, plus every
// member that only the other list has; (3) the same plus the collector's own signature when the
// collector is not a member of the certified view's list.
func (cx *c14VCRun) motifs(k *c14Keys, g []*Acct) []*C14Cert {
	var pref, rest, common []int
	for i, m := range k.Members {
		if m.Addr == k.CollAddr {
			continue
		}
		if c14In(g, m) {
			rest = append(rest, i)
			common = append(common, i)
		} else {
			pref = append(pref, i)
		}
	}
	var out []*C14Cert
	m1 := &C14Cert{}
	for _, i := range append(append([]int{}, pref...), rest...) {
		if len(m1.E) < k.Thr {
			m1.E = append(m1.E, C14Entry{K: C14Valid, W: i})
		}
	}
	out = append(out, m1)
	if k.Thr == 0 {
		return out
	}
	m2 := &C14Cert{}
	collOut := -1
	for j, o := range k.Outs {
		if !c14In(g, o) {
			continue
		}
		if o.Addr == k.CollAddr {
			collOut = j
			continue
		}
		m2.E = append(m2.E, C14Entry{K: C14Outsider, W: j})
	}
	for _, i := range common {
		if cntValid(m2) < k.Thr-1 {
			m2.E = append(m2.E, C14Entry{K: C14Valid, W: i})
		}
	}
	out = append(out, m2)
	if collOut >= 0 {
		m3 := &C14Cert{E: append(append([]C14Entry{}, m2.E...), C14Entry{K: C14Outsider, W: collOut})}
		out = append(out, m3)
	}
	return out
}

func cntValid(c *C14Cert) int {
	n := 0
	for _, e := range c.E {
		if e.K == C14Valid {
			n++
		}
	}
	return n
}

// judgeHeight presents certificates as the justify of candidate blocks of height hgt. gPrev is the
// list in force for the certified view hgt-1 (the oracle's list), g the list governing height hgt
// (only used to build a candidate the producer check lets through).
func (cx *c14VCRun) judgeHeight(hgt int64, gPrev, g []*Acct, where string) {
	rc := cx.h.rc
	pre := cx.tip()
	if pre.Height != hgt-1 {
		panic("c14 harness: judged height is not the next height")
	}
	prevAd, gAd := c14Addrs(gPrev), c14Addrs(g)
	prevIsNew := c14SameList(prevAd, cx.newAd)
	alt := cx.new // the other list of the change (at the boundary: the carrying block's list)
	if prevIsNew {
		alt = cx.old
	}
	applied := "does not apply the new list to producers yet"
	if cx.a != 0 {
		applied = fmt.Sprintf("applies the new list to producers from height %d on", cx.a)
	}
	for _, coll := range cx.collectors(hgt, gPrev, g, where) {
		k := newC14KeysFor(gPrev, cx.outsFor(gPrev, alt), coll, pre.Blockid, pre.PreHash, cx.idChild)
		// the other list: only to count the certificates that tell the two lists apart
		kAlt := newC14KeysFor(alt, cx.outsFor(alt, gPrev), coll, pre.Blockid, pre.PreHash, cx.idChild)
		kAlt.memo, kAlt.bmemo = k.memo, k.bmemo // (what is memoised does not depend on the list: key / address / signature over the same id)
		certs := cx.motifs(k, alt)
		nm := len(certs)
		max := cx.vc.Max
		if where != "boundary" {
			max = (max + 1) / 2
		}
		for i := 0; i < max && i < len(cx.certs); i++ {
			certs = append(certs, cx.certs[(int(hgt)*cx.vc.Max+i)%len(cx.certs)])
		}
		for ci, c := range certs {
			cx.hk.step++
			signs := make([]*bftpb.QuorumCertSign, len(c.E))
			for j, e := range c.E {
				signs[j] = k.Build(e)
			}
			v := k.Judge(signs)
			cand := cx.mkBlock(coll, g, pre, cx.qc(pre, signs), nil)
			ok, err := cx.n.Ctx.Consensus.CheckMinerMatch(cx.n.BaseCtx(), state.NewBlockAgent(cand))
			rc.St.Ops[c14OpChange]++
			acc := ok && err == nil
			kind := "plan"
			if ci < nm {
				kind = fmt.Sprintf("motif-%d", ci+1)
			}
			switch {
			case where == "boundary":
				cx.probe("chain-cert-judged-at-boundary")
			case prevIsNew:
				cx.probe("chain-cert-judged-under-new-set")
				if hgt-1 > cx.e+c14Window {
					cx.probe("chain-cert-judged-under-new-set-beyond-window")
				}
			default:
				cx.probe("chain-cert-judged-under-old-set-after-change")
			}
			if ci == 0 {
				// exactly the threshold many honest signatures of the list in force: non-vacuity of "accepted"
				if acc {
					cx.probe("chain-vc-exact-quorum-accepted-" + where)
				} else {
					cx.probe("chain-vc-exact-quorum-refused-" + where)
					cx.logf("exact quorum refused at height %d (%s): ok=%v err=%v", hgt, where, ok, err)
				}
			}
			tell := ""
			vAlt := kAlt.Judge(signs)
			switch {
			case where == "boundary" && v.Sufficient() && !vAlt.Sufficient():
				tell = " quorum-of-old-list-only"
				cx.probe("chain-boundary-old-only-quorum")
				if acc {
					cx.probe("chain-boundary-old-only-quorum-accepted")
				} else {
					cx.probe("chain-boundary-old-only-quorum-refused")
				}
			case where == "boundary" && !v.Sufficient() && vAlt.Sufficient():
				tell = " quorum-of-new-list-only"
				cx.probe("chain-boundary-new-only-quorum")
				if !acc {
					cx.probe("chain-boundary-new-only-quorum-refused")
				}
			case v.Sufficient() && !vAlt.Sufficient():
				tell = " quorum-of-the-list-in-force-only"
				cx.probe("chain-cert-quorum-of-list-in-force-only-" + where)
			case !v.Sufficient() && vAlt.Sufficient():
				tell = " quorum-of-the-other-list-only"
				cx.probe("chain-cert-quorum-of-other-list-only-" + where)
			}
			cx.logf("height %d (%s) collector %s %s cert %s others=%d/%d%s accepted=%v", hgt, where, shortAddr(coll.Addr), kind, c.String(), v.Others, v.Thr, tell, acc)
			cx.judge(acc, v, c, fmt.Sprintf("validator list changed on chain by the block at height %d: %v -> %v, the node %s; candidate block of height %d (%s) produced by %s under the list %v carries a certificate for view %d, for which the list %v is in force (entries name its members by position, outsiders are %v): certificate %s accepted by xpoa CheckMinerMatch",
				cx.e, c16Shorts(cx.oldAd), c16Shorts(cx.newAd), applied, hgt, where, shortAddr(coll.Addr), c16Shorts(gAd), hgt-1, c16Shorts(prevAd), c16Shorts(c14Addrs(k.Outs)), c.String()))
		}
	}
}

// judge is c14H.judge for a certificate presented at or after a validator change: same counters;
// an insufficient accepted certificate is flagged under the op of the change stage unless its
// clause is one of the separately listed findings (whose fingerprints stay what they are).
func (cx *c14VCRun) judge(accepted bool, v c14Verdict, c *C14Cert, msg string) {
	st := cx.h.rc.St
	switch {
	case accepted && v.Sufficient():
		st.Probes["cert-accepted-sufficient"]++
		if v.Others == v.Thr {
			st.Probes["cert-accepted-at-threshold"]++
		}
	case !accepted && !v.Sufficient():
		st.Probes["cert-refused-insufficient"]++
		if v.Others == v.Thr-1 {
			st.Probes["cert-refused-one-below-threshold"]++
		}
	case !accepted:
		st.Probes["cert-refused-sufficient"]++
		st.Probes["chain-vc-cert-refused-sufficient"]++
	default:
		clause := v.Classify()
		op := c14OpChange
		if c14Listed[clause] {
			op = c14OpChain
		}
		cx.hk.flag(clause, op, msg+"; "+v.String())
	}
}
