package sim

import (
	"sort"

	"pgregory.net/rapid"
)

// C16Plan is one complete C16 scenario: a schedule sweep (tile-*), a run of candidate blocks
// delivered to a receiving node (acc-*), or a sweep of compact difficulty encodings (compact).
type C16Plan struct {
	Seed uint64
	Mode string // tile-tdpos | tile-xpoa | acc-single | acc-tdpos | acc-xpoa | acc-pow | compact | acc-upgrade
	Sch  C16Sched
	Pow  C16Pow
	// tiling
	Terms  int
	Full   bool  // every millisecond (else: every label boundary +-2 ms)
	SubNs  int64 // sub-millisecond part of the swept timestamps
	Height int64 // height claimed by the probe blocks
	BaseMs int64 // xpoa: offset of the sweep start from the bubble's epoch
	// acceptance
	RKey  int // identity of the receiving node
	Steps []C16Step
	// compact
	Compacts []uint32
	MaxEnc   uint32
	// xpoa: validator-set changes made on chain (editValidates transactions in real blocks) and the
	// life of the receiving node around them; empty: the configured list stays in force
	VC       []C16Ev
	Restarts []int `json:"restarts,omitempty"` // acc-pow / acc-tdpos / acc-single: the receiver is re-opened from its disk before these steps
	// acc-upgrade: the chain starts under `single` and is upgraded on chain to another consensus
	Up *C16Up `json:"up,omitempty"`
}

// C16Up describes an acc-upgrade run: a chain whose genesis consensus is `single` (miner M0) is
// upgraded by a real transaction that invokes the updateConsensus method of the $consensus kernel
// contract, carried by an honest block of M0.
type C16Up struct {
	New  string   // the new consensus: pow (configuration: Plan.Pow) | xpoa (Plan.Sch.Period / BlockNum, validator list Set) | single (miner Set[0])
	Set  []int    // xpoa: the validator list; single: its first member is the new miner
	Pre  int      // candidate steps delivered under the genesis rule before the block that carries the upgrade
	HArg int64    // the "height" argument of updateConsensus, relative to the height of the block that carries the transaction
	Fill int      // honest blocks under the new rule right after the upgrade came into force
	Ev   []C16UEv // what happens once the upgrade is in force
}

// C16UEv is one event of an acc-upgrade run after the upgrade.
type C16UEv struct {
	At   int   // before this candidate step
	Kind int   // 0: an honest block under the rule in force; 1: a block of the old producer M0 that is perfectly valid under the old rule; 2: the receiver restarts on its disk; 3: a restart attempt during which one read of the newest consensus instance's constructor fails; 4: a restart attempt during which one read anywhere during start-up fails
	Arg  int   // 3: which read of the constructor (modulo their number); 4: which read of the start-up (per mille of their number)
	DtMs int64 // 0, 1: timestamp advance
}

// C16Ev is one event of an xpoa run with on-chain validator changes.
type C16Ev struct {
	At   int   // acc: the event happens before this step (as soon as no candidate is held back)
	Kind int   // 0: an editValidates transaction in an honest block; 1: the receiving node is re-opened from its disk; 2: the receiving node runs CompeteMaster
	Set  []int // edit: the new validator list (indices of identities, distinct, in list order)
	Fill int   // edit: honest blocks delivered right after the block that carries the change
}

// C16Sched is a slot-schedule configuration (tdpos: all fields; xpoa: Period, BlockNum, NVal).
type C16Sched struct {
	Period, BlockNum, NVal int64
	Alt, TermInt           int64
	InitOffMs              int64 // init timestamp relative to the bubble's epoch
	InitSubNs              int64
}

// C16Pow is a proof-of-work configuration.
type C16Pow struct {
	Bitcoin      bool
	Default, Max uint32
	Gap, ExpMs   int32
}

// C16Step is one candidate block.
type C16Step struct {
	PropSel   int   // 0: the producer entitled at the block's timestamp; k: the k-th other identity
	Key       int   // 0 honest; 1 foreign key + foreign pubkey; 2 foreign key, claimed pubkey; 3 damaged signature
	TsKind    int   // 0 next entitled instant; 1 next label boundary + (TsArg%5-2) ms; 2 next nobody instant; 3 before the parent; 4 before the schedule's init time
	TsArg     int64 // advance of the cursor in ms
	Sub       int64
	SkewMs    int64 // jump of the receiver's clock before the delivery
	TermSkew  int64 // tdpos: error of the curTerm field the block carries
	HeightVar int   // 0: true height; 1: claims height+1; 2: claims height 1; 3: claims height+2
	Hold      bool  // do not deliver now: the next candidate is stacked on this one (delivered through the sync path)
	// pow
	BitsVar int   // 0 prescribed; 1 default; 2 mantissa+1; 3 mantissa-1; 4 other encoding of the same value; 5 zero; 6 sign bit; 7 much easier
	Grind   int   // 0 meet min(prescribed, claimed); 1 meet the claimed target only; 2 miss the claimed target
	Dt      int64 // pow: timestamp minus parent's, ms
	// xpoa with validator changes: the list the builder follows while two lists are admissible (0 older, 1 newer)
	SetSel int
}

func c16Pick(rt *rapid.T, label string, xs []int64) int64 {
	return xs[rapid.IntRange(0, len(xs)-1).Draw(rt, label)]
}

// GenC16Plan draws a plan; the smallest draws are the benign ones (honest producer, honest key,
// entitled instant, no clock jump).
func GenC16Plan(rt *rapid.T, tier string) *C16Plan {
	th := tier == "thorough"
	p := &C16Plan{}
	p.Seed = rapid.Uint64Range(1, 1<<40).Draw(rt, "seed")
	modes := []string{"tile-tdpos", "tile-tdpos", "tile-tdpos", "acc-tdpos", "acc-tdpos", "acc-tdpos", "tile-xpoa", "tile-xpoa", "acc-xpoa", "acc-xpoa", "acc-single", "acc-pow", "acc-pow", "acc-pow", "compact", "acc-xpoa", "acc-upgrade", "acc-upgrade"}
	p.Mode = modes[rapid.IntRange(0, len(modes)-1).Draw(rt, "mode")]
	periods := []int64{3, 2, 4, 5, 7, 10, 16}
	if th {
		periods = append(periods, 25, 40, 100)
	}
	periods = append(periods, 500, 3000)
	s := &p.Sch
	s.Period = c16Pick(rt, "period", periods)
	maxBN := 4
	if th {
		maxBN = 6
	}
	s.BlockNum = int64(rapid.IntRange(1, maxBN).Draw(rt, "blocknum"))
	s.NVal = int64(rapid.IntRange(1, 4).Draw(rt, "nval"))
	s.Alt = s.Period + c16Pick(rt, "alt", []int64{0, 1, 2, s.Period, 2*s.Period + 1})
	s.TermInt = s.Alt + c16Pick(rt, "termint", []int64{0, 1, 3, s.Period, 3*s.Period + 2})
	s.InitOffMs = c16Pick(rt, "initoff", []int64{0, -1, -977, -60000, 13, 5000})
	s.InitSubNs = c16Pick(rt, "initsub", []int64{0, 0, 1, 500000, 999999})
	p.SubNs = c16Pick(rt, "subns", []int64{0, 0, 1, 999999})
	p.Terms = 3
	if th {
		p.Terms = rapid.IntRange(3, 5).Draw(rt, "terms")
	}
	p.Height = c16Pick(rt, "height", []int64{1, 2, 3, 9})
	p.BaseMs = c16Pick(rt, "basems", []int64{0, 1, 999, 86399999, 123456789})
	termTime := s.TermInt + (s.BlockNum-1)*s.NVal*s.Period + (s.NVal-1)*s.Alt
	if p.Mode == "tile-xpoa" {
		termTime = s.Period * s.BlockNum * s.NVal
		p.Height = 1
	}
	lim := int64(4000)
	if th {
		lim = 60000
	}
	p.Full = termTime*int64(p.Terms+1) <= lim
	p.RKey = rapid.IntRange(0, 5).Draw(rt, "rkey")

	pw := &p.Pow
	pw.Bitcoin = rapid.Bool().Draw(rt, "bitcoin")
	pw.Gap = int32(rapid.IntRange(2, 4).Draw(rt, "gap"))
	pw.ExpMs = int32(c16Pick(rt, "expms", []int64{10, 4, 30, 100}))
	if pw.Bitcoin {
		pw.Default = uint32(c16Pick(rt, "default", []int64{0x207fffff, 0x2040ffff, 0x2010abcd, 0x2008ffff}))
		pw.Max = uint32(c16Pick(rt, "max", []int64{0x2000ffff, 0x2001ffff, 0x1f7fffff, 0x2000ff00}))
	} else {
		pw.Default = uint32(rapid.IntRange(1, 6).Draw(rt, "default"))
		pw.Max = pw.Default + uint32(rapid.IntRange(0, 5).Draw(rt, "max"))
	}

	if len(p.Mode) > 4 && p.Mode[:4] == "acc-" {
		maxSteps := 24
		if th {
			maxSteps = 60
		}
		n := rapid.IntRange(4, maxSteps).Draw(rt, "nsteps")
		for i := 0; i < n; i++ {
			var st C16Step
			st.PropSel = int(c16Pick(rt, "propsel", []int64{0, 0, 0, 1, 2, 3}))
			st.Key = int(c16Pick(rt, "key", []int64{0, 0, 0, 0, 1, 2, 3}))
			st.TsKind = int(c16Pick(rt, "tskind", []int64{0, 0, 0, 1, 1, 1, 2, 2, 3, 4}))
			st.TsArg = int64(rapid.IntRange(0, 40).Draw(rt, "tsarg"))
			st.Sub = c16Pick(rt, "sub", []int64{0, 0, 1, 999999})
			st.SkewMs = c16Pick(rt, "skew", []int64{0, 0, 1, 7, 1000, 100000, 3600000})
			st.TermSkew = c16Pick(rt, "termskew", []int64{0, 0, 0, 0, 1, -1})
			st.Hold = rapid.IntRange(0, 5).Draw(rt, "hold") == 5
			st.HeightVar = int(c16Pick(rt, "heightvar", []int64{0, 0, 0, 0, 0, 1, 2, 3}))
			st.Dt = c16Pick(rt, "dt", []int64{1000, 1, 0, -1, -3000, 2000, 7000, 40000, 200000, 3000000})
			if p.Mode == "acc-pow" {
				st.BitsVar = int(c16Pick(rt, "bitsvar", []int64{0, 0, 0, 0, 1, 2, 3, 4, 5, 6, 7}))
				st.Grind = int(c16Pick(rt, "grind", []int64{0, 0, 0, 0, 1, 1, 2}))
			}
			p.Steps = append(p.Steps, st)
		}
	}
	if p.Mode == "compact" {
		p.MaxEnc = uint32(c16Pick(rt, "maxenc", []int64{0x2000ffff, 0x1d00ffff, 0x03000001, 0x1f7fffff, 0x207fffff}))
		n := rapid.IntRange(8, 64).Draw(rt, "ncompact")
		for i := 0; i < n; i++ {
			p.Compacts = append(p.Compacts, rapid.Uint32().Draw(rt, "compact"))
		}
	}
	// receiver restarts in the other acceptance modes (drawn after the steps; smallest draw: none)
	if p.Mode == "acc-pow" || p.Mode == "acc-tdpos" || p.Mode == "acc-single" {
		n := int(c16Pick(rt, "restarts", []int64{0, 1, 1, 2, 3}))
		for i := 0; i < n && len(p.Steps) > 0; i++ {
			p.Restarts = append(p.Restarts, rapid.IntRange(0, len(p.Steps)-1).Draw(rt, "restart-at"))
		}
	}
	// on-chain validator changes (xpoa); drawn last, the smallest draws mean "no change"
	if p.Mode == "acc-xpoa" {
		nEdit := int(c16Pick(rt, "vc-edits", []int64{0, 1, 1, 1, 2, 2}))
		last := len(p.Steps) - 3
		if last < 0 {
			last = 0
		}
		for e := 0; e < nEdit; e++ {
			ev := C16Ev{Kind: 0}
			ev.At = rapid.IntRange(0, last).Draw(rt, "vc-at")
			ev.Set = c16DrawSet(rt)
			ev.Fill = int(c16Pick(rt, "vc-fill", []int64{0, 7, 6, 3, 8, 7, 6}))
			p.VC = append(p.VC, ev)
		}
		if nEdit > 0 {
			nRole := rapid.IntRange(0, 3).Draw(rt, "vc-roles")
			for e := 0; e < nRole; e++ {
				ev := C16Ev{Kind: 1 + rapid.IntRange(0, 1).Draw(rt, "vc-role")}
				ev.At = rapid.IntRange(0, len(p.Steps)-1).Draw(rt, "vc-at")
				p.VC = append(p.VC, ev)
			}
			sort.SliceStable(p.VC, func(i, j int) bool { return p.VC[i].At < p.VC[j].At })
			for i := range p.Steps {
				p.Steps[i].SetSel = rapid.IntRange(0, 1).Draw(rt, "setsel")
			}
		}
	}
	if p.Mode == "tile-xpoa" && rapid.IntRange(0, 1).Draw(rt, "vc-tile") == 1 {
		ev := C16Ev{Kind: 0, Set: c16DrawSet(rt)}
		ev.Fill = c16Window + rapid.IntRange(0, 3).Draw(rt, "vc-fill")
		p.VC = append(p.VC, ev)
		if role := int(c16Pick(rt, "vc-role", []int64{0, 0, 1, 2})); role > 0 {
			p.VC = append(p.VC, C16Ev{Kind: role})
		}
		p.Full = s.Period*s.BlockNum*int64(len(ev.Set))*int64(p.Terms+1) <= lim
	}
	// consensus upgrade on chain (drawn last; the smallest draws: to pow, at once, nothing else happens)
	if p.Mode == "acc-upgrade" {
		u := &C16Up{}
		u.New = []string{"pow", "xpoa", "pow", "xpoa", "xpoa", "pow", "xpoa", "single"}[rapid.IntRange(0, 7).Draw(rt, "up-new")]
		u.Set = c16DrawSet(rt)
		if u.New == "single" && u.Set[0] == 0 {
			u.Set[0] = 1 + rapid.IntRange(0, c16Pool-2).Draw(rt, "up-miner")
		}
		u.Pre = rapid.IntRange(0, 3).Draw(rt, "up-pre")
		if u.Pre > len(p.Steps)-1 {
			u.Pre = len(p.Steps) - 1
		}
		u.HArg = c16Pick(rt, "up-harg", []int64{0, 0, 1, -1, 3})
		u.Fill = rapid.IntRange(0, 4).Draw(rt, "up-fill")
		nEv := rapid.IntRange(0, 7).Draw(rt, "up-events")
		for e := 0; e < nEv; e++ {
			ev := C16UEv{}
			ev.At = rapid.IntRange(u.Pre, len(p.Steps)).Draw(rt, "up-at")
			ev.Kind = int(c16Pick(rt, "up-kind", []int64{0, 1, 1, 2, 2, 3, 3, 3, 4, 5}))
			ev.Arg = rapid.IntRange(0, 999).Draw(rt, "up-arg")
			ev.DtMs = c16Pick(rt, "up-dt", []int64{1000, 1, 0, 7000, 40000, 200000})
			u.Ev = append(u.Ev, ev)
		}
		sort.SliceStable(u.Ev, func(i, j int) bool { return u.Ev[i].At < u.Ev[j].At })
		if u.New == "pow" {
			for i := range p.Steps {
				p.Steps[i].BitsVar = int(c16Pick(rt, "bitsvar", []int64{0, 0, 0, 0, 1, 2, 3, 4, 5, 6, 7}))
				p.Steps[i].Grind = int(c16Pick(rt, "grind", []int64{0, 0, 0, 0, 1, 1, 2}))
			}
		}
		p.Up = u
	}
	return p
}

// c16Pool is the number of identities validator lists are drawn from.
const c16Pool = 6

// c16DrawSet draws a validator list: 1..4 distinct identities of the pool in any order.
func c16DrawSet(rt *rapid.T) []int {
	n := rapid.IntRange(1, 4).Draw(rt, "vc-size")
	pool := []int{}
	for i := 0; i < c16Pool; i++ {
		pool = append(pool, i)
	}
	var set []int
	for j := 0; j < n; j++ {
		k := rapid.IntRange(0, len(pool)-1).Draw(rt, "vc-member")
		set = append(set, pool[k])
		pool = append(pool[:k], pool[k+1:]...)
	}
	return set
}
