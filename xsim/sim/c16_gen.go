package sim

import (
	"pgregory.net/rapid"
)

// C16Plan is one complete C16 scenario: a schedule sweep (tile-*), a run of candidate blocks
// delivered to a receiving node (acc-*), or a sweep of compact difficulty encodings (compact).
type C16Plan struct {
	Seed uint64
	Mode string // tile-tdpos | tile-xpoa | acc-single | acc-tdpos | acc-xpoa | acc-pow | compact
	Sch  C16Sched
	Pow  C16Pow
	// tiling
	Terms  int
	Full   bool  // every millisecond (else: every label boundary +-2 ms)
	SubNs  int64 // sub-millisecond part of the swept timestamps
	Height int64 // height claimed by the probe blocks
	BaseMs int64 // xpoa: offset of the sweep start from the bubble's epoch
	// acceptance
	RKey  int // identity of the receiving node
	Steps []C16Step
	// compact
	Compacts []uint32
	MaxEnc   uint32
}

// C16Sched is a slot-schedule configuration (tdpos: all fields; xpoa: Period, BlockNum, NVal).
type C16Sched struct {
	Period, BlockNum, NVal int64
	Alt, TermInt           int64
	InitOffMs              int64 // init timestamp relative to the bubble's epoch
	InitSubNs              int64
}

// C16Pow is a proof-of-work configuration.
type C16Pow struct {
	Bitcoin      bool
	Default, Max uint32
	Gap, ExpMs   int32
}

// C16Step is one candidate block.
type C16Step struct {
	PropSel   int   // 0: the producer entitled at the block's timestamp; k: the k-th other identity
	Key       int   // 0 honest; 1 foreign key + foreign pubkey; 2 foreign key, claimed pubkey; 3 damaged signature
	TsKind    int   // 0 next entitled instant; 1 next label boundary + (TsArg%5-2) ms; 2 next nobody instant; 3 before the parent; 4 before the schedule's init time
	TsArg     int64 // advance of the cursor in ms
	Sub       int64
	SkewMs    int64 // jump of the receiver's clock before the delivery
	TermSkew  int64 // tdpos: error of the curTerm field the block carries
	HeightVar int   // 0: true height; 1: claims height+1; 2: claims height 1; 3: claims height+2
	Hold      bool  // do not deliver now: the next candidate is stacked on this one (delivered through the sync path)
	// pow
	BitsVar int   // 0 prescribed; 1 default; 2 mantissa+1; 3 mantissa-1; 4 other encoding of the same value; 5 zero; 6 sign bit; 7 much easier
	Grind   int   // 0 meet min(prescribed, claimed); 1 meet the claimed target only; 2 miss the claimed target
	Dt      int64 // pow: timestamp minus parent's, ms
}

func c16Pick(rt *rapid.T, label string, xs []int64) int64 {
	return xs[rapid.IntRange(0, len(xs)-1).Draw(rt, label)]
}

// GenC16Plan draws a plan; the smallest draws are the benign ones (honest producer, honest key,
// entitled instant, no clock jump).
func GenC16Plan(rt *rapid.T, tier string) *C16Plan {
	th := tier == "thorough"
	p := &C16Plan{}
	p.Seed = rapid.Uint64Range(1, 1<<40).Draw(rt, "seed")
	modes := []string{"tile-tdpos", "tile-tdpos", "tile-tdpos", "acc-tdpos", "acc-tdpos", "acc-tdpos", "tile-xpoa", "tile-xpoa", "acc-xpoa", "acc-xpoa", "acc-single", "acc-pow", "acc-pow", "acc-pow", "compact"}
	p.Mode = modes[rapid.IntRange(0, len(modes)-1).Draw(rt, "mode")]
	periods := []int64{3, 2, 4, 5, 7, 10, 16}
	if th {
		periods = append(periods, 25, 40, 100)
	}
	periods = append(periods, 500, 3000)
	s := &p.Sch
	s.Period = c16Pick(rt, "period", periods)
	maxBN := 4
	if th {
		maxBN = 6
	}
	s.BlockNum = int64(rapid.IntRange(1, maxBN).Draw(rt, "blocknum"))
	s.NVal = int64(rapid.IntRange(1, 4).Draw(rt, "nval"))
	s.Alt = s.Period + c16Pick(rt, "alt", []int64{0, 1, 2, s.Period, 2*s.Period + 1})
	s.TermInt = s.Alt + c16Pick(rt, "termint", []int64{0, 1, 3, s.Period, 3*s.Period + 2})
	s.InitOffMs = c16Pick(rt, "initoff", []int64{0, -1, -977, -60000, 13, 5000})
	s.InitSubNs = c16Pick(rt, "initsub", []int64{0, 0, 1, 500000, 999999})
	p.SubNs = c16Pick(rt, "subns", []int64{0, 0, 1, 999999})
	p.Terms = 3
	if th {
		p.Terms = rapid.IntRange(3, 5).Draw(rt, "terms")
	}
	p.Height = c16Pick(rt, "height", []int64{1, 2, 3, 9})
	p.BaseMs = c16Pick(rt, "basems", []int64{0, 1, 999, 86399999, 123456789})
	termTime := s.TermInt + (s.BlockNum-1)*s.NVal*s.Period + (s.NVal-1)*s.Alt
	if p.Mode == "tile-xpoa" {
		termTime = s.Period * s.BlockNum * s.NVal
		p.Height = 1
	}
	lim := int64(4000)
	if th {
		lim = 60000
	}
	p.Full = termTime*int64(p.Terms+1) <= lim
	p.RKey = rapid.IntRange(0, 5).Draw(rt, "rkey")

	pw := &p.Pow
	pw.Bitcoin = rapid.Bool().Draw(rt, "bitcoin")
	pw.Gap = int32(rapid.IntRange(2, 4).Draw(rt, "gap"))
	pw.ExpMs = int32(c16Pick(rt, "expms", []int64{10, 4, 30, 100}))
	if pw.Bitcoin {
		pw.Default = uint32(c16Pick(rt, "default", []int64{0x207fffff, 0x2040ffff, 0x2010abcd, 0x2008ffff}))
		pw.Max = uint32(c16Pick(rt, "max", []int64{0x2000ffff, 0x2001ffff, 0x1f7fffff, 0x2000ff00}))
	} else {
		pw.Default = uint32(rapid.IntRange(1, 6).Draw(rt, "default"))
		pw.Max = pw.Default + uint32(rapid.IntRange(0, 5).Draw(rt, "max"))
	}

	if len(p.Mode) > 4 && p.Mode[:4] == "acc-" {
		maxSteps := 24
		if th {
			maxSteps = 60
		}
		n := rapid.IntRange(4, maxSteps).Draw(rt, "nsteps")
		for i := 0; i < n; i++ {
			var st C16Step
			st.PropSel = int(c16Pick(rt, "propsel", []int64{0, 0, 0, 1, 2, 3}))
			st.Key = int(c16Pick(rt, "key", []int64{0, 0, 0, 0, 1, 2, 3}))
			st.TsKind = int(c16Pick(rt, "tskind", []int64{0, 0, 0, 1, 1, 1, 2, 2, 3, 4}))
			st.TsArg = int64(rapid.IntRange(0, 40).Draw(rt, "tsarg"))
			st.Sub = c16Pick(rt, "sub", []int64{0, 0, 1, 999999})
			st.SkewMs = c16Pick(rt, "skew", []int64{0, 0, 1, 7, 1000, 100000, 3600000})
			st.TermSkew = c16Pick(rt, "termskew", []int64{0, 0, 0, 0, 1, -1})
			st.Hold = rapid.IntRange(0, 5).Draw(rt, "hold") == 5
			st.HeightVar = int(c16Pick(rt, "heightvar", []int64{0, 0, 0, 0, 0, 1, 2, 3}))
			st.Dt = c16Pick(rt, "dt", []int64{1000, 1, 0, -1, -3000, 2000, 7000, 40000, 200000, 3000000})
			if p.Mode == "acc-pow" {
				st.BitsVar = int(c16Pick(rt, "bitsvar", []int64{0, 0, 0, 0, 1, 2, 3, 4, 5, 6, 7}))
				st.Grind = int(c16Pick(rt, "grind", []int64{0, 0, 0, 0, 1, 1, 2}))
			}
			p.Steps = append(p.Steps, st)
		}
	}
	if p.Mode == "compact" {
		p.MaxEnc = uint32(c16Pick(rt, "maxenc", []int64{0x2000ffff, 0x1d00ffff, 0x03000001, 0x1f7fffff, 0x207fffff}))
		n := rapid.IntRange(8, 64).Draw(rt, "ncompact")
		for i := 0; i < n; i++ {
			p.Compacts = append(p.Compacts, rapid.Uint32().Draw(rt, "compact"))
		}
	}
	return p
}
