package sim

import (
	"crypto/sha256"
	"encoding/hex"
	"fmt"
	"math/big"
	"time"
	"xsim/simkv"

	lpb "github.com/xuperchain/xupercore/bcs/ledger/xledger/xldgpb"
	"github.com/xuperchain/xupercore/kernel/contract"
	"github.com/xuperchain/xupercore/kernel/permission/acl/base"
	aclu "github.com/xuperchain/xupercore/kernel/permission/acl/utils"
	"github.com/xuperchain/xupercore/lib/xsimrt"
	pb "github.com/xuperchain/xupercore/protos"
)

// Clause ids of the C11 oracles.
const (
	c11ClAccept     = "accepts-unsatisfied-rule"       // evaluator: accepted, reference rejects
	c11ClReject     = "rejects-satisfied-rule"         // evaluator: rejected (or error), reference accepts
	c11ClDup        = "repeated-signer-counted"        // accepted only because an entry was repeated
	c11ClForeign    = "foreign-account-signer-counted" // accepted only because of a signer of another account
	c11ClMonotone   = "adding-signer-turns-accept-into-reject"
	c11ClOrder      = "signer-order-changes-verdict"      // same signer set, other order, other verdict
	c11ClTxAdmit    = "admitted-without-permission"       // transaction admitted, confirmed rule not satisfied
	c11ClTxRefuse   = "permitted-transaction-refused"     // transaction refused although the confirmed rule is satisfied
	c11ClTxConfirm  = "unpermitted-transaction-confirmed" // a block produced by the node carries a change that does not satisfy the rule in force at its parent
	c11ClUnverified = "unverified-inner-name-counted"     // CATALOGUED DEFECT: a member name used as inner path element of another key's signature counts as a signer
)

// c11State is the reference state of the confirmed chain at one block.
type c11State struct {
	Rules  c11Rules
	Method *C11Rule
	Bound  bool
}

func (s *c11State) clone() *c11State {
	return &c11State{Rules: s.Rules.clone(), Method: s.Method, Bound: s.Bound}
}

// c11Tx is what the harness knows about a transaction it submitted.
type c11Tx struct {
	Kind string
	T    int
	Rule *C11Rule
	Sigs [][]int
}

type c11Run struct {
	fr      int // read fault armed for the next admission (0: none)
	rc      *RunCtx
	w       *World
	n       *Node
	plan    *C11Plan
	step    int
	op      string
	chain   []*lpb.InternalBlock // main chain of n, height 1..
	models  map[string]*c11State // block id -> reference state
	cur     *c11State            // reference state at the tip
	txs     map[string]*c11Tx
	pending map[int]*C11Rule // latest admitted, not yet confirmed rule (-1: method rule)
	undone  map[int]*C11Rule // rule that was in force before the last reorganisation removed it
	setupH  int
	defect  *Violation
	seq     int
}

func (x *c11Run) viol(clause, format string, a ...interface{}) *Violation {
	return &Violation{Prop: "C11", Clause: clause, Step: x.step, Op: x.op, Msg: fmt.Sprintf(format, a...)}
}

func (x *c11Run) logf(format string, a ...interface{}) {
	x.rc.Log.Add("%d %s: "+format, append([]interface{}{x.step, x.op}, a...)...)
}

// noteDefect records the first occurrence of the catalogued defect; the run goes on (the model
// follows what the node did) and the defect is reported at the end unless something else fails.
func (x *c11Run) noteDefect(format string, a ...interface{}) {
	x.rc.St.Probes["defect-unverified-inner-name"]++
	if x.defect == nil {
		x.defect = x.viol(c11ClUnverified, format, a...)
		x.defect.Op = "signer-path" // one fingerprint wherever it is first seen
	}
}

// RegisterC11 registers the kernel contract "$c11": bind (records the owning account of the
// contract in the contract->account table, as a deployment does) and guard (a method to protect).
func RegisterC11(n *Node) {
	reg := n.Ctx.Contract.GetKernRegistry()
	reg.RegisterKernMethod(C11Contract, "bind", func(k contract.KContext) (*contract.Response, error) {
		if err := k.Put(aclu.GetContract2AccountBucket(), []byte(C11Contract), k.Args()["account"]); err != nil {
			return nil, err
		}
		return &contract.Response{Status: 200, Body: []byte("ok")}, nil
	})
	reg.RegisterKernMethod(C11Contract, C11Method, func(k contract.KContext) (*contract.Response, error) {
		if err := k.Put(C11Bucket, k.Args()["k"], []byte("1")); err != nil {
			return nil, err
		}
		return &contract.Response{Status: 200, Body: []byte("ok")}, nil
	})
}

// ExecC11 executes a C11 plan.
func ExecC11(plan *C11Plan, rc *RunCtx) *Violation {
	g := &Genesis{Predist: map[int]string{0: "1000000000"}, Award: "1000000"}
	w := NewWorld(g, &Knobs{UtxoCache: 1000})
	rc.OnCleanup(w.Close)
	rc.AttachHooks(&xsimrt.H{MapSeed: plan.MapSeed})
	w.OnBoot = append(w.OnBoot, RegisterC11)
	n, err := w.AddNode("n0", 0)
	if err != nil {
		panic(fmt.Sprintf("boot: %v", err))
	}
	x := &c11Run{rc: rc, w: w, n: n, plan: plan, models: map[string]*c11State{}, txs: map[string]*c11Tx{}, pending: map[int]*C11Rule{}, undone: map[int]*C11Rule{}}
	x.cur = &c11State{Rules: c11Rules{}}
	x.models[string(n.L.GetMeta().TipBlockid)] = x.cur
	x.step, x.op = -1, "setup"
	if v := x.setup(); v != nil {
		return v
	}
	x.setupH = len(x.chain)
	for i := range plan.Steps {
		st := &plan.Steps[i]
		x.step, x.op = i, st.Op
		xsimrt.SetEpoch(uint64(i + 1))
		time.Sleep(time.Millisecond)
		rc.St.Steps++
		rc.St.Ops[st.Op]++
		var v *Violation
		x.fr = st.FR
		switch st.Op {
		case "setacl":
			_, v = x.submit("setacl", st.T, st.Rule, x.resolve(st.Sig, "setacl", st.T))
		case "setmacl":
			_, v = x.submit("setmacl", C11A, st.Rule, x.resolve(st.Sig, "setmacl", C11A))
		case "spend":
			_, v = x.submit("spend", C11A, nil, x.resolve(st.Sig, "spend", C11A))
		case "invoke":
			_, v = x.submit("invoke", 0, nil, x.resolve(st.Sig, "invoke", 0))
		case "mine":
			v = x.mine()
		case "reorg":
			v = x.reorg(st.Depth)
		case "enum":
			v = x.enumAll()
		default:
			panic("c11: unknown op " + st.Op)
		}
		rc.RunBG()
		if v != nil {
			return v
		}
	}
	return x.defect
}

// ---- setup ------------------------------------------------------------------------------------

func (x *c11Run) allDirect(acct int) [][]int {
	var s [][]int
	for k := 0; k < C11Keys; k++ {
		s = append(s, []int{acct, k})
	}
	return s
}

func (x *c11Run) setup() *Violation {
	mustAdmit := func(kind string, t int, r *C11Rule, sigs [][]int) *Violation {
		ok, v := x.submit(kind, t, r, sigs)
		if v != nil {
			return v
		}
		if !ok {
			panic("c11: setup transaction " + kind + " refused")
		}
		return nil
	}
	// block 1: accounts B and F, and outputs owned by A-to-be
	if v := mustAdmit("newacct", C11B, x.plan.RuleB, [][]int{}); v != nil {
		return v
	}
	if v := mustAdmit("newacct", C11F, x.plan.RuleF, [][]int{}); v != nil {
		return v
	}
	if v := mustAdmit("fund", C11A, nil, [][]int{}); v != nil {
		return v
	}
	if v := x.mine(); v != nil {
		return v
	}
	// block 2: account A
	if v := mustAdmit("newacct", C11A, x.plan.RuleA, [][]int{}); v != nil {
		return v
	}
	if v := x.mine(); v != nil {
		return v
	}
	// block 3: contract $c11 is owned by A (needs A's rule); block 4: initial method rule
	sigs := x.minimalSet(func(p [][]int) bool { return c11EvalAcct(x.cur.Rules, C11A, p, false, 0) }, c11AcctUniverse(C11A), 0)
	if sigs == nil {
		x.rc.St.Probes["account-rule-unsatisfiable"]++
		return nil
	}
	if _, v := x.submit("bind", C11A, nil, sigs); v != nil {
		return v
	}
	if v := x.mine(); v != nil {
		return v
	}
	if x.plan.RuleM != nil && x.cur.Bound {
		if _, v := x.submit("setmacl", C11A, x.plan.RuleM, sigs); v != nil {
			return v
		}
		if v := x.mine(); v != nil {
			return v
		}
	}
	return nil
}

// ---- signer selection -------------------------------------------------------------------------

// minimalSet returns the pick-th inclusion-minimal subset of u accepted by eval (nil if none).
func (x *c11Run) minimalSet(eval func([][]int) bool, u [][]int, pick int) [][]int {
	n := 1 << uint(len(u))
	res := make([]bool, n)
	for m := 0; m < n; m++ {
		res[m] = eval(c11Subset(u, m))
	}
	var mins []int
	for m := 0; m < n; m++ {
		if !res[m] {
			continue
		}
		minimal := true
		for b := 0; b < len(u); b++ {
			if m&(1<<uint(b)) != 0 && res[m&^(1<<uint(b))] {
				minimal = false
				break
			}
		}
		if minimal {
			mins = append(mins, m)
		}
	}
	if len(mins) == 0 {
		return nil
	}
	s := c11Subset(u, mins[pick%len(mins)])
	if s == nil {
		s = [][]int{}
	}
	return s
}

func (x *c11Run) resolve(sig C11Sig, kind string, t int) [][]int {
	var u [][]int
	var key int
	if kind == "invoke" {
		u = c11MethodUniverse()
		key = -1
	} else {
		u = c11AcctUniverse(t)
		key = t
	}
	evalWith := func(rule *C11Rule) func([][]int) bool {
		if kind == "invoke" {
			return func(p [][]int) bool {
				if rule == nil {
					return len(p) == 0
				}
				return c11EvalMethod(x.cur.Rules, rule, append([][]int{{C11Payer}}, p...), false)
			}
		}
		rs := x.cur.Rules.clone()
		rs[t] = rule
		return func(p [][]int) bool { return c11EvalAcct(rs, t, p, false, 0) }
	}
	confirmed := x.cur.Method
	if key >= 0 {
		confirmed = x.cur.Rules[t]
	}
	var paths [][]int
	mode := sig.Mode
	src := confirmed
	switch mode {
	case 3:
		if r := x.pending[key]; r != nil {
			src = r
		}
	case 4:
		if r := x.undone[key]; r != nil {
			src = r
		}
	}
	switch mode {
	case 0:
		paths = c11Subset(u, sig.Mask&((1<<uint(len(u)))-1))
	case 5:
		paths = c11Subset(u, (1<<uint(C11Keys))-1)
	default:
		paths = x.minimalSet(evalWith(src), u, sig.Pick)
		if paths == nil {
			paths = c11Subset(u, sig.Mask&((1<<uint(len(u)))-1))
		} else if mode == 2 && len(paths) > 0 {
			i := sig.Arg % len(paths)
			paths = append(append([][]int{}, paths[:i]...), paths[i+1:]...)
		}
	}
	paths = append([][]int{}, paths...)
	if sig.Rev {
		for i, j := 0, len(paths)-1; i < j; i, j = i+1, j-1 {
			paths[i], paths[j] = paths[j], paths[i]
		}
	}
	k := sig.Arg % C11Keys
	var extra []int
	switch sig.Var {
	case 1:
		if len(paths) > 0 {
			extra = paths[sig.Arg%len(paths)]
		}
	case 2:
		other := C11F
		if sig.Arg%2 == 1 {
			other = C11B
			if t == C11B {
				other = C11A
			}
		}
		extra = []int{other, k}
	case 3:
		j := (k + 1 + sig.Arg/C11Keys) % C11Keys
		if j == k {
			j = (k + 1) % C11Keys
		}
		if kind == "invoke" {
			extra = []int{k, j}
		} else {
			extra = []int{t, k, j}
		}
	}
	if extra != nil {
		if sig.Rev {
			paths = append([][]int{extra}, paths...)
		} else {
			paths = append(paths, extra)
		}
	}
	return paths
}

// ---- transactions -----------------------------------------------------------------------------

// expected: does the reference model say the confirmed rules (state st) permit this transaction?
// decided=false means the statement does not decide the case.
func (x *c11Run) expected(st *c11State, kind string, t int, sigs [][]int, lenient bool) (ok bool, decided bool) {
	switch kind {
	case "setacl", "spend", "bind":
		if st.Rules[t] == nil {
			return false, false
		}
		return c11EvalAcct(st.Rules, t, sigs, lenient, 0), true
	case "setmacl":
		if st.Rules[C11A] == nil {
			return false, false
		}
		if !st.Bound {
			return false, true
		}
		return c11EvalAcct(st.Rules, C11A, sigs, lenient, 0), true
	case "invoke":
		if st.Method == nil {
			return false, false
		}
		return c11EvalMethod(st.Rules, st.Method, append([][]int{{C11Payer}}, sigs...), lenient), true
	}
	return false, false
}

func (x *c11Run) payerInputs(need *big.Int) []UtxoRef {
	us, err := x.n.ListUtxos(Accts[0].Addr)
	if err != nil {
		panic(err)
	}
	h := x.n.L.GetMeta().TrunkHeight
	var best *UtxoRef
	for i := range us {
		u := &us[i]
		if u.Frozen == -1 || u.Frozen > h {
			continue
		}
		if best == nil || u.Amount.Cmp(best.Amount) > 0 {
			best = u
		}
	}
	if best == nil || best.Amount.Cmp(need) < 0 {
		panic("c11: payer has no usable output")
	}
	return []UtxoRef{*best}
}

// submit builds, signs and submits one transaction through the real pipeline and judges the
// node's decision against the reference model of the confirmed chain.
func (x *c11Run) submit(kind string, t int, rule *C11Rule, sigs [][]int) (bool, *Violation) {
	n := x.n
	payer := Accts[0]
	uris := c11URIs(sigs)
	if uris == nil {
		uris = []string{}
	}
	signers := []*Acct{}
	for _, p := range sigs {
		signers = append(signers, c11KeyAcct(p[len(p)-1]))
	}
	x.seq++
	var req *pb.InvokeRequest
	switch kind {
	case "newacct":
		req = &pb.InvokeRequest{ModuleName: "xkernel", ContractName: "$acl", MethodName: "NewAccount", Args: map[string][]byte{"account_name": []byte(c11AcctNum[t]), "acl": rule.JSON()}}
	case "setacl":
		req = &pb.InvokeRequest{ModuleName: "xkernel", ContractName: "$acl", MethodName: "SetAccountAcl", Args: map[string][]byte{"account_name": []byte(c11Name(t)), "acl": rule.JSON()}}
	case "setmacl":
		req = &pb.InvokeRequest{ModuleName: "xkernel", ContractName: "$acl", MethodName: "SetMethodAcl", Args: map[string][]byte{"contract_name": []byte(C11Contract), "method_name": []byte(C11Method), "acl": rule.JSON()}}
	case "bind":
		req = &pb.InvokeRequest{ModuleName: "xkernel", ContractName: C11Contract, MethodName: "bind", Args: map[string][]byte{"account": []byte(c11Name(C11A))}}
	case "invoke":
		req = &pb.InvokeRequest{ModuleName: "xkernel", ContractName: C11Contract, MethodName: C11Method, Args: map[string][]byte{"k": []byte(fmt.Sprintf("k%d", x.seq))}}
	}
	sp := &TxSpec{From: payer, Version: 3, AuthRequire: uris, Signers: signers}
	need := new(big.Int)
	if req != nil {
		resp, err := n.Chain.PreExec(n.BaseCtx(), []*pb.InvokeRequest{req}, payer.Addr, uris)
		if err != nil {
			x.logf("%s %s: pre-execution failed", kind, c11PathStr(sigs))
			x.rc.St.Probes["preexec-failed"]++
			if kind == "newacct" {
				panic(fmt.Sprintf("c11: NewAccount pre-execution failed: %v", err))
			}
			return false, nil
		}
		sp.Invoke = resp
		need = big.NewInt(resp.GasUsed)
	}
	switch kind {
	case "fund":
		sp.Inputs = x.payerInputs(big.NewInt(1000))
		for i := 0; i < 40; i++ {
			sp.Outs = append(sp.Outs, OutSpec{To: c11Name(C11A), Amount: big.NewInt(10)})
		}
	case "spend":
		us, err := n.ListUtxos(c11Name(C11A))
		if err != nil {
			panic(err)
		}
		if len(us) == 0 {
			x.logf("spend: account has no output left")
			x.rc.St.Probes["spend-no-output"]++
			return false, nil
		}
		sp.Inputs = []UtxoRef{us[0]}
		sp.Outs = []OutSpec{{To: payer.Addr, Amount: us[0].Amount}}
	default:
		sp.Inputs = x.payerInputs(need)
	}
	tx, err := BuildTx(sp)
	if err != nil {
		panic(fmt.Sprintf("c11: build tx: %v", err))
	}
	faulted := false
	if x.fr > 0 && kind != "newacct" && kind != "fund" && kind != "bind" {
		n.Disk.Arm(simkv.Faults{FailRead: map[int]bool{x.fr - 1: true}})
	}
	err = n.Chain.SubmitTx(n.BaseCtx(), tx)
	if x.fr > 0 {
		faulted = n.Disk.St.FailedReads > 0
		x.rc.St.Faults["kv-read-error"] += n.Disk.St.FailedReads
		n.Disk.Disarm()
		n.Disk.St = simkv.Stats{}
		x.fr = 0
	}
	admitted := err == nil
	x.logf("%s t=%d rule=%v signers=%s tx=%s admitted=%v", kind, t, rule, c11PathStr(sigs), hx(tx.Txid), admitted)
	key := t
	if kind == "setmacl" || kind == "invoke" {
		key = -1
	}
	if kind != "newacct" && kind != "fund" {
		if p := x.pending[key]; p != nil {
			x.rc.St.Faults["rule-change-pending-at-arrival"]++
		}
		if u := x.undone[key]; u != nil {
			x.rc.St.Faults["rule-change-undone-at-arrival"]++
		}
	}
	if admitted {
		x.txs[string(tx.Txid)] = &c11Tx{Kind: kind, T: t, Rule: rule, Sigs: sigs}
		x.rc.St.Probes["tx-admitted"]++
	} else {
		x.rc.St.Probes["tx-refused"]++
	}
	strict, decided := x.expected(x.cur, kind, t, sigs, false)
	if decided {
		lenientV, _ := x.expected(x.cur, kind, t, sigs, true)
		switch {
		case !admitted && faulted:
			// a storage read failed during the admission: it may fail, it must not open anything
			x.rc.St.Probes["refused-under-read-fault"]++
		case admitted != strict && admitted == lenientV:
			x.noteDefect("%s with signers %s: admitted=%v, reference=%v under confirmed rule %v (method rule %v); the node's verdict is what one gets when the unsigned inner path name is counted as a signer", kind, c11PathStr(sigs), admitted, strict, x.cur.Rules[t], x.cur.Method)
		case admitted && !strict:
			return admitted, x.viol(c11ClTxAdmit, "%s (target %d) was admitted with signers %s although they do not satisfy the rule in force on the confirmed chain: account rules A=%v B=%v method=%v bound=%v; pending=%v undone=%v", kind, t, c11PathStr(sigs), x.cur.Rules[C11A], x.cur.Rules[C11B], x.cur.Method, x.cur.Bound, x.pending[key], x.undone[key])
		case !admitted && strict:
			return admitted, x.viol(c11ClTxRefuse, "%s (target %d) was refused (%v) with signers %s although they satisfy the rule in force on the confirmed chain: account rules A=%v B=%v method=%v bound=%v; pending=%v undone=%v", kind, t, err, c11PathStr(sigs), x.cur.Rules[C11A], x.cur.Rules[C11B], x.cur.Method, x.cur.Bound, x.pending[key], x.undone[key])
		}
		if admitted {
			x.rc.St.Probes["judged-admit"]++
		} else {
			x.rc.St.Probes["judged-refuse"]++
		}
		// would the verdict have been different under the pending / undone rule? (the fault mattered)
		alt := func(r *C11Rule) bool {
			if r == nil {
				return false
			}
			st := x.cur.clone()
			if key == -1 {
				st.Method = r
			} else {
				st.Rules[key] = r
			}
			o, d := x.expected(st, kind, t, sigs, false)
			return d && o != strict
		}
		if alt(x.pending[key]) {
			x.rc.St.Probes["verdict-differs-under-pending-rule"]++
		}
		if alt(x.undone[key]) {
			x.rc.St.Probes["verdict-differs-under-undone-rule"]++
		}
	}
	if admitted {
		switch kind {
		case "setacl":
			x.pending[t] = rule
		case "setmacl":
			x.pending[-1] = rule
		}
	}
	return admitted, nil
}

// mine produces a block with everything pending; the reference state of the new tip is the
// parent's state with the effects of the block's transactions, in block order.
func (x *c11Run) mine() *Violation {
	time.Sleep(time.Millisecond) // coinbase transactions of two blocks must not share a timestamp
	blk, err := x.n.Mine(MineOpts{MaxTx: -1})
	if err != nil {
		panic(fmt.Sprintf("c11: mine: %v", err))
	}
	parent := x.cur
	next := parent.clone()
	cnt := 0
	for _, tx := range blk.Transactions {
		info := x.txs[string(tx.Txid)]
		if info == nil {
			continue
		}
		cnt++
		if ok, decided := x.expected(parent, info.Kind, info.T, info.Sigs, false); decided && !ok {
			if lok, _ := x.expected(parent, info.Kind, info.T, info.Sigs, true); lok {
				x.noteDefect("block %s confirms %s with signers %s which do not satisfy rule %v in force at its parent (only with the unsigned inner path name counted)", hx(blk.Blockid), info.Kind, c11PathStr(info.Sigs), parent.Rules[info.T])
			} else {
				return x.viol(c11ClTxConfirm, "block %s produced by the node confirms %s (target %d, tx %s) with signers %s which do not satisfy the rule in force at the block's parent: A=%v B=%v method=%v bound=%v", hx(blk.Blockid), info.Kind, info.T, hx(tx.Txid), c11PathStr(info.Sigs), parent.Rules[C11A], parent.Rules[C11B], parent.Method, parent.Bound)
			}
		}
		switch info.Kind {
		case "newacct", "setacl":
			next.Rules[info.T] = info.Rule
			if info.Kind == "setacl" {
				x.rc.St.Probes["rule-change-confirmed"]++
			}
		case "setmacl":
			next.Method = info.Rule
			x.rc.St.Probes["method-rule-confirmed"]++
		case "bind":
			next.Bound = true
		}
	}
	x.chain = append(x.chain, CloneBlock(blk))
	x.models[string(blk.Blockid)] = next
	x.cur = next
	x.pending = map[int]*C11Rule{}
	x.logf("mined %s h=%d txs=%d A=%v B=%v M=%v", hx(blk.Blockid), len(x.chain), cnt, next.Rules[C11A], next.Rules[C11B], next.Method)
	return nil
}

// reorg replaces the last `depth` blocks of the node's chain by depth+1 empty blocks produced by a
// replica that only knows the chain up to the fork point.
func (x *c11Run) reorg(depth int) *Violation {
	tipH := len(x.chain)
	p := tipH - depth
	if p < x.setupH {
		p = x.setupH
	}
	if p >= tipH {
		x.logf("reorg: nothing to undo")
		x.rc.St.Probes["reorg-nothing-to-undo"]++
		return nil
	}
	f, err := x.w.Fresh("fork", 0)
	if err != nil {
		panic(fmt.Sprintf("c11: fresh replica: %v", err))
	}
	defer f.Drop()
	for _, b := range x.chain[:p] {
		st := f.L.ConfirmBlock(CloneBlock(b), false)
		if !st.Succ {
			panic(fmt.Sprintf("c11: replica refuses block %s: %v", hx(b.Blockid), st.Error))
		}
		if err := f.S.Walk(f.L.GetMeta().TipBlockid, false); err != nil {
			x.logf("reorg: replica cannot play block at height %d", b.Height)
			x.rc.St.Probes["replica-refused-chain"]++
			x.rc.RunBG()
			return nil
		}
		x.rc.RunBG()
	}
	var fork []*lpb.InternalBlock
	for i := 0; i < tipH-p+1; i++ {
		time.Sleep(time.Millisecond)
		b, err := f.Mine(MineOpts{MaxTx: -1})
		if err != nil {
			panic(fmt.Sprintf("c11: replica mine: %v", err))
		}
		fork = append(fork, b)
	}
	x.rc.RunBG()
	old := x.cur
	for _, b := range fork {
		st := x.n.L.ConfirmBlock(CloneBlock(b), false)
		if !st.Succ {
			panic(fmt.Sprintf("c11: node refuses empty fork block: %v", st.Error))
		}
	}
	if err := x.n.S.Walk(x.n.L.GetMeta().TipBlockid, false); err != nil {
		panic(fmt.Sprintf("c11: walk to fork tip: %v", err))
	}
	forkModel := x.models[string(x.n.L.GetMeta().RootBlockid)]
	if p > 0 {
		forkModel = x.models[string(x.chain[p-1].Blockid)]
	}
	x.chain = append(append([]*lpb.InternalBlock{}, x.chain[:p]...), fork...)
	for _, b := range fork {
		x.models[string(b.Blockid)] = forkModel
	}
	x.cur = forkModel
	x.rc.St.Faults["reorganisation"]++
	changed := false
	for _, a := range []int{C11A, C11B} {
		if old.Rules[a] != x.cur.Rules[a] {
			x.undone[a] = old.Rules[a]
			changed = true
		}
	}
	if old.Method != x.cur.Method && old.Method != nil {
		x.undone[-1] = old.Method
		changed = true
	}
	if changed {
		x.rc.St.Faults["reorganisation-undid-rule-change"]++
	}
	// the node re-validates what it had pending (background task of Walk)
	x.rc.RunBG()
	x.logf("reorg depth=%d fork-point=%d new-tip=%s A=%v B=%v M=%v", tipH-p, p, hx(x.n.L.GetMeta().TipBlockid), x.cur.Rules[C11A], x.cur.Rules[C11B], x.cur.Method)
	return nil
}

// ---- exhaustive evaluation ----------------------------------------------------------------------

// c11Memo answers rule lookups from the node's real ACL manager and remembers the answers while
// the chain does not move (one enumeration): the snapshot reads dominate the cost of an evaluation
// and are not what the enumeration is about. The plain subsets go to the real manager directly.
type c11Memo struct {
	real base.AclManager
	acct map[string]*c11MemoEnt
	meth map[string]*c11MemoEnt
}

type c11MemoEnt struct {
	acl *pb.Acl
	err error
}

func (m *c11Memo) GetAccountACL(name string) (*pb.Acl, error) {
	if e, ok := m.acct[name]; ok {
		return e.acl, e.err
	}
	a, err := m.real.GetAccountACL(name)
	m.acct[name] = &c11MemoEnt{a, err}
	return a, err
}

func (m *c11Memo) GetContractMethodACL(c, meth string) (*pb.Acl, error) {
	k := c + "\x00" + meth
	if e, ok := m.meth[k]; ok {
		return e.acl, e.err
	}
	a, err := m.real.GetContractMethodACL(c, meth)
	m.meth[k] = &c11MemoEnt{a, err}
	return a, err
}

func (m *c11Memo) GetAccountAddresses(name string) ([]string, error) {
	return m.real.GetAccountAddresses(name)
}

func (x *c11Run) enumAll() *Violation {
	if x.cur.Rules[C11A] == nil {
		return nil
	}
	if v := x.enumRule(C11A); v != nil {
		return v
	}
	if v := x.enumRule(C11B); v != nil {
		return v
	}
	if x.cur.Method != nil {
		if v := x.enumRule(-1); v != nil {
			return v
		}
	}
	return nil
}

// enumRule evaluates the rule of account t (t=-1: the method rule) in force at the tip for EVERY
// subset of the signer universe and, per subset, the reversed order, every single repetition, a
// foreign-account signer for every absent key and an unverified inner name for every absent key,
// through the node's real ACL manager; each verdict is compared with the reference evaluator.
func (x *c11Run) enumRule(t int) *Violation {
	var mgr base.AclManager = x.n.Ctx.Acl
	memo := &c11Memo{real: mgr, acct: map[string]*c11MemoEnt{}, meth: map[string]*c11MemoEnt{}}
	rs := x.cur.Rules
	var u [][]int
	var rule *C11Rule
	if t == -1 {
		u, rule = c11MethodUniverse(), x.cur.Method
	} else {
		u, rule = c11AcctUniverse(t), rs[t]
	}
	real := func(paths [][]int, mgr base.AclManager) bool {
		x.rc.St.Probes["evaluations"]++
		var ok bool
		var err error
		if t == -1 {
			ok, err = aclu.CheckContractMethodPerm(mgr, c11URIs(paths), C11Contract, C11Method)
		} else {
			ok, err = aclu.IdentifyAccount(mgr, c11Name(t), c11URIs(paths))
		}
		if err != nil {
			x.rc.St.Probes["evaluation-error"]++
			return false
		}
		return ok
	}
	ref := func(paths [][]int, lenient bool) bool {
		if t == -1 {
			return c11EvalMethod(rs, rule, paths, lenient)
		}
		return c11EvalAcct(rs, t, paths, lenient, 0)
	}
	desc := func() string {
		return fmt.Sprintf("target=%d rule=%v (A=%v B=%v F=%v)", t, rule, rs[C11A], rs[C11B], rs[C11F])
	}
	x.rc.St.States[fmt.Sprintf("%d|%v|%v", t, rule, rs[C11B])] = true
	// probes on the shape of the rule
	if rule.Kind == 0 {
		for _, m := range rule.Mem {
			if m.W == 0 {
				x.rc.St.Probes["rule-zero-weight"]++
			}
			if m.W < 0 {
				x.rc.St.Probes["rule-negative-weight"]++
			}
		}
	} else {
		x.rc.St.Probes["rule-key-sets"]++
	}
	if len(rule.AcctMembers()) > 0 {
		x.rc.St.Probes["rule-nested-account-member"]++
	}
	monotone := rule.NonNeg()
	for _, m := range rule.AcctMembers() {
		if rs[m] != nil && !rs[m].NonNeg() {
			monotone = false
		}
	}
	n := 1 << uint(len(u))
	got := make([]bool, n)
	h := sha256.New()
	check := func(paths [][]int, clause string, what string) *Violation {
		r := real(paths, memo)
		if r {
			h.Write([]byte{1})
		} else {
			h.Write([]byte{0})
		}
		want := ref(paths, false)
		if r == want {
			return nil
		}
		if ref(paths, true) == r {
			x.noteDefect("%s: signers %s -> %v by the node's evaluator, %v by the reference; the node's verdict is what one gets when the unsigned inner path name is counted as a signer", desc(), c11PathStr(paths), r, want)
			return nil
		}
		if r && !want {
			return x.viol(clause, "%s: %s %s ACCEPTED by the node's evaluator, reference evaluator rejects", desc(), what, c11PathStr(paths))
		}
		return x.viol(c11ClReject, "%s: %s %s REJECTED by the node's evaluator, reference evaluator accepts", desc(), what, c11PathStr(paths))
	}
	for m := 0; m < n; m++ {
		s := c11Subset(u, m)
		got[m] = real(s, mgr)
		if got[m] {
			h.Write([]byte{1})
		} else {
			h.Write([]byte{0})
		}
		want := ref(s, false)
		if got[m] != want {
			if got[m] {
				return x.viol(c11ClAccept, "%s: signer set %s ACCEPTED by the node's evaluator, reference evaluator rejects", desc(), c11PathStr(s))
			}
			return x.viol(c11ClReject, "%s: signer set %s REJECTED by the node's evaluator, reference evaluator accepts", desc(), c11PathStr(s))
		}
		if want {
			x.rc.St.Probes["enum-accept"]++
		} else {
			x.rc.St.Probes["enum-reject"]++
		}
		// boundary probes (reference side only)
		if rule.Kind == 0 && t != -1 {
			sum := c11RefSum(rs, rule, s, t)
			if sum == rule.Thr {
				x.rc.St.Probes["sum-exactly-at-threshold"]++
			} else if sum < rule.Thr && rule.Thr-sum <= 0.25 {
				x.rc.St.Probes["sum-just-below-threshold"]++
			}
		}
		// same set, reversed order
		if len(s) > 1 {
			rev := make([][]int, len(s))
			for i := range s {
				rev[len(s)-1-i] = s[i]
			}
			if r := real(rev, memo); r != got[m] {
				return x.viol(c11ClOrder, "%s: signer set %s gives %v, the same set in reverse order gives %v", desc(), c11PathStr(s), got[m], r)
			}
		}
		// one entry repeated (every entry in turn; alternately appended / prepended)
		for i := range s {
			var d [][]int
			if (m+i)%2 == 0 {
				d = append(append([][]int{}, s...), s[i])
			} else {
				d = append([][]int{s[i]}, s...)
			}
			if v := check(d, c11ClDup, "signer list with a repeated entry"); v != nil {
				return v
			}
		}
		// a key that is absent from the set signs for ANOTHER account / under an unsigned inner name
		for k := 0; k < C11Keys; k++ {
			if m&(1<<uint(k)) != 0 {
				continue
			}
			var foreign, inner []int
			j := (k + 1 + m) % C11Keys
			if j == k {
				j = (k + 1) % C11Keys
			}
			if t == -1 {
				foreign = []int{C11F, k}
				inner = []int{k, j}
			} else {
				other := C11F
				if (m+k)%2 == 1 {
					other = C11B
					if t == C11B {
						other = C11A
					}
				}
				foreign = []int{other, k}
				if (m+k)%3 == 0 && t == C11A {
					foreign = []int{C11F, C11A, k} // the account name deeper inside a foreign path
				}
				inner = []int{t, k, j}
			}
			var fl, il [][]int
			if (m+k)%2 == 0 {
				fl = append(append([][]int{}, s...), foreign)
				il = append([][]int{inner}, s...)
			} else {
				fl = append([][]int{foreign}, s...)
				il = append(append([][]int{}, s...), inner)
			}
			if v := check(fl, c11ClForeign, "signer list with a signer of another account"); v != nil {
				return v
			}
			if v := check(il, c11ClAccept, "signer list with a member name that did not sign (inner path element)"); v != nil {
				return v
			}
		}
	}
	if monotone {
		for m := 0; m < n; m++ {
			if !got[m] {
				continue
			}
			for b := 0; b < len(u); b++ {
				if m&(1<<uint(b)) == 0 && !got[m|1<<uint(b)] {
					return x.viol(c11ClMonotone, "%s: signer set %s is accepted, adding %s turns it into a rejection", desc(), c11PathStr(c11Subset(u, m)), c11PathStr([][]int{u[b]}))
				}
			}
		}
		x.rc.St.Probes["monotonicity-checked"]++
	}
	x.rc.St.Probes["rules-enumerated"]++
	x.logf("enum t=%d rule=%v verdicts=%s", t, rule, hex.EncodeToString(h.Sum(nil)[:8]))
	return nil
}

// c11RefSum is the reference weight reached by the signer paths for a threshold rule of account t.
func c11RefSum(rs c11Rules, rule *C11Rule, paths [][]int, t int) float64 {
	sum := 0.0
	for _, m := range rule.Mem {
		one := &C11Rule{Kind: 1, Sets: [][]int{{m.M}}}
		tmp := rs.clone()
		tmp[t] = one
		if c11EvalAcct(tmp, t, paths, false, 0) {
			sum += m.W
		}
	}
	return sum
}
