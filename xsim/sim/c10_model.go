package sim

import (
	"bytes"
	"fmt"
	"sort"
	"strings"

	"github.com/xuperchain/xupercore/kernel/contract/sandbox"
	"github.com/xuperchain/xupercore/kernel/ledger"
)

// ---- reference model of C10 ---------------------------------------------------------------------

// c10Cell is what the model knows about one key of the backing state.
type c10Cell struct {
	Live   bool   // false: deleted (written before, last write was a delete)
	Val    string // value when live
	Txid   []byte // version: transaction and output offset of the last write
	Offset int32
}

// c10Backing is the model of the underlying state: bucket\x00key -> cell (absent = never written).
type c10Backing map[string]*c10Cell

func c10RK(b, k string) string { return b + "\x00" + k }

func c10Split(rk string) (string, string) {
	i := strings.IndexByte(rk, 0)
	return rk[:i], rk[i+1:]
}

// c10Over is one pending write of the execution.
type c10Over struct {
	Del bool
	Val string
}

// c10View is the overlay-map model of one execution: own writes over the backing state.
type c10View struct {
	back c10Backing
	over map[string]*c10Over
	// absentRead: keys that a Get of this execution found never written (per statement they are part of
	// the read set with an empty version)
	absentRead map[string]bool
}

func newC10View(b c10Backing) *c10View {
	return &c10View{back: b, over: map[string]*c10Over{}, absentRead: map[string]bool{}}
}

// get returns (value, found) as the statement demands: latest own write/delete, else backing state.
func (v *c10View) get(b, k string) (string, bool) {
	if o, ok := v.over[c10RK(b, k)]; ok {
		if o.Del {
			return "", false
		}
		return o.Val, true
	}
	if c, ok := v.back[c10RK(b, k)]; ok && c.Live {
		return c.Val, true
	}
	return "", false
}

// inRange reports start <= k < end; a nil end (open=true) means unbounded above.
func c10InRange(k, start, end string, open bool) bool {
	if k < start {
		return false
	}
	return open || k < end
}

// scan returns the live keys of bucket b in [start,end) in order with their values.
func (v *c10View) scan(b, start, end string, open bool) [][2]string {
	seen := map[string]bool{}
	var keys []string
	add := func(rk string) {
		bb, k := c10Split(rk)
		if bb != b || seen[k] || !c10InRange(k, start, end, open) {
			return
		}
		seen[k] = true
		if _, ok := v.get(b, k); ok {
			keys = append(keys, k)
		}
	}
	for rk := range v.over {
		add(rk)
	}
	for rk := range v.back {
		add(rk)
	}
	sort.Strings(keys)
	var out [][2]string
	for _, k := range keys {
		val, _ := v.get(b, k)
		out = append(out, [2]string{k, val})
	}
	return out
}

func c10Items(it [][2]string) string {
	var sb strings.Builder
	for _, kv := range it {
		fmt.Fprintf(&sb, "%s=%q ", kv[0], kv[1])
	}
	return strings.TrimSpace(sb.String())
}

// ---- perturbing reader ----------------------------------------------------------------------------

// c10Mod is a perturbation of one backing key: a different value, or a deletion.
type c10Mod struct {
	Del bool
	Val string
}

// c10Perturbed presents the base reader with some EXISTING live keys changed or deleted, exactly as
// the backing state would look after one more transaction had written them (new version; a deleted
// key is answered by Get with the delete marker and a version, and is no longer listed by scans).
type c10Perturbed struct {
	base ledger.XMReader
	mod  map[string]*c10Mod
}

var c10PerturbTxid = []byte("c10-perturbing-transaction-id-00")

func (p *c10Perturbed) data(b string, k []byte, m *c10Mod) *ledger.VersionedData {
	val := []byte(m.Val)
	if m.Del {
		val = []byte(sandbox.DelFlag)
	}
	return &ledger.VersionedData{RefTxid: c10PerturbTxid, RefOffset: 3, PureData: &ledger.PureData{Bucket: b, Key: append([]byte{}, k...), Value: val}}
}

func (p *c10Perturbed) Get(bucket string, key []byte) (*ledger.VersionedData, error) {
	if m := p.mod[c10RK(bucket, string(key))]; m != nil {
		return p.data(bucket, key, m), nil
	}
	return p.base.Get(bucket, key)
}

func (p *c10Perturbed) Select(bucket string, start, end []byte) (ledger.XMIterator, error) {
	it, err := p.base.Select(bucket, start, end)
	if err != nil {
		return nil, err
	}
	return &c10PertIter{XMIterator: it, p: p, b: bucket}, nil
}

type c10PertIter struct {
	ledger.XMIterator
	p   *c10Perturbed
	b   string
	cur *ledger.VersionedData
}

func (i *c10PertIter) Next() bool {
	for i.XMIterator.Next() {
		k := i.XMIterator.Key()
		m := i.p.mod[c10RK(i.b, string(k))]
		if m == nil {
			i.cur = i.XMIterator.Value()
			return true
		}
		if m.Del {
			continue
		}
		i.cur = i.p.data(i.b, k, m)
		return true
	}
	i.cur = nil
	return false
}
func (i *c10PertIter) Key() []byte {
	if i.cur == nil {
		return nil
	}
	return i.cur.GetPureData().GetKey()
}
func (i *c10PertIter) Value() *ledger.VersionedData { return i.cur }

// ---- RW set helpers -------------------------------------------------------------------------------

func c10WSetString(ws []*ledger.PureData) string {
	var ls []string
	for _, w := range ws {
		ls = append(ls, fmt.Sprintf("%s/%s=%q", w.GetBucket(), w.GetKey(), w.GetValue()))
	}
	sort.Strings(ls)
	return strings.Join(ls, " ")
}

func c10SameBytes(a []byte, s string) bool { return bytes.Equal(a, []byte(s)) }
