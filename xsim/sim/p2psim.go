package sim

import (
	"bytes"
	"fmt"
	"sort"
	"sync"
	"time"

	"github.com/anishathalye/porcupine"
	"github.com/golang/protobuf/proto"
	lpb "github.com/xuperchain/xupercore/bcs/ledger/xledger/xldgpb"
	xctx "github.com/xuperchain/xupercore/kernel/common/xcontext"
	nconf "github.com/xuperchain/xupercore/kernel/network/config"
	nctx "github.com/xuperchain/xupercore/kernel/network/context"
	"github.com/xuperchain/xupercore/kernel/network/p2p"
	"github.com/xuperchain/xupercore/lib/logs"
	"github.com/xuperchain/xupercore/lib/timer"
	"github.com/xuperchain/xupercore/lib/xsimrt"
	pb "github.com/xuperchain/xupercore/protos"
	"pgregory.net/rapid"
)

// Engine for C20: (a) messages built by the real NewMessage survive transport and every injected
// corruption of the encoded payload (single-bit flips, bursts <= 32 bits) is detected; (b) the real
// Dispatcher under concurrent Register / UnRegister / Dispatch from several tasks (cooperative
// scheduler, statement-level preemption) is linearizable against a subscriber-set model, delivers
// exactly once to exactly the matching registered subscribers and honours the de-duplication window.

// P2PMsg describes one message of the plan.
type P2PMsg struct {
	Type    int    `json:"type"`
	Payload int    `json:"payload"` // 0 nil, 1 empty message, 2 small, 3 incompressible, 4 large compressible, 5 block
	Size    int    `json:"size"`
	BC      int    `json:"bc"`
	From    int    `json:"from"`
	LogID   string `json:"logid"`
	Version int    `json:"version"`
	ErrType int    `json:"errtype"`
}

// P2PCorrupt is one corruption fault applied to the encoded payload.
type P2PCorrupt struct {
	Msg   int    `json:"msg"`
	Pos   int    `json:"pos"`   // bit position selector
	Burst int    `json:"burst"` // burst length in bits (1 = single flip), <= 32
	Mask  uint32 `json:"mask"`  // which bits inside the burst flip (first and last always flip)
}

// P2POp is one operation of a concurrent task.
type P2POp struct {
	Kind string `json:"kind"` // reg unreg disp
	Sub  int    `json:"sub"`
	Msg  int    `json:"msg"`
}

// P2PPlan is the plan of one C20 run.
type P2PPlan struct {
	Seed     uint64       `json:"seed"`
	Msgs     []P2PMsg     `json:"msgs"`
	Corrupt  []P2PCorrupt `json:"corrupt"`
	Subs     []P2PSub     `json:"subs"`
	Tasks    [][]P2POp    `json:"tasks"`
	Preempts []Preempt    `json:"preempts"`
	OnBlock  []int        `json:"on_block"`
	Gap      int          `json:"gap_ms"` // clock step between the concurrent phase and the repeat phase
}

// P2PSub describes a subscriber.
type P2PSub struct {
	Type int  `json:"type"`
	BC   int  `json:"bc"`   // 0 = no filter
	From int  `json:"from"` // 0 = no filter
	Chan bool `json:"chan"`
}

var p2pTypes = []pb.XuperMessage_MessageType{pb.XuperMessage_SENDBLOCK, pb.XuperMessage_POSTTX, pb.XuperMessage_GET_BLOCK, pb.XuperMessage_NEW_BLOCKID}
var p2pBCs = []string{"", "xuper", "side"}
var p2pFroms = []string{"", "peerA", "peerB"}

func GenP2PPlan(rt *rapid.T, tier string) *P2PPlan {
	pl := &P2PPlan{Seed: rapid.Uint64Range(1, 1<<40).Draw(rt, "seed")}
	nm := rapid.IntRange(1, 4).Draw(rt, "nmsg")
	for i := 0; i < nm; i++ {
		m := P2PMsg{
			Type:    rapid.IntRange(0, len(p2pTypes)-1).Draw(rt, "type"),
			Payload: rapid.IntRange(0, 5).Draw(rt, "payload"),
			Size:    rapid.IntRange(1, 40).Draw(rt, "size"),
			BC:      rapid.IntRange(1, 2).Draw(rt, "bc"),
			From:    rapid.IntRange(1, 2).Draw(rt, "from"),
			LogID:   fmt.Sprintf("log%d", rapid.IntRange(0, 2).Draw(rt, "logid")),
			Version: rapid.IntRange(0, 2).Draw(rt, "version"),
			ErrType: rapid.IntRange(0, 1).Draw(rt, "errtype"),
		}
		if tier == "thorough" && m.Payload == 4 {
			m.Size *= 8
		}
		pl.Msgs = append(pl.Msgs, m)
	}
	nc := rapid.IntRange(0, 6).Draw(rt, "ncorrupt")
	for i := 0; i < nc; i++ {
		pl.Corrupt = append(pl.Corrupt, P2PCorrupt{
			Msg:   rapid.IntRange(0, nm-1).Draw(rt, "cmsg"),
			Pos:   rapid.IntRange(0, 1<<20).Draw(rt, "cpos"),
			Burst: rapid.IntRange(1, 32).Draw(rt, "burst"),
			Mask:  rapid.Uint32().Draw(rt, "mask"),
		})
	}
	ns := rapid.IntRange(1, 4).Draw(rt, "nsub")
	for i := 0; i < ns; i++ {
		pl.Subs = append(pl.Subs, P2PSub{
			Type: rapid.IntRange(0, 1).Draw(rt, "stype"),
			BC:   rapid.IntRange(0, 2).Draw(rt, "sbc"),
			From: rapid.IntRange(0, 2).Draw(rt, "sfrom"),
			Chan: rapid.IntRange(0, 3).Draw(rt, "chan") == 3,
		})
	}
	nt := rapid.IntRange(1, 3).Draw(rt, "ntasks")
	for t := 0; t < nt; t++ {
		no := rapid.IntRange(1, 4).Draw(rt, "nops")
		var ops []P2POp
		for i := 0; i < no; i++ {
			ops = append(ops, P2POp{
				Kind: rapid.SampledFrom([]string{"disp", "disp", "reg", "unreg", "reg"}).Draw(rt, "kind"),
				Sub:  rapid.IntRange(0, ns-1).Draw(rt, "sub"),
				Msg:  rapid.IntRange(0, nm-1).Draw(rt, "msg"),
			})
		}
		pl.Tasks = append(pl.Tasks, ops)
	}
	np := rapid.IntRange(0, 4).Draw(rt, "npre")
	for i := 0; i < np; i++ {
		pl.Preempts = append(pl.Preempts, Preempt{At: rapid.IntRange(0, 120).Draw(rt, "at"), To: rapid.IntRange(0, 3).Draw(rt, "to")})
	}
	for i := 0; i < 4; i++ {
		pl.OnBlock = append(pl.OnBlock, rapid.IntRange(0, 2).Draw(rt, "onblock"))
	}
	pl.Gap = rapid.SampledFrom([]int{0, 500, 2900, 3100, 5000}).Draw(rt, "gap")
	return pl
}

type p2pStream struct {
	mu   sync.Mutex
	sent int
}

func (s *p2pStream) Send(m *pb.XuperMessage) error {
	s.mu.Lock()
	s.sent++
	s.mu.Unlock()
	return nil
}

// payload builds the protobuf payload of a message spec (deterministic content).
func (m *P2PMsg) payload(seed uint64) *lpb.InternalBlock {
	switch m.Payload {
	case 0:
		return nil
	case 1:
		return &lpb.InternalBlock{}
	case 2:
		return &lpb.InternalBlock{Blockid: bytes.Repeat([]byte{7}, m.Size%9+1), Height: int64(m.Size)}
	case 3:
		b := make([]byte, m.Size*3)
		x := seed | 1
		for i := range b {
			x ^= x << 13
			x ^= x >> 7
			x ^= x << 17
			b[i] = byte(x)
		}
		return &lpb.InternalBlock{Blockid: b}
	case 4:
		return &lpb.InternalBlock{Blockid: bytes.Repeat([]byte("abcdefgh"), m.Size*16), Proposer: bytes.Repeat([]byte{'p'}, 300)}
	default:
		return &lpb.InternalBlock{Blockid: []byte("blk"), PreHash: []byte("pre"), Height: 9, Transactions: []*lpb.Transaction{{Txid: []byte("t1"), Desc: bytes.Repeat([]byte("d"), m.Size)}}}
	}
}

func (m *P2PMsg) build(seed uint64) *pb.XuperMessage {
	opts := []p2p.MessageOption{p2p.WithBCName(p2pBCs[m.BC]), p2p.WithLogId(m.LogID)}
	if m.Version > 0 {
		opts = append(opts, p2p.WithVersion([]string{"", p2p.MessageVersion2, p2p.MessageVersion3}[m.Version]))
	}
	if m.ErrType > 0 {
		opts = append(opts, p2p.WithErrorType(pb.XuperMessage_SUCCESS))
	}
	var msg *pb.XuperMessage
	if pl := m.payload(seed); pl != nil {
		msg = p2p.NewMessage(p2pTypes[m.Type], pl, opts...)
	} else {
		msg = p2p.NewMessage(p2pTypes[m.Type], nil, opts...)
	}
	msg.Header.From = p2pFroms[m.From]
	return msg
}

// wire simulates the transport: the receiver gets its own decoded copy.
func overWire(m *pb.XuperMessage) *pb.XuperMessage {
	b, err := proto.Marshal(m)
	if err != nil {
		panic(err)
	}
	out := &pb.XuperMessage{}
	if err := proto.Unmarshal(b, out); err != nil {
		panic(err)
	}
	return out
}

type p2pDelivery struct {
	sub int
	msg string
	op  int
}

type p2pRun struct {
	byMsg map[*pb.XuperMessage]int // message object handed to Dispatch -> op index
	rc    *RunCtx
	plan  *P2PPlan
	disp  p2p.Dispatcher
	subs  []p2p.Subscriber
	mu    sync.Mutex
	dels  []p2pDelivery
	curOp func() int
	chans []chan *pb.XuperMessage
}

func (r *p2pRun) viol(clause, format string, a ...interface{}) *Violation {
	return &Violation{Prop: "C20", Clause: clause, Op: "p2p", Msg: fmt.Sprintf(format, a...)}
}

func (s *P2PSub) matches(m *P2PMsg) bool {
	if s.Type != m.Type {
		return false
	}
	if s.BC != 0 && s.BC != m.BC {
		return false
	}
	if s.From != 0 && s.From != m.From {
		return false
	}
	return true
}

// ExecP2P executes a C20 plan.
func ExecP2P(plan *P2PPlan, rc *RunCtx) *Violation {
	initEnv()
	r := &p2pRun{rc: rc, plan: plan, byMsg: map[*pb.XuperMessage]int{}}
	// ---- (a) codec under corruption -------------------------------------------------------------
	for mi := range plan.Msgs {
		m := &plan.Msgs[mi]
		built := m.build(plan.Seed)
		recv := overWire(built)
		want := m.payload(plan.Seed)
		got := &lpb.InternalBlock{}
		err := p2p.Unmarshal(recv, got)
		if want != nil {
			if err != nil {
				return r.viol("intact-message-not-decoded", "message %d (payload kind %d, %d encoded bytes) built by NewMessage does not decode at the receiver: %v", mi, m.Payload, len(recv.GetData().GetMsgInfo()), err)
			}
			wb, _ := proto.Marshal(want)
			gb, _ := proto.Marshal(got)
			if !bytes.Equal(wb, gb) {
				return r.viol("intact-message-differs", "message %d decodes to a different payload", mi)
			}
		}
		if !p2p.VerifyChecksum(recv) {
			return r.viol("intact-message-checksum", "message %d fails its own checksum", mi)
		}
		rc.St.Probes["codec-roundtrip"]++
		enc := recv.GetData().GetMsgInfo()
		nbits := len(enc) * 8
		if nbits == 0 {
			continue
		}
		check := func(pos, burst int, mask uint32, what string) *Violation {
			c := overWire(built)
			buf := c.Data.MsgInfo
			flipped := 0
			for i := 0; i < burst; i++ {
				bit := pos + i
				if bit >= nbits {
					break
				}
				if i == 0 || i == burst-1 || mask&(1<<uint(i)) != 0 {
					buf[bit/8] ^= 1 << uint(bit%8)
					flipped++
				}
			}
			if flipped == 0 {
				return nil
			}
			rc.St.Faults["payload-corruption-"+what]++
			out := &lpb.InternalBlock{}
			if err := p2p.Unmarshal(c, out); err == nil {
				return r.viol("corruption-not-detected", "message %d: %s at bit %d (len %d) of the %d-byte encoded payload was delivered as a payload instead of being detected", mi, what, pos, burst, len(enc))
			}
			if p2p.VerifyChecksum(c) {
				return r.viol("corruption-passes-checksum", "message %d: %s at bit %d passes VerifyChecksum", mi, what, pos)
			}
			return nil
		}
		if len(enc) <= 48 {
			for pos := 0; pos < nbits; pos++ {
				if v := check(pos, 1, 0, "single-bit-flip"); v != nil {
					return v
				}
			}
			rc.St.Probes["all-single-bit-flips-enumerated"]++
		}
		for _, c := range plan.Corrupt {
			if c.Msg != mi {
				continue
			}
			what := "burst"
			if c.Burst == 1 {
				what = "single-bit-flip"
			}
			if v := check(c.Pos%nbits, c.Burst, c.Mask, what); v != nil {
				return v
			}
		}
	}
	// GetRespMessageType is an injection on request types
	seen := map[pb.XuperMessage_MessageType]pb.XuperMessage_MessageType{}
	var tnames []int
	for t := range pb.XuperMessage_MessageType_name {
		tnames = append(tnames, int(t))
	}
	sort.Ints(tnames)
	for _, ti := range tnames {
		t := pb.XuperMessage_MessageType(ti)
		name := pb.XuperMessage_MessageType_name[int32(ti)]
		if len(name) > 4 && name[len(name)-4:] == "_RES" || t == pb.XuperMessage_MSG_TYPE_NONE {
			continue
		}
		resp := p2p.GetRespMessageType(t)
		if prev, ok := seen[resp]; ok {
			return r.viol("response-type-not-injective", "request types %v and %v map to the same response type %v", prev, t, resp)
		}
		seen[resp] = t
	}
	// ---- (b) dispatcher under concurrency ----------------------------------------------------------
	return r.dispatcherPhase()
}

type p2pIn struct {
	kind string
	sub  int
	msg  int
}
type p2pOut struct {
	err  bool
	dels []int // subscriber ids delivered to (sorted)
}

func (r *p2pRun) dispatcherPhase() *Violation {
	plan, rc := r.plan, r.rc
	lg, _ := logs.NewLogger("", "p2psim")
	env := (&Node{Root: Base()}).env()
	nc := &nctx.NetCtx{EnvCfg: env, P2PConf: nconf.GetDefP2PConf()}
	nc.XLog = lg
	nc.Timer = timer.NewXTimer()
	coop := NewCoop(rc, plan.Preempts, plan.OnBlock, &xsimrt.H{})
	r.disp = p2p.NewDispatcher(nc)
	opSeq := 0
	taskOp := map[int]int{} // task id -> op index currently executing
	var ops []porcupine.Operation
	for si := range plan.Subs {
		si := si
		s := &plan.Subs[si]
		opts := []p2p.SubscriberOption{}
		if s.BC != 0 {
			opts = append(opts, p2p.WithFilterBCName(p2pBCs[s.BC]))
		}
		if s.From != 0 {
			opts = append(opts, p2p.WithFilterFrom(p2pFroms[s.From]))
		}
		var sub p2p.Subscriber
		if s.Chan {
			ch := make(chan *pb.XuperMessage, 64)
			r.chans = append(r.chans, ch)
			sub = p2p.NewSubscriber(nc, p2pTypes[s.Type], ch, opts...)
		} else {
			r.chans = append(r.chans, nil)
			h := p2p.HandleFunc(func(ctx xctx.XContext, m *pb.XuperMessage) (*pb.XuperMessage, error) {
				r.mu.Lock()
				op, ok := r.byMsg[m]
				if !ok {
					op = r.curOp()
				}
				r.dels = append(r.dels, p2pDelivery{sub: si, op: op})
				r.mu.Unlock()
				return p2p.NewMessage(p2p.GetRespMessageType(m.GetHeader().GetType()), nil), nil
			})
			sub = p2p.NewSubscriber(nc, p2pTypes[s.Type], h, opts...)
		}
		if sub == nil {
			panic("nil subscriber")
		}
		r.subs = append(r.subs, sub)
	}
	built := make([]*pb.XuperMessage, len(plan.Msgs))
	for i := range plan.Msgs {
		built[i] = plan.Msgs[i].build(plan.Seed)
	}
	var hmu sync.Mutex
	r.curOp = func() int {
		hmu.Lock()
		defer hmu.Unlock()
		if coop.cur != nil {
			return taskOp[coop.cur.id]
		}
		return -1
	}
	stream := &p2pStream{}
	runOp := func(task int, op P2POp) {
		hmu.Lock()
		opSeq++
		call := opSeq
		idx := len(ops)
		ops = append(ops, porcupine.Operation{ClientId: task, Input: p2pIn{op.Kind, op.Sub, op.Msg}, Call: int64(call)})
		taskOp[task] = idx
		hmu.Unlock()
		var err error
		switch op.Kind {
		case "reg":
			err = r.disp.Register(r.subs[op.Sub])
		case "unreg":
			err = r.disp.UnRegister(r.subs[op.Sub])
		case "disp":
			mobj := overWire(built[op.Msg])
			r.mu.Lock()
			r.byMsg[mobj] = idx
			r.mu.Unlock()
			err = r.disp.Dispatch(mobj, stream)
		}
		hmu.Lock()
		opSeq++
		out := p2pOut{err: err != nil}
		// drain channel subscribers (their deliveries belong to this dispatch)
		if op.Kind == "disp" {
			for si, ch := range r.chans {
				for ch != nil && len(ch) > 0 {
					got := <-ch
					r.mu.Lock()
					r.dels = append(r.dels, p2pDelivery{sub: si, op: r.byMsg[got]})
					r.mu.Unlock()
				}
			}
		}
		r.mu.Lock()
		for _, d := range r.dels {
			if d.op == idx {
				out.dels = append(out.dels, d.sub)
			}
		}
		r.mu.Unlock()
		sort.Ints(out.dels)
		ops[idx].Output = out
		ops[idx].Return = int64(opSeq)
		hmu.Unlock()
		rc.Log.Add("task %d %s sub=%d msg=%d -> err=%v dels=%v", task, op.Kind, op.Sub, op.Msg, err != nil, out.dels)
	}
	coop.OnPoint = func(int) {
		hmu.Lock()
		opSeq++
		hmu.Unlock()
	}
	for ti, tops := range plan.Tasks {
		ti, tops := ti, tops
		coop.Spawn(fmt.Sprintf("t%d", ti), func() {
			for _, op := range tops {
				runOp(ti, op)
			}
		})
	}
	dl, pan := coop.Run()
	if pan != "" {
		return r.viol("dispatcher-panic", "%s", pan)
	}
	if dl != "" {
		return r.viol("dispatcher-deadlock", "%s (trace %s)", dl, coop.Trace())
	}
	if len(coop.Races) > 0 {
		rc.St.Probes["subscriber-table-race"]++
		return r.viol("subscriber-table-access-unsynchronised", "%s (the Go runtime aborts the process when such a pair overlaps; trace %s)", coop.Races[0], coop.Trace())
	}
	rc.St.Ops["p2p-ops"] += len(ops)
	// exactly once per dispatch
	for i, op := range ops {
		out := op.Output.(p2pOut)
		for j := 1; j < len(out.dels); j++ {
			if out.dels[j] == out.dels[j-1] {
				return r.viol("delivered-twice", "dispatch op %d handed its message to subscriber %d more than once", i, out.dels[j])
			}
		}
		in := op.Input.(p2pIn)
		if in.kind == "disp" {
			for _, s := range out.dels {
				if !plan.Subs[s].matches(&plan.Msgs[in.msg]) {
					return r.viol("delivered-to-non-matching", "dispatch op %d delivered message %d to subscriber %d whose type / chain / sender filter does not match", i, in.msg, s)
				}
			}
			if len(out.dels) > 0 {
				rc.St.Probes["dispatch-delivered"]++
			}
		}
	}
	// linearizability against the subscriber-set model
	msgKey := func(mi int) string {
		m := &plan.Msgs[mi]
		return fmt.Sprint(m.Type, m.BC, m.From, m.LogID, built[mi].GetHeader().GetDataCheckSum())
	}
	type st struct {
		reg     uint32
		handled string // sorted, ';' separated keys
	}
	has := func(h string, k string) bool {
		for _, x := range splitKeys(h) {
			if x == k {
				return true
			}
		}
		return false
	}
	model := porcupine.NondeterministicModel{
		Init: func() []interface{} { return []interface{}{st{}} },
		Step: func(state, input, output interface{}) []interface{} {
			s := state.(st)
			in := input.(p2pIn)
			out := output.(p2pOut)
			switch in.kind {
			case "reg":
				if s.reg&(1<<uint(in.sub)) != 0 {
					if out.err {
						return []interface{}{s}
					}
					return nil
				}
				if out.err {
					return nil
				}
				s.reg |= 1 << uint(in.sub)
				return []interface{}{s}
			case "unreg":
				if s.reg&(1<<uint(in.sub)) == 0 {
					if out.err {
						return []interface{}{s}
					}
					return nil
				}
				if out.err {
					return nil
				}
				s.reg &^= 1 << uint(in.sub)
				return []interface{}{s}
			default:
				k := msgKey(in.msg)
				if has(s.handled, k) {
					if len(out.dels) == 0 {
						return []interface{}{s}
					}
					return nil
				}
				var want []int
				for si := range plan.Subs {
					if s.reg&(1<<uint(si)) != 0 && plan.Subs[si].matches(&plan.Msgs[in.msg]) {
						want = append(want, si)
					}
				}
				if fmt.Sprint(want) != fmt.Sprint(out.dels) {
					return nil
				}
				// a message handed to nobody may or may not count as handled; an error return means it does not
				marked := s
				marked.handled = joinKeys(append(splitKeys(s.handled), k))
				if len(want) > 0 {
					return []interface{}{marked}
				}
				if out.err {
					return []interface{}{s}
				}
				return []interface{}{s, marked}
			}
		},
		Equal: func(a, b interface{}) bool { return a.(st) == b.(st) },
	}
	// known finding (see known_findings.json): two OVERLAPPING dispatches of the same message both
	// deliver, because the handled-mark is only set after the handlers ran. Classified separately so
	// that every other linearizability failure is still reported.
	for i := range ops {
		for j := i + 1; j < len(ops); j++ {
			a, b := ops[i].Input.(p2pIn), ops[j].Input.(p2pIn)
			if a.kind != "disp" || b.kind != "disp" || msgKey(a.msg) != msgKey(b.msg) {
				continue
			}
			overlap := ops[i].Call < ops[j].Return && ops[j].Call < ops[i].Return
			if overlap && len(ops[i].Output.(p2pOut).dels) > 0 && len(ops[j].Output.(p2pOut).dels) > 0 {
				return r.viol("overlapping-duplicate-dispatch-delivered-twice", "dispatch ops %d and %d of the same message overlap in time and both handed it to subscribers %v / %v (trace %s)", i, j, ops[i].Output.(p2pOut).dels, ops[j].Output.(p2pOut).dels, coop.Trace())
			}
		}
	}
	if len(ops) > 0 {
		if !porcupine.CheckOperations(model.ToModel(), ops) {
			desc := ""
			for i, op := range ops {
				desc += fmt.Sprintf(" #%d[c%d %v -> %v @%d-%d]", i, op.ClientId, op.Input, op.Output, op.Call, op.Return)
			}
			return r.viol("dispatcher-not-linearizable", "no one-at-a-time order of the Register / UnRegister / Dispatch history explains the results:%s (trace %s)", desc, coop.Trace())
		}
		rc.St.Probes["linearizability-checked"]++
		if coop.Switches > len(plan.Tasks) {
			rc.St.Probes["linearizability-checked-with-preemption"]++
		}
	}
	// ---- de-duplication window (sequential, with clock steps) --------------------------------------------
	// The statement names a window without a length: an immediate repeat must be dropped, a repeat
	// after a long time (1 min) must be delivered, and in between the behaviour must be monotone in
	// the gap (once a gap is long enough every longer gap is).
	xsimrt.Attach(&xsimrt.H{})
	for si := range plan.Subs {
		r.disp.Register(r.subs[si])
	}
	gaps := []int{0, plan.Gap, 60000, plan.Gap / 2, plan.Gap * 2}
	type obs struct {
		gap       int
		delivered bool
	}
	var seenObs []obs
	for mi := range plan.Msgs {
		fresh := plan.Msgs[mi]
		fresh.LogID = fmt.Sprintf("win-%d", mi)
		b := fresh.build(plan.Seed)
		tag := -100 - mi
		count := func() int {
			r.mu.Lock()
			defer r.mu.Unlock()
			n := 0
			for i := range r.dels {
				if r.dels[i].op == tag {
					n++
					r.dels[i].op = -1
				}
			}
			for _, ch := range r.chans {
				for ch != nil && len(ch) > 0 {
					if got := <-ch; r.byMsg[got] == tag {
						n++
					}
				}
			}
			return n
		}
		r.curOp = func() int { return tag }
		want := 0
		for si := range plan.Subs {
			if plan.Subs[si].matches(&fresh) {
				want++
			}
		}
		m1 := overWire(b)
		r.mu.Lock()
		r.byMsg[m1] = tag
		r.mu.Unlock()
		r.disp.Dispatch(m1, stream)
		if first := count(); first != want {
			return r.viol("sequential-delivery-wrong", "message %d: delivered to %d subscribers, %d registered subscribers match", mi, first, want)
		}
		if want == 0 {
			continue
		}
		gap := gaps[mi%len(gaps)]
		time.Sleep(time.Duration(gap) * time.Millisecond)
		m2 := overWire(b)
		r.mu.Lock()
		r.byMsg[m2] = tag
		r.mu.Unlock()
		r.disp.Dispatch(m2, stream)
		second := count()
		if second != 0 && second != want {
			return r.viol("repeat-partially-delivered", "message %d repeated after %d ms reached %d of %d matching subscribers", mi, gap, second, want)
		}
		if gap == 0 && second != 0 {
			return r.viol("immediate-repeat-delivered", "message %d repeated immediately after it was handled was delivered again", mi)
		}
		if gap >= 60000 && second == 0 {
			return r.viol("repeat-after-window-dropped", "message %d repeated one minute after it was handled was dropped", mi)
		}
		seenObs = append(seenObs, obs{gap, second != 0})
		rc.St.Probes[fmt.Sprintf("dedup-repeat-delivered-%v", second != 0)]++
		// let the window of this message pass before the next one
		time.Sleep(2 * time.Minute)
	}
	for _, a := range seenObs {
		for _, b := range seenObs {
			if a.gap < b.gap && a.delivered && !b.delivered {
				return r.viol("dedup-window-not-monotone", "a repeat after %d ms was delivered but a repeat after %d ms was dropped", a.gap, b.gap)
			}
		}
	}
	return nil
}

func splitKeys(h string) []string {
	if h == "" {
		return nil
	}
	var out []string
	cur := ""
	for i := 0; i < len(h); i++ {
		if h[i] == ';' {
			out = append(out, cur)
			cur = ""
		} else {
			cur += string(h[i])
		}
	}
	return append(out, cur)
}

func joinKeys(ks []string) string {
	sort.Strings(ks)
	s := ""
	for i, k := range ks {
		if i > 0 {
			s += ";"
		}
		s += k
	}
	return s
}
