package sim

import (
	"bytes"
	"fmt"
	"math/big"
	"sort"

	lpb "github.com/xuperchain/xupercore/bcs/ledger/xledger/xldgpb"
	pb "github.com/xuperchain/xupercore/protos"
)

// C09: what was pre-executed is what is verified and committed. Operation "invoke" of chainsim:
// PreExec a generated $xsim program through the real Chain.PreExec, assemble the transaction,
// optionally apply ONE mutation (read set, write set, transient outputs, requests, limits, gas
// output) or make a declared read stale, sign, submit, and compare the committed effect with the
// write set.

func rawTable(n *Node, prefix string) map[string]string {
	out := map[string]string{}
	for _, kv := range n.Disk.Dump("xuper/state", prefix) {
		out[kv[0]] = kv[1]
	}
	return out
}

func diffTables(a, b map[string]string) (changed []string) {
	for k, v := range a {
		if bv, ok := b[k]; !ok || bv != v {
			changed = append(changed, k)
		}
	}
	for k := range b {
		if _, ok := a[k]; !ok {
			changed = append(changed, k)
		}
	}
	sort.Strings(changed)
	return
}

func (r *chainRun) doInvoke(st *CStep, n *Node, failed *bool) *Violation {
	from := Accts[abs(st.A)%2]
	beforeZU, beforeU, beforeM, beforeZD := rawTable(n, "ZU"), rawTable(n, "U"), rawTable(n, "M"), rawTable(n, "ZD")
	unchanged := func(what string) *Violation {
		if d := diffTables(beforeZU, rawTable(n, "ZU")); len(d) > 0 {
			return r.viol("rejected-call-changed-keys", "%s, yet key table entries changed: %v", what, printableAll(d))
		}
		if d := diffTables(beforeU, rawTable(n, "U")); len(d) > 0 {
			return r.viol("rejected-call-changed-outputs", "%s, yet unspent outputs changed: %v", what, printableAll(d))
		}
		if d := diffTables(beforeM, rawTable(n, "M")); len(d) > 0 {
			return r.viol("rejected-call-changed-meta", "%s, yet meta entries changed: %v", what, printableAll(d))
		}
		return nil
	}
	// one invocation in three with at least two operations travels as two contract requests of one
	// transaction, so gas, limits and the read/write set span requests
	split := len(st.Prog) >= 2 && abs(st.B)%3 == 1
	var resp *pb.InvokeResponse
	var err error
	if split {
		resp, err = n.PreExecProgSplit(from, st.Prog, 1+abs(st.D)%(len(st.Prog)-1))
	} else {
		resp, err = n.PreExecProg(from, st.Prog, nil)
	}
	if err != nil {
		r.rc.St.Probes["preexec-error"]++
		r.logf("preexec error")
		*failed = true
		return unchanged("pre-execution failed")
	}
	failedCall := false
	for _, cr := range resp.Responses {
		if cr.Status >= 400 {
			failedCall = true
		}
	}
	// assemble
	us, _ := n.ListUtxos(from.Addr)
	h := n.L.GetMeta().TrunkHeight
	sp := &TxSpec{From: from, Version: 3, Invoke: resp}
	need := big.NewInt(resp.GasUsed)
	got := new(big.Int)
	for _, u := range us {
		if u.Frozen == -1 || u.Frozen > h {
			continue
		}
		if got.Cmp(need) >= 0 && len(sp.Inputs) > 0 {
			break
		}
		sp.Inputs = append(sp.Inputs, u)
		got.Add(got, u.Amount)
	}
	if got.Cmp(need) < 0 || (len(sp.Inputs) == 0 && !r.plan.NoFee) {
		return nil
	}
	tx, err := BuildTx(sp)
	if err != nil {
		return nil
	}
	mut := ""
	if st.C%3 != 0 { // two thirds of the invocations are mutated
		mut = r.mutateInvokeTx(tx, st, n)
		if mut != "" {
			if err := SignTx(tx, from, nil); err != nil {
				return nil
			}
		}
	}
	stale := false
	if mut == "" && st.Flag && len(tx.TxInputsExt) > 0 {
		// another admitted transaction changes a declared read between pre-execution and submission
		in := tx.TxInputsExt[abs(st.D)%len(tx.TxInputsExt)]
		other := Accts[2]
		prog := []KOp{{Op: "put", B: in.Bucket, K: string(in.Key), V: "stale"}}
		if in.Bucket == XsimBucket || in.Bucket == "xsim2" {
			if oresp, err := n.PreExecProg(other, prog, nil); err == nil {
				ous, _ := n.ListUtxos(other.Addr)
				osp := &TxSpec{From: other, Version: 3, Invoke: oresp}
				og := new(big.Int)
				for _, u := range ous {
					if og.Cmp(big.NewInt(oresp.GasUsed)) >= 0 && len(osp.Inputs) > 0 {
						break
					}
					if u.Frozen == 0 {
						osp.Inputs = append(osp.Inputs, u)
						og.Add(og, u.Amount)
					}
				}
				if og.Cmp(big.NewInt(oresp.GasUsed)) >= 0 && (len(osp.Inputs) > 0 || r.plan.NoFee) {
					if otx, err := BuildTx(osp); err == nil {
						if n.Chain.SubmitTx(n.BaseCtx(), CloneTx(otx)) == nil {
							stale = true
							r.u.AddTx(otx.Txid)
							r.txs[string(otx.Txid)] = CloneTx(otx)
							beforeZU, beforeU, beforeM, beforeZD = rawTable(n, "ZU"), rawTable(n, "U"), rawTable(n, "M"), rawTable(n, "ZD")
						}
					}
				}
			}
		}
	}
	r.u.AddTx(tx.Txid)
	serr := n.Chain.SubmitTx(n.BaseCtx(), CloneTx(tx))
	r.logf("invoke %s split=%v mut=%q stale=%v failedcall=%v -> refused=%v | %s", hx(tx.Txid), split, mut, stale, failedCall, serr != nil, descTx(tx))
	*failed = serr != nil
	switch {
	case mut != "":
		r.rc.St.Faults["tx-mutation-"+mutKind(mut)]++
		if serr == nil {
			return r.viol("mutated-invocation-admitted", "transaction whose %s was admitted: %s", mut, descTx(tx))
		}
		return unchanged("a mutated invocation was rejected")
	case stale:
		r.rc.St.Probes["stale-read-submitted"]++
		if serr == nil {
			return r.viol("stale-read-admitted", "transaction %s was admitted although a declared read had been superseded by an admitted transaction after pre-execution", hx(tx.Txid))
		}
		return unchanged("an invocation with a stale read was rejected")
	case serr != nil:
		return r.viol("preexecuted-invocation-rejected", "the read/write set returned by PreExec, assembled and signed unchanged and submitted against the same state, was rejected: %v | %s", serr, descTx(tx))
	}
	r.txs[string(tx.Txid)] = CloneTx(tx)
	r.rc.St.Probes["invoke-admitted"]++
	if split {
		r.rc.St.Probes["invoke-with-two-requests-admitted"]++
	}
	if len(resp.UtxoInputs) > 0 {
		r.rc.St.Probes["invoke-with-contract-transfer"]++
		if len(resp.UtxoInputs) > 1 {
			r.rc.St.Probes["invoke-with-several-contract-inputs"]++
		}
	}
	if failedCall && !split {
		// a failed call (status >= 400) must change nothing
		r.rc.St.Probes["failed-call-admitted"]++
		if d := diffTables(beforeZU, rawTable(n, "ZU")); len(d) > 0 {
			return r.viol("failed-call-changed-keys", "contract call answered with status >= 400 but its transaction committed key changes: %v", printableAll(d))
		}
	}
	// the commit changes exactly the keys of the write set to exactly those values
	want := map[string]string{}
	for off, o := range tx.TxOutputsExt {
		if o.Bucket == transientBucket {
			continue
		}
		raw := "ZU" + o.Bucket + "/" + string(o.Key)
		if string(o.Value) == delFlag {
			want[raw] = "<deleted>"
		} else {
			want[raw] = fmt.Sprintf("%x_%d", tx.Txid, off)
		}
	}
	afterZU := rawTable(n, "ZU")
	for _, k := range diffTables(beforeZU, afterZU) {
		w, ok := want[k]
		if !ok {
			return r.viol("commit-changed-undeclared-key", "committing %s changed key %s which is not in its write set", hx(tx.Txid), printable(k))
		}
		if w == "<deleted>" {
			if _, still := afterZU[k]; still {
				return r.viol("commit-differs-from-write-set", "key %s should be deleted", printable(k))
			}
		} else if afterZU[k] != w {
			return r.viol("commit-differs-from-write-set", "key %s points to version %s, write set says %s", printable(k), afterZU[k], w)
		}
	}
	rd := n.S.CreateXMReader()
	for _, o := range tx.TxOutputsExt {
		if o.Bucket == transientBucket {
			continue
		}
		v, err := rd.Get(o.Bucket, o.Key)
		if err != nil {
			return r.viol("commit-differs-from-write-set", "Get(%s/%s) after commit: %v", o.Bucket, o.Key, err)
		}
		if !bytes.Equal(v.GetPureData().GetValue(), o.Value) || !bytes.Equal(v.RefTxid, tx.Txid) {
			return r.viol("commit-differs-from-write-set", "after committing %s key %s/%s reads %q@%s, write set says %q", hx(tx.Txid), o.Bucket, o.Key, v.GetPureData().GetValue(), hx(v.RefTxid), o.Value)
		}
	}
	// outputs: exactly the declared inputs disappear and the declared non-zero, non-fee outputs appear
	afterU := rawTable(n, "U")
	wantU := map[string]bool{}
	for _, in := range tx.TxInputs {
		wantU["U"+utxoKey(in.FromAddr, in.RefTxid, in.RefOffset)] = true
	}
	for off, o := range tx.TxOutputs {
		if string(o.ToAddr) != "$" && new(big.Int).SetBytes(o.Amount).Sign() != 0 {
			wantU["U"+utxoKey(o.ToAddr, tx.Txid, int32(off))] = true
		}
	}
	for _, k := range diffTables(beforeU, afterU) {
		if !wantU[k] {
			return r.viol("commit-changed-undeclared-output", "committing %s changed output %s which it neither consumes nor creates", hx(tx.Txid), printable(k))
		}
	}
	if d := diffTables(beforeM, rawTable(n, "M")); len(d) > 0 {
		return r.viol("commit-changed-meta", "committing a plain contract call changed meta entries %v", printableAll(d))
	}
	_ = beforeZD
	r.rc.St.Probes["commit-effect-checked"]++
	return nil
}

func printableAll(ks []string) []string {
	var o []string
	for _, k := range ks {
		o = append(o, printable(k))
	}
	return o
}

func mutKind(m string) string {
	for i := 0; i < len(m); i++ {
		if m[i] == ':' {
			return m[:i]
		}
	}
	return m
}

// mutateInvokeTx applies one mutation and returns its description ("" if not applicable).
func (r *chainRun) mutateInvokeTx(tx *lpb.Transaction, st *CStep, n *Node) string {
	d := abs(st.D)
	// callers mutate only when st.C%3 != 0; spread those values over all eleven kinds
	c := abs(st.C)
	switch 1 + (c/3*2+c%3+10)%11 {
	case 1:
		if len(tx.TxInputsExt) == 0 {
			return ""
		}
		in := tx.TxInputsExt[d%len(tx.TxInputsExt)]
		if len(in.RefTxid) == 0 {
			// claims a version for a key that does not exist
			in.RefTxid = r.cm.Root
			in.RefOffset = 0
			return "read-set:version of an absent key set to a real transaction"
		}
		in.RefOffset += 1
		return "read-set:version offset altered"
	case 2:
		if len(tx.TxInputsExt) == 0 {
			return ""
		}
		i := d % len(tx.TxInputsExt)
		// Only reads that matter: dropping a read that is also written breaks "only keys also read";
		// dropping the source of a copy changes what re-execution over the declared reads produces.
		// A pure read whose value influences nothing may legitimately be left out.
		in := tx.TxInputsExt[i]
		matters := false
		for _, o := range tx.TxOutputsExt {
			if o.Bucket == in.Bucket && bytes.Equal(o.Key, in.Key) {
				matters = true
			}
		}
		for _, op := range st.Prog {
			b := op.B
			if b == "" {
				b = XsimBucket
			}
			if op.Op == "cp" && b == in.Bucket && op.K == string(in.Key) && len(in.RefTxid) > 0 {
				// only a live value makes a difference: a deleted key reads like an absent one
				if cur, err := n.S.CreateXMReader().Get(in.Bucket, in.Key); err == nil {
					if v := cur.GetPureData().GetValue(); len(v) > 0 && string(v) != delFlag {
						matters = true
					}
				}
			}
		}
		if !matters {
			return ""
		}
		tx.TxInputsExt = append(tx.TxInputsExt[:i:i], tx.TxInputsExt[i+1:]...)
		return "read-set:entry dropped"
	case 3:
		if len(tx.TxOutputsExt) == 0 {
			return ""
		}
		o := tx.TxOutputsExt[d%len(tx.TxOutputsExt)]
		o.Value = append(append([]byte{}, o.Value...), 'X')
		return "write-set:value altered"
	case 4:
		// extra write of a key that was read
		if len(tx.TxInputsExt) == 0 {
			return ""
		}
		in := tx.TxInputsExt[d%len(tx.TxInputsExt)]
		for _, o := range tx.TxOutputsExt {
			if o.Bucket == in.Bucket && bytes.Equal(o.Key, in.Key) {
				return ""
			}
		}
		tx.TxOutputsExt = append(tx.TxOutputsExt, &pb.TxOutputExt{Bucket: in.Bucket, Key: in.Key, Value: []byte("sneaked")})
		return "write-set:extra key written"
	case 5:
		if len(tx.TxOutputsExt) == 0 {
			return ""
		}
		i := d % len(tx.TxOutputsExt)
		tx.TxOutputsExt = append(tx.TxOutputsExt[:i:i], tx.TxOutputsExt[i+1:]...)
		return "write-set:entry dropped"
	case 6:
		tx.TxOutputsExt = append(tx.TxOutputsExt, &pb.TxOutputExt{Bucket: transientBucket, Key: []byte("contractEvent"), Value: []byte("forged")})
		return "transient:forged event output added"
	case 7:
		if len(tx.ContractRequests) == 0 {
			return ""
		}
		rq := tx.ContractRequests[d%len(tx.ContractRequests)]
		args := map[string][]byte{}
		for k, v := range rq.Args {
			args[k] = v
		}
		args["prog"] = []byte(`[{"op":"put","k":"k0","v":"other"}]`)
		if len(tx.ContractRequests) > 1 {
			// with several requests a later one may overwrite k0 and hide the difference: write a key
			// no program uses
			args["prog"] = []byte(`[{"op":"put","k":"k-altered","v":"other"}]`)
		}
		rq.Args = args
		return "requests:arguments altered"
	case 8:
		if len(tx.ContractRequests) == 0 {
			return ""
		}
		rq := tx.ContractRequests[d%len(tx.ContractRequests)]
		changed := false
		for _, l := range rq.ResourceLimits {
			if l.Limit > 0 {
				l.Limit--
				changed = true
				break
			}
		}
		if !changed {
			return ""
		}
		return "limits:declared below what execution uses"
	case 9:
		// pay less gas than used: move one unit from the fee output to the change
		for _, o := range tx.TxOutputs {
			if string(o.ToAddr) == "$" {
				a := new(big.Int).SetBytes(o.Amount)
				if a.Sign() == 0 {
					return ""
				}
				o.Amount = a.Sub(a, big.NewInt(1)).Bytes()
				tx.TxOutputs = append(tx.TxOutputs, &pb.TxOutput{ToAddr: []byte(tx.Initiator), Amount: big.NewInt(1).Bytes()})
				return "gas:fee output pays less than used"
			}
		}
		return ""
	case 10:
		if len(tx.ContractRequests) == 0 {
			return ""
		}
		if len(tx.TxOutputsExt) == 0 && len(tx.TxInputsExt) == 0 {
			return ""
		}
		tx.ContractRequests = nil
		return "requests:dropped while keeping the read/write set"
	case 11:
		if len(tx.TxOutputsExt) == 0 {
			return ""
		}
		o := tx.TxOutputsExt[d%len(tx.TxOutputsExt)]
		if o.Bucket == transientBucket {
			return ""
		}
		o.Key = append(append([]byte{}, o.Key...), 'z')
		return "write-set:key altered"
	}
	return ""
}
