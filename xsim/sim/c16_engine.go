package sim

import (
	"bytes"
	"crypto/sha256"
	"encoding/hex"
	"fmt"
	"math/big"
	"sort"
	"time"

	"github.com/xuperchain/xupercore/bcs/consensus/pow"
	"github.com/xuperchain/xupercore/bcs/consensus/tdpos"
	"github.com/xuperchain/xupercore/bcs/consensus/xpoa"
	"github.com/xuperchain/xupercore/bcs/ledger/xledger/ledger"
	"github.com/xuperchain/xupercore/bcs/ledger/xledger/state"
	lpb "github.com/xuperchain/xupercore/bcs/ledger/xledger/xldgpb"
	xctx "github.com/xuperchain/xupercore/kernel/common/xcontext"
	"github.com/xuperchain/xupercore/kernel/consensus"
	xpb "github.com/xuperchain/xupercore/kernel/engines/xuperos/xpb"
	"github.com/xuperchain/xupercore/kernel/network/p2p"
	pb "github.com/xuperchain/xupercore/protos"
)

// c16run is the state of one executed C16 plan.
type c16run struct {
	p    *C16Plan
	rc   *RunCtx
	w    *World
	kind string // single | tdpos | xpoa | pow
	r    *Node  // the receiving node (real acceptance path: Chain.ProcBlock)
	b    *Node  // the builder: follows r, force-applies held candidates so that blocks can be stacked on them
	plug interface{}
	bplg interface{}
	ctx  xctx.XContext

	ids      []*Acct // identities candidates may claim: validators (configured order) then outsiders
	valAddrs []string
	epochMs  int64
	initNs   int64
	step     int
	op       string

	cands  map[string]*c16Cand
	order  []string
	blocks map[string]*lpb.InternalBlock

	vc       *c16VC             // xpoa run with on-chain validator changes (nil: none)
	up       *c16UpRun          // run with an on-chain consensus upgrade (nil: none)
	extraTxs []*lpb.Transaction // transactions the next candidate carries besides its award
}

// c16Cand is what the harness knows about a candidate block it built.
type c16Cand struct {
	ID         []byte
	Step       int
	Proposer   *Acct  // claimed producer
	Signer     *Acct  // key that really signed
	PubOf      *Acct  // whose public key the block carries
	SigDamaged bool   //
	Ts         int64  // the block's own timestamp
	Entitled   string // producer the schedule names at Ts ("" nobody)
	ParentTs   int64
	TrueHeight int64
	Claimed    int64
	Bits       uint32 // claimed target bits
	Prescribed uint32 // bits the node's own retarget computation yields on the same history (true height)
	ByClaimed  uint32 // bits the same computation yields for the claimed height
	PreErr     bool
	RefViol    string // the node's retarget computation contradicts the independent reference (c16RefRetarget)
	Judged     bool
	// xpoa with validator changes
	Adm    []c16Epoch // validator lists that may govern the block's height (one: unambiguous)
	EntAll []string   // the producer the reference rotation entitles at Ts under each of them
	Edit   bool       // the block carries an editValidates transaction
	// run with a consensus upgrade
	OldRule bool // a block of the superseded producer, perfectly valid under the superseded rule
}

func (r *c16run) viol(clause, format string, a ...interface{}) *Violation {
	return &Violation{Prop: "C16", Clause: clause, Step: r.step, Op: r.op, Msg: fmt.Sprintf(format, a...)}
}

func (r *c16run) logf(format string, a ...interface{}) {
	r.rc.Log.Add("%d %s: %s", r.step, r.op, fmt.Sprintf(format, a...))
}

// ExecC16 executes a C16 plan.
func ExecC16(p *C16Plan, rc *RunCtx) *Violation {
	r := &c16run{p: p, rc: rc, cands: map[string]*c16Cand{}, blocks: map[string]*lpb.InternalBlock{}}
	r.epochMs = time.Now().UnixNano() / 1e6
	r.op = p.Mode
	rc.St.Ops[p.Mode]++
	switch p.Mode {
	case "compact":
		return r.execCompact()
	case "tile-tdpos", "tile-xpoa":
		r.kind = p.Mode[5:]
		r.boot(false)
		return r.execTile()
	case "acc-single", "acc-tdpos", "acc-xpoa", "acc-pow":
		r.kind = p.Mode[4:]
		r.boot(true)
		return r.execAcc()
	case "acc-upgrade":
		return r.execUpgrade()
	}
	panic("c16: unknown mode " + p.Mode)
}

// ---- boot ----------------------------------------------------------------------------------------

func (r *c16run) genesis() *Genesis {
	s := &r.p.Sch
	g := &Genesis{Consensus: r.kind, Predist: map[int]string{0: "1000000000"}, Award: "1000000"}
	nval := int(s.NVal)
	switch r.kind {
	case "single":
		nval = 1
		g.ConsConfig = map[string]interface{}{"miner": Accts[0].Addr, "period": "3000"}
	case "tdpos":
		r.initNs = (r.epochMs+s.InitOffMs)*1e6 + s.InitSubNs
		var addrs []string
		for i := 0; i < nval; i++ {
			addrs = append(addrs, Accts[i].Addr)
		}
		g.ConsConfig = map[string]interface{}{
			"timestamp": fmt.Sprint(r.initNs), "proposer_num": fmt.Sprint(s.NVal), "period": fmt.Sprint(s.Period),
			"alternate_interval": fmt.Sprint(s.Alt), "term_interval": fmt.Sprint(s.TermInt), "block_num": fmt.Sprint(s.BlockNum),
			"vote_unit_price": "1", "init_proposer": map[string]interface{}{"1": addrs},
		}
	case "xpoa":
		var addrs []string
		for i := 0; i < nval; i++ {
			addrs = append(addrs, Accts[i].Addr)
		}
		g.ConsConfig = map[string]interface{}{"period": s.Period, "block_num": s.BlockNum, "init_proposer": map[string]interface{}{"address": addrs}}
	case "pow":
		nval = 0
		pw := &r.p.Pow
		g.ConsConfig = map[string]interface{}{"defaultTarget": fmt.Sprint(pw.Default), "maxTarget": fmt.Sprint(pw.Max), "adjustHeightGap": fmt.Sprint(pw.Gap), "expectedPeriod": fmt.Sprint(pw.ExpMs)}
	}
	for i := 0; i < nval; i++ {
		r.ids = append(r.ids, Accts[i])
		r.valAddrs = append(r.valAddrs, Accts[i].Addr)
	}
	// outsiders
	for i := nval; i < nval+2; i++ {
		r.ids = append(r.ids, Accts[i])
	}
	return g
}

func (r *c16run) boot(builder bool) {
	g := r.genesis()
	r.w = NewWorld(g, &Knobs{})
	r.rc.OnCleanup(r.w.Close)
	rk := r.p.RKey
	n, err := r.w.AddNode("r", rk)
	if err != nil {
		panic(fmt.Sprintf("c16 boot: %v", err))
	}
	r.r = n
	r.plug = consensus.XsimCurrent(n.Ctx.Consensus)
	if r.plug == nil {
		panic("c16: no consensus plugin")
	}
	r.ctx = n.BaseCtx()
	if builder {
		b, err := r.w.AddNode("b", rk)
		if err != nil {
			panic(fmt.Sprintf("c16 boot builder: %v", err))
		}
		r.b = b
		r.bplg = consensus.XsimCurrent(b.Ctx.Consensus)
	}
	r.w.RPC = r.rpc
	r.rc.BG = nil
}

func (r *c16run) rpc(from *Node, msg *pb.XuperMessage) []*pb.XuperMessage {
	if msg.GetHeader().GetType() != pb.XuperMessage_GET_BLOCK {
		return nil
	}
	var in xpb.BlockID
	if err := p2p.Unmarshal(msg, &in); err != nil {
		return nil
	}
	blk, ok := r.blocks[string(in.Blockid)]
	if !ok {
		return nil
	}
	r.rc.St.Probes["acc-ancestor-fetched"]++
	out := &xpb.BlockInfo{Block: CloneBlock(blk)}
	// (a response counts only when its header says SUCCESS; NewMessage's default is NONE)
	return []*pb.XuperMessage{p2p.NewMessage(pb.XuperMessage_GET_BLOCK_RES, out, p2p.WithBCName("xuper"), p2p.WithErrorType(pb.XuperMessage_SUCCESS))}
}

// ---- the schedule as the code under test labels it -----------------------------------------------

func (r *c16run) label(ts int64) c16Slot {
	s := &r.p.Sch
	var l c16Slot
	switch r.kind {
	case "tdpos":
		term, pos, bp, ok := tdpos.XsimMinerScheduling(r.plug, ts)
		if !ok {
			panic("c16: plugin is not tdpos")
		}
		l = c16Slot{Term: term, Pos: pos, BlockPos: bp}
		l.Valid = bp >= 0 && bp < s.BlockNum && pos >= 0 && pos < int64(len(r.valAddrs))
	case "xpoa":
		term, pos, bp, ok := xpoa.XsimMinerScheduling(r.plug, ts, len(r.valAddrs))
		if !ok {
			panic("c16: plugin is not xpoa")
		}
		l = c16Slot{Term: term, Pos: pos, BlockPos: bp}
		l.Valid = bp >= 0 && bp <= s.BlockNum && pos >= 0 && pos < int64(len(r.valAddrs))
	default:
		return l
	}
	if l.Valid {
		l.Who = r.valAddrs[l.Pos]
	}
	return l
}

// probe asks the real plugin whether a block of `who` with this timestamp passes CheckMinerMatch.
func (r *c16run) probe(ts int64, who string, height int64) bool {
	blk := &lpb.InternalBlock{Blockid: []byte("c16-probe"), Height: height, Timestamp: ts, Proposer: []byte(who)}
	ok, _ := r.r.Ctx.Consensus.CheckMinerMatch(r.ctx, state.NewBlockAgent(blk))
	return ok
}

// ---- (a) tiling -----------------------------------------------------------------------------------

const c16ScanLimit = 4000000

func (r *c16run) execTile() *Violation {
	p, s := r.p, &r.p.Sch
	var start int64
	if r.kind == "tdpos" {
		start = r.initNs / 1e6
		for start*1e6+p.SubNs < r.initNs {
			start++
		}
	} else {
		start = r.epochMs + p.BaseMs
	}
	at := func(t int64) int64 { return t*1e6 + p.SubNs }
	if r.kind == "xpoa" && len(p.VC) > 0 {
		r.vcTilePrepare()
	}
	l0 := r.label(at(start))
	firstFull, lastFull := l0.Term+1, l0.Term+int64(p.Terms)
	if r.kind == "tdpos" {
		firstFull, lastFull = l0.Term, l0.Term+int64(p.Terms)-1
	}
	// scan the labels of every millisecond (cheap), remember where they change
	var bounds []int64
	prev := l0
	end := int64(-1)
	for t := start + 1; t < start+c16ScanLimit; t++ {
		l := r.label(at(t))
		if !l.same(prev) {
			bounds = append(bounds, t)
			prev = l
		}
		if l.Term > lastFull {
			end = t + 3
			break
		}
	}
	if end < 0 {
		return r.viol("tile-term-order", "%s: the term label does not pass %d within %d ms of sweep (config %+v)", r.kind, lastFull, c16ScanLimit, *s)
	}
	var ts []int64
	if p.Full {
		for t := start; t <= end; t++ {
			ts = append(ts, t)
		}
		r.rc.St.Probes["tile-full-sweep"]++
	} else {
		seen := map[int64]bool{}
		add := func(t int64) {
			if t >= start && t <= end && !seen[t] {
				seen[t] = true
				ts = append(ts, t)
			}
		}
		for d := int64(0); d <= 2; d++ {
			add(start + d)
		}
		for _, b := range bounds {
			for d := int64(-2); d <= 2; d++ {
				add(b + d)
			}
		}
		sort.Slice(ts, func(i, j int) bool { return ts[i] < ts[j] })
		r.rc.St.Probes["tile-boundary-sweep"]++
	}
	cands := append([]string{}, r.valAddrs...)
	cands = append(cands, r.ids[len(r.valAddrs)].Addr)
	if r.vc != nil {
		// every identity of the pool: the replaced validators are the interesting outsiders
		cands = cands[:len(r.valAddrs)]
		for _, a := range r.ids[len(r.valAddrs):] {
			cands = append(cands, a.Addr)
		}
	}
	height := p.Height
	if r.vc != nil {
		height = r.tipOf(r.r).Height + 1
	}
	samples := make([]c16Sample, 0, len(ts))
	nobody := 0
	for _, t := range ts {
		sm := c16Sample{T: t, Lab: r.label(at(t))}
		for _, c := range cands {
			if r.probe(at(t), c, height) {
				sm.Acc = append(sm.Acc, c)
			}
		}
		if len(sm.Acc) == 0 {
			nobody++
		}
		samples = append(samples, sm)
	}
	r.rc.St.Steps += len(samples)
	r.rc.St.Probes["tile-instants"] += len(samples)
	r.rc.St.Probes["tile-label-boundaries"] += len(bounds)
	r.rc.St.Probes["tile-nobody-instants"] += nobody
	r.rc.St.Probes["tile-complete-terms"] += p.Terms
	if p.SubNs != 0 {
		r.rc.St.Probes["tile-sub-ms-timestamps"]++
	}
	if r.kind == "tdpos" && s.InitSubNs != 0 {
		r.rc.St.Probes["tile-unaligned-init"]++
	}
	if s.NVal == 1 {
		r.rc.St.Probes["tile-single-validator"]++
	}
	if s.BlockNum == 1 {
		r.rc.St.Probes["tile-one-slot-turns"]++
	}
	cfgKey := fmt.Sprintf("%s %d/%d/%d/%d/%d sub%d isub%d h%d full%v", r.kind, s.Period, s.BlockNum, s.NVal, s.Alt, s.TermInt, p.SubNs, s.InitSubNs, p.Height, p.Full)
	if r.kind == "xpoa" {
		cfgKey = fmt.Sprintf("xpoa %d/%d/%d sub%d base%d full%v", s.Period, s.BlockNum, s.NVal, p.SubNs, p.BaseMs, p.Full)
	}
	if r.vc != nil {
		cfgKey += fmt.Sprintf(" changed to %v at height %d, swept at height %d, cached %d", c16Shorts(r.valAddrs), r.vc.epochs[len(r.vc.epochs)-1].H, height, len(xpoa.XsimValidators(r.plug)))
	}
	r.rc.St.States[cfgKey] = true
	r.logf("%s: %d instants %d boundaries %d nobody", cfgKey, len(samples), len(bounds), nobody)
	h := sha256.New()
	for i := range samples {
		fmt.Fprintf(h, "%d %v %v\n", samples[i].T, samples[i].Lab, samples[i].Acc)
	}
	r.logf("sweep digest %s", hex.EncodeToString(h.Sum(nil)[:8]))
	if clause, msg := c16TileOracle(samples, r.valAddrs, s.BlockNum, s.Period, firstFull, lastFull); clause != "" {
		if r.vc != nil {
			return r.viol(clause, "xpoa config %+v (sub-ms %d ns), validator list %v installed on chain at height %d and swept for blocks of height %d (the node schedules %d cached validators): %s", *s, p.SubNs, c16Shorts(r.valAddrs), r.vc.epochs[len(r.vc.epochs)-1].H, height, len(xpoa.XsimValidators(r.plug)), msg)
		}
		return r.viol(clause, "%s config %+v (sub-ms %d ns, height %d): %s", r.kind, *s, p.SubNs, p.Height, msg)
	}
	// observation only (the statement is silent about instants before the schedule's init time)
	if r.kind == "tdpos" {
		for _, d := range []int64{1, 1000, 86400000} {
			for _, c := range cands {
				if r.probe(at(start-d)-2*p.SubNs, c, p.Height) {
					r.rc.St.Probes["obs-block-before-init-time-accepted"]++
				}
			}
		}
	}
	return nil
}

// ---- (b) acceptance ---------------------------------------------------------------------------------

func (r *c16run) tipOf(n *Node) *lpb.InternalBlock {
	b, err := n.L.QueryBlockHeader(n.S.GetLatestBlockid())
	if err != nil {
		panic(fmt.Sprintf("c16: tip header: %v", err))
	}
	return b
}

// forceApply stores a block on the builder without asking consensus and moves its state there.
func (r *c16run) forceApply(blk *lpb.InternalBlock) bool {
	b := r.b
	if !b.L.ExistBlock(blk.Blockid) {
		st := b.L.ConfirmBlock(CloneBlock(blk), false)
		if !st.Succ {
			return false
		}
	}
	if err := b.S.Walk(blk.Blockid, false); err != nil {
		return false
	}
	return true
}

// resync moves the builder's state back to the receiver's tip.
func (r *c16run) resync() {
	tip := r.r.L.GetMeta().TipBlockid
	if bytes.Equal(r.b.S.GetLatestBlockid(), tip) {
		return
	}
	if !r.b.L.ExistBlock(tip) {
		panic("c16: builder lacks the receiver's tip")
	}
	if err := r.b.S.Walk(tip, false); err != nil {
		panic(fmt.Sprintf("c16: builder resync: %v", err))
	}
}

func (r *c16run) findTs(st *C16Step, parent *lpb.InternalBlock, cursor *int64) int64 {
	if r.kind == "pow" || r.kind == "single" {
		return parent.Timestamp + st.Dt*1e6 + st.Sub
	}
	from := *cursor + st.TsArg
	at := func(t int64) int64 { return t*1e6 + st.Sub }
	limit := from + 200000
	switch st.TsKind {
	case 0:
		for t := from; t < limit; t++ {
			if r.label(at(t)).Valid {
				*cursor = t
				return at(t)
			}
		}
	case 1:
		prev := r.label(at(from))
		for t := from + 1; t < limit; t++ {
			if l := r.label(at(t)); !l.same(prev) {
				t += st.TsArg%5 - 2
				*cursor = t
				r.rc.St.Probes["acc-boundary-timestamp"]++
				return at(t)
			}
		}
	case 2:
		for t := from; t < from+5000; t++ {
			if !r.label(at(t)).Valid {
				*cursor = t
				return at(t)
			}
		}
	case 3:
		r.rc.St.Faults["byz-timestamp-before-parent"]++
		return parent.Timestamp - (st.TsArg+1)*1e6
	case 4:
		if r.kind == "tdpos" {
			return r.initNs - (st.TsArg+1)*1e6
		}
	}
	*cursor = from
	return at(from)
}

// buildCand builds a candidate on the builder's state tip.
func (r *c16run) buildCand(st *C16Step, cursor *int64) *c16Cand {
	parent := r.tipOf(r.b)
	var adm []c16Epoch
	if r.vc != nil {
		// the builder follows one of the lists that may govern the new block's height
		adm = c16Admissible(r.vc.epochs, parent.Height+1)
		basis := adm[0]
		if st.SetSel == 1 {
			basis = adm[len(adm)-1]
		}
		r.setBasis(basis.Set)
	}
	ts := r.findTs(st, parent, cursor)
	lab := r.label(ts)
	c := &c16Cand{Step: r.step, Ts: ts, ParentTs: parent.Timestamp, TrueHeight: parent.Height + 1}
	if r.vc != nil {
		c.Adm = adm
		for _, e := range adm {
			c.EntAll = append(c.EntAll, c16RefXpoaEntitled(ts, r.p.Sch.Period, r.p.Sch.BlockNum, e.Set))
		}
		c.Edit = len(r.extraTxs) > 0
		if ts >= 0 && lab.Who != c16RefXpoaEntitled(ts, r.p.Sch.Period, r.p.Sch.BlockNum, r.valAddrs) {
			// (the tiling sweep is the judge of the rotation itself; here the two only have to agree
			// for the builder's "entitled producer" to be the oracle's)
			r.rc.St.Probes["xpoa-label-differs-from-reference"]++
		}
	}
	if lab.Valid {
		c.Entitled = lab.Who
	}
	// claimed producer
	e := 0
	switch r.kind {
	case "tdpos", "xpoa":
		if lab.Valid {
			e = int(lab.Pos)
		}
	}
	c.Proposer = r.ids[(e+st.PropSel)%len(r.ids)]
	if r.kind == "pow" {
		c.Proposer = Accts[(r.p.RKey+st.PropSel)%6]
	}
	other := r.ids[(e+st.PropSel+1)%len(r.ids)]
	if other == c.Proposer {
		other = Accts[7]
	}
	c.Signer, c.PubOf = c.Proposer, c.Proposer
	switch st.Key {
	case 1:
		c.Signer, c.PubOf = other, other
	case 2:
		c.Signer = other
	case 3:
		c.SigDamaged = true
	}
	blk, err := r.b.PackBlock(MineOpts{Proposer: c.Proposer, Timestamp: ts, MaxTx: 0, Txs: r.extraTxs})
	r.extraTxs = nil
	if err != nil {
		panic(fmt.Sprintf("c16: pack: %v", err))
	}
	c.Claimed = c.TrueHeight
	switch st.HeightVar {
	case 1:
		c.Claimed = c.TrueHeight + 1
	case 2:
		c.Claimed = 1
	case 3:
		c.Claimed = c.TrueHeight + 2
	}
	blk.Height = c.Claimed
	blk.Timestamp = ts // PackBlock replaces a zero timestamp by the clock
	switch r.kind {
	case "tdpos":
		blk.CurTerm = lab.Term
		blk.CurTerm += st.TermSkew
	case "pow":
		bits, err, ok := pow.XsimRefresh(r.bplg, parent.Blockid, c.TrueHeight)
		if !ok {
			panic("c16: plugin is not pow")
		}
		c.Prescribed, c.PreErr = bits, err != nil
		if err == nil && (r.up == nil || r.up.refCovers(c.TrueHeight, int64(r.p.Pow.Gap))) {
			c.RefViol = r.refRetarget(parent, c.TrueHeight, bits)
		}
		c.ByClaimed, _, _ = pow.XsimRefresh(r.bplg, parent.Blockid, c.Claimed)
		c.Bits = bits
		switch st.BitsVar {
		case 1:
			c.Bits = r.p.Pow.Default
		case 2:
			c.Bits = bits + 1
		case 3:
			c.Bits = bits - 1
		case 4:
			if r.p.Pow.Bitcoin && bits&0xff == 0 && bits&0x007fffff != 0 {
				c.Bits = (bits>>24+1)<<24 | (bits&0x007fffff)>>8
			} else {
				c.Bits = c.ByClaimed
			}
		case 5:
			c.Bits = 0
		case 6:
			c.Bits = bits | 0x00800000
		case 7:
			if r.p.Pow.Bitcoin {
				c.Bits = 0x207fffff
			} else {
				c.Bits = 1
			}
		}
		if c.Bits != c.Prescribed {
			r.rc.St.Faults["byz-pow-foreign-bits"]++
		}
		blk.TargetBits = int32(c.Bits)
	}
	if c.PubOf != c.Proposer {
		pk, err := Crypto.GetEcdsaPublicKeyJsonFormatStr(c.PubOf.SK)
		must(err)
		blk.Pubkey = []byte(pk)
	}
	id, err := ledger.MakeBlockID(blk)
	must(err)
	if r.kind == "pow" {
		id = r.grind(blk, c, st.Grind)
	}
	blk.Blockid = id
	sig, err := Crypto.SignECDSA(c.Signer.SK, id)
	must(err)
	if c.SigDamaged {
		sig = append([]byte{}, sig...)
		sig[len(sig)/2] ^= 0x40
	}
	blk.Sign = sig
	c.ID = id
	r.cands[string(id)] = c
	r.order = append(r.order, string(id))
	r.blocks[string(id)] = blk
	if c.Proposer.Addr != c.Entitled && (r.kind == "tdpos" || r.kind == "xpoa") {
		if st.PropSel == 0 {
			r.rc.St.Faults["byz-nobody-slot"]++
		} else {
			r.rc.St.Faults["byz-wrong-producer"]++
		}
	}
	if r.kind == "single" && c.Proposer != r.singleMiner() {
		r.rc.St.Faults["byz-wrong-producer"]++
	}
	if c.Signer != c.Proposer || c.SigDamaged {
		r.rc.St.Faults["byz-wrong-key"]++
	}
	if c.Claimed != c.TrueHeight {
		r.rc.St.Faults["byz-claimed-height"]++
	}
	r.logf("cand %s on %s: proposer=%s signer=%s pub=%s dmg=%v ts=%d entitled=%q h=%d/%d bits=%x presc=%x", hx(id), hx(parent.Blockid), shortAddr(c.Proposer.Addr), shortAddr(c.Signer.Addr), shortAddr(c.PubOf.Addr), c.SigDamaged, ts, shortAddr(c.Entitled), c.Claimed, c.TrueHeight, c.Bits, c.Prescribed)
	return c
}

// refRetarget judges the bits the node prescribes for a block of height h on top of tip against the
// retarget rule of the statement, computed independently from the stored chain: at every multiple of
// the adjustment gap (beyond the first) the target is the previous one scaled by actual / expected
// time of the last window, the ratio clamped to [1/4, 4]; elsewhere it is the previous target. It
// returns "" when the node's answer is consistent (or the case is outside what the reference covers).
func (r *c16run) refRetarget(tip *lpb.InternalBlock, h int64, nodeBits uint32) string {
	pw := r.p.Pow
	gap := int64(pw.Gap)
	if gap < 2 || h <= gap || h%gap != 0 {
		return ""
	}
	pre, err := r.b.L.QueryBlock(tip.PreHash)
	if err != nil {
		return ""
	}
	far := pre
	for i := int64(0); i < gap-1; i++ {
		if far, err = r.b.L.QueryBlock(far.PreHash); err != nil {
			return ""
		}
	}
	oldBits := uint32(pre.TargetBits)
	exp := int64(pw.ExpMs) * (gap - 1)
	actual := (pre.Timestamp - far.Timestamp) / 1e9
	if exp < 4 || actual < 0 || actual > 1<<30 {
		return "" // outside the reference (degenerate configuration, time running backwards)
	}
	span := actual
	if span < exp/4 {
		span = exp / 4
	}
	if span > exp*4 {
		span = exp * 4
	}
	r.rc.St.Probes["pow-retarget-judged-by-reference"]++
	if actual > exp*4 {
		r.rc.St.Probes["pow-retarget-slow-window-clamped"]++
	}
	if actual < exp/4 {
		r.rc.St.Probes["pow-retarget-fast-window-clamped"]++
	}
	if !pw.Bitcoin {
		// leading-zero style: more bits = harder; 2^old * expected / span, floor(log2), capped at Max
		d := new(big.Int).Lsh(big.NewInt(1), uint(oldBits))
		d.Mul(d, big.NewInt(exp))
		d.Div(d, big.NewInt(span))
		want := uint32(d.BitLen() - 1)
		if want > pw.Max {
			want = pw.Max
		}
		if nodeBits != want {
			return fmt.Sprintf("the window before it took %d s for an expected %d s (ratio clamped to [1/4, 4]): %d leading zero bits scaled accordingly give %d", actual, exp, oldBits, want)
		}
		return ""
	}
	oldT, ok1 := c16RefTarget(true, oldBits)
	nodeT, ok2 := c16RefTarget(true, nodeBits)
	if !ok1 || !ok2 || oldT.Sign() <= 0 {
		return ""
	}
	// never more than a factor 4 easier than the previous target, whatever floor the configuration puts
	// under it (compact encoding keeps 23 bits of mantissa: tolerance 2^-14)
	hi := new(big.Int).Mul(oldT, big.NewInt(4))
	hi.Add(hi, new(big.Int).Rsh(hi, 14))
	if nodeT.Cmp(hi) > 0 {
		return fmt.Sprintf("the previous target is %#x and one retarget may ease it by a factor of at most 4 (window took %d s for an expected %d s)", oldBits, actual, exp)
	}
	if nodeBits == pw.Max || nodeBits == pw.Default {
		return "" // the configured floor / default applies: only the bound above is judged
	}
	want := new(big.Int).Mul(oldT, big.NewInt(span))
	want.Div(want, big.NewInt(exp))
	diff := new(big.Int).Sub(nodeT, want)
	diff.Abs(diff)
	tol := new(big.Int).Rsh(want, 14)
	tol.Add(tol, big.NewInt(1))
	if diff.Cmp(tol) > 0 {
		wb, _ := c16RefTarget(true, nodeBits)
		_ = wb
		return fmt.Sprintf("the window before it took %d s for an expected %d s (ratio clamped to [1/4, 4]): the previous target %#x scaled accordingly is %x, the node's bits decode to %x", actual, exp, oldBits, want, nodeT)
	}
	return ""
}

// grind searches a nonce. mode 0: id meets both the prescribed and the claimed target (an honest
// proof); 1: id meets the claimed target but not the prescribed one (when the claim is easier);
// 2: id misses the claimed target.
func (r *c16run) grind(blk *lpb.InternalBlock, c *c16Cand, mode int) []byte {
	bc := r.p.Pow.Bitcoin
	pt, pok := c16RefTarget(bc, c.Prescribed)
	ct, cok := c16RefTarget(bc, c.Bits)
	if !pok {
		pt = big.NewInt(0)
	}
	if !cok || ct.Sign() == 0 {
		ct = new(big.Int).Lsh(big.NewInt(1), 256)
	}
	var last []byte
	for i := 0; i < 300000; i++ {
		blk.Nonce = int32(i)
		id, err := ledger.MakeBlockID(blk)
		must(err)
		last = id
		h := c16HashInt(id)
		switch mode {
		case 0:
			if h.Cmp(pt) <= 0 && h.Cmp(ct) <= 0 {
				return id
			}
		case 1:
			if ct.Cmp(pt) <= 0 {
				mode = 0
				i--
				continue
			}
			if h.Cmp(ct) <= 0 && h.Cmp(pt) > 0 {
				r.rc.St.Faults["byz-pow-hash-above-prescribed"]++
				return id
			}
		default:
			if h.Cmp(ct) > 0 {
				r.rc.St.Faults["byz-pow-hash-above-claimed"]++
				return id
			}
			if i > 64 { // the claimed target admits (almost) everything
				return id
			}
		}
	}
	r.rc.St.Probes["pow-grind-gave-up"]++
	return last
}

func (r *c16run) execAcc() *Violation {
	p := r.p
	cursor := r.epochMs
	if r.kind == "tdpos" && r.initNs/1e6 > cursor {
		cursor = r.initNs / 1e6
	}
	r.rc.St.States[fmt.Sprintf("%s %+v %+v", r.kind, p.Sch, p.Pow)] = true
	if r.kind == "xpoa" && len(p.VC) > 0 {
		r.vcInit()
	}
	held := 0
	for i := range p.Steps {
		st := &p.Steps[i]
		r.step = i
		r.rc.St.Steps++
		if r.vc != nil && held == 0 {
			if v := r.vcEvents(i, &cursor); v != nil {
				return v
			}
		}
		if held == 0 {
			for _, at := range p.Restarts {
				if at == i {
					if v := r.restartReceiver(); v != nil {
						return v
					}
					break
				}
			}
		}
		time.Sleep(time.Millisecond) // award transactions are stamped by the clock: it never stands still between two candidates
		c := r.buildCand(st, &cursor)
		blk := r.blocks[string(c.ID)]
		if st.Hold && held < 2 && i+1 < len(p.Steps) {
			if r.forceApply(blk) {
				held++
				r.rc.St.Probes["acc-held-for-stacking"]++
				r.logf("held %s", hx(c.ID))
				continue
			}
			r.rc.St.Probes["builder-apply-failed"]++
			r.resync()
		}
		if v := r.deliver(c, st, held, &cursor); v != nil {
			return v
		}
		held = 0
	}
	return nil
}

// restartReceiver re-opens the receiving node on (a copy of) its disk, as a process restart does: the
// consensus plugin is rebuilt from the stored chain and must come up whatever the height.
func (r *c16run) restartReceiver() (v *Violation) {
	h := r.tipOf(r.r).Height
	defer func() {
		if p := recover(); p != nil {
			v = r.viol("restart-panics", "re-opening the %s receiver on its own disk at height %d panics: %v", r.kind, h, p)
		}
	}()
	n, err := r.w.NodeOnDisk("r", r.p.RKey, r.r.Disk.Clone())
	if err != nil {
		// a clean refusal to come up is outside the statement (for instance a PoW configuration whose
		// default target leaves no room for one easing retarget: the chain has halted anyway); only a
		// crash is reported. The old receiver goes on.
		r.rc.St.Probes["acc-receiver-restart-refused"]++
		r.logf("receiver refuses to re-open at height %d: %v", h, err)
		return nil
	}
	r.rc.OnCleanup(n.Drop)
	r.r = n
	r.plug = consensus.XsimCurrent(n.Ctx.Consensus)
	r.ctx = n.BaseCtx()
	r.rc.BG = nil
	r.rc.St.Probes["acc-receiver-restarted"]++
	r.logf("receiver re-opened at height %d", h)
	return nil
}

// deliver hands a candidate to the receiving node (after `held` undelivered ancestors: through the
// sync path), judges whatever the receiver stored and lets the builder follow the receiver.
func (r *c16run) deliver(c *c16Cand, st *C16Step, held int, cursor *int64) *Violation {
	blk := r.blocks[string(c.ID)]
	if st.SkewMs > 0 {
		time.Sleep(time.Duration(st.SkewMs) * time.Millisecond)
		r.rc.St.Faults["receiver-clock-jump"]++
	}
	now := time.Now().UnixNano()
	if d := c.Ts - now; d > int64(time.Second) || d < -int64(time.Second) {
		r.rc.St.Faults["receiver-clock-skewed-vs-block"]++
	}
	err, pan := r.procBlock(blk)
	if pan != "" {
		if r.kind == "xpoa" && c.Ts < 0 {
			// exactly: a block carrying a negative timestamp makes the xpoa schedule index its
			// validator list with a negative position
			return r.viol("xpoa-negative-timestamp-panics", "delivering block %s (timestamp %d ns) to an xpoa node panics inside CheckMinerMatch: %s", hx(c.ID), c.Ts, pan)
		}
		panic(pan)
	}
	r.rc.BG = nil
	r.logf("procblock %s -> refused=%v stored=%v (%v)", hx(c.ID), err != nil, r.r.L.ExistBlock(c.ID), err)
	if held > 0 {
		r.rc.St.Probes["acc-delivered-through-sync-path"]++
	}
	if r.vc != nil {
		r.vc.lastErr = fmt.Sprint(err)
	}
	if r.up != nil {
		r.up.lastErr = fmt.Sprint(err)
	}
	if v := r.judgeAll(); v != nil {
		return v
	}
	// the builder follows the receiver
	if r.vc != nil && c.Edit && r.r.L.ExistBlock(c.ID) {
		// (a builder that replayed the change itself would judge its authorisation by its own
		// cached list: it restarts on a copy of the receiver's disk instead)
		r.vcCloneBuilder()
	}
	if tip := r.r.L.GetMeta().TipBlockid; !r.b.L.ExistBlock(tip) {
		path := [][]byte{}
		for id := tip; !r.b.L.ExistBlock(id); {
			path = append(path, id)
			id = r.blocks[string(id)].PreHash
		}
		for j := len(path) - 1; j >= 0; j-- {
			if st := r.b.L.ConfirmBlock(CloneBlock(r.blocks[string(path[j])]), false); !st.Succ {
				panic(fmt.Sprintf("c16: builder cannot follow: %v", st.Error))
			}
		}
	}
	r.resync()
	if t := r.tipOf(r.b).Timestamp / 1e6; t >= *cursor && (r.kind == "tdpos" || r.kind == "xpoa") {
		*cursor = t + 1
	}
	return nil
}

func (r *c16run) procBlock(blk *lpb.InternalBlock) (err error, pan string) {
	defer func() {
		if x := recover(); x != nil {
			pan = fmt.Sprint(x)
		}
	}()
	return r.r.Chain.ProcBlock(r.r.BaseCtx(), CloneBlock(blk)), ""
}

// singleMiner is the miner the `single` configuration in force names.
func (r *c16run) singleMiner() *Acct {
	if r.up != nil && r.up.miner != nil {
		return r.up.miner
	}
	return Accts[0]
}

// judgeAll applies the acceptance oracle to every candidate the receiver has stored meanwhile.
func (r *c16run) judgeAll() *Violation {
	for _, k := range r.order {
		c := r.cands[k]
		if c.Judged {
			continue
		}
		if !r.r.L.ExistBlock(c.ID) {
			continue
		}
		c.Judged = true
		r.rc.St.Probes["acc-accepted"]++
		if v := r.judge(c); v != nil {
			if r.up != nil {
				return r.upRelabel(c, v)
			}
			return v
		}
		if r.up != nil {
			r.upAccepted(c)
		}
	}
	// bookkeeping of refusals (delivered candidates are never delivered again)
	for _, k := range r.order {
		c := r.cands[k]
		if c.Judged {
			continue
		}
		c.Judged = true
		if r.honest(c) {
			r.rc.St.Probes["acc-honest-refused"]++
		} else {
			r.rc.St.Probes["acc-bad-refused"]++
		}
		if r.vc != nil {
			if v := r.vcRefused(c); v != nil {
				return v
			}
		}
		if r.up != nil {
			if v := r.upRefused(c); v != nil {
				return v
			}
		}
	}
	return nil
}

// honest: the candidate is what an entitled, honest producer would have made.
func (r *c16run) honest(c *c16Cand) bool {
	if c.Signer != c.Proposer || c.PubOf != c.Proposer || c.SigDamaged || c.Claimed != c.TrueHeight {
		return false
	}
	switch r.kind {
	case "single":
		return c.Proposer == r.singleMiner()
	case "pow":
		return c.Bits == c.Prescribed && c.Ts >= c.ParentTs
	}
	if r.vc != nil {
		// entitled whichever admissible list governs the block
		for _, e := range c.EntAll {
			if e == "" || e != c.Proposer.Addr {
				return false
			}
		}
		return true
	}
	return c.Entitled == c.Proposer.Addr
}

func (r *c16run) sigOK(c *c16Cand, blk *lpb.InternalBlock) bool {
	// independent of the fields the block carries: the claimed producer's real key must verify
	ok, err := Crypto.VerifyECDSA(&c.Proposer.SK.PublicKey, blk.Sign, blk.Blockid)
	return err == nil && ok
}

func (r *c16run) judge(c *c16Cand) *Violation {
	blk := r.blocks[string(c.ID)]
	desc := fmt.Sprintf("block %s (step %d, proposer %s, signed by %s, carrying the public key of %s, damaged signature %v, timestamp %d ns, claimed height %d, true height %d)", hx(c.ID), c.Step, shortAddr(c.Proposer.Addr), shortAddr(c.Signer.Addr), shortAddr(c.PubOf.Addr), c.SigDamaged, c.Ts, c.Claimed, c.TrueHeight)
	switch r.kind {
	case "tdpos", "xpoa":
		if r.vc != nil {
			return r.vcAccepted(c, blk, desc)
		}
		if c.Entitled == "" {
			return r.viol("accepted-in-nobody-slot", "%s: %s accepted although the schedule names no producer at its timestamp", r.kind, desc)
		}
		if c.Entitled != c.Proposer.Addr {
			return r.viol("accepted-wrong-producer", "%s: %s accepted, the schedule entitles %s at its timestamp", r.kind, desc, shortAddr(c.Entitled))
		}
		if !r.sigOK(c, blk) {
			return r.viol("accepted-not-from-producer", "%s: %s accepted although it is not signed by the entitled producer's key", r.kind, desc)
		}
		r.rc.St.Probes["acc-entitled-accepted"]++
	case "single":
		if c.Proposer != r.singleMiner() {
			return r.viol("single-accepted-wrong-miner", "%s accepted, configured miner is %s", desc, shortAddr(r.singleMiner().Addr))
		}
		if !r.sigOK(c, blk) {
			return r.viol("single-accepted-bad-signature", "%s accepted although the configured miner's key did not sign it", desc)
		}
		r.rc.St.Probes["acc-entitled-accepted"]++
	case "pow":
		bc := r.p.Pow.Bitcoin
		pt, pok := c16RefTarget(bc, c.Prescribed)
		h := c16HashInt(c.ID)
		if c.Ts < c.ParentTs {
			return r.viol("pow-accepted-timestamp-before-parent", "%s accepted, parent timestamp %d", desc, c.ParentTs)
		}
		if !c.PreErr && c.Bits != c.Prescribed || pok && h.Cmp(pt) > 0 {
			clause := "pow-accepted-foreign-target"
			if c.Claimed != c.TrueHeight && c.Bits == c.ByClaimed {
				// exactly: the unauthenticated height field of the block chose the target
				clause = "pow-target-from-claimed-height"
			}
			return r.viol(clause, "%s accepted with bits %#x (hash %x...), the chain's history prescribes bits %#x at height %d (the same computation for the claimed height %d gives %#x); hash above the prescribed target: %v", desc, c.Bits, c.ID[:4], c.Prescribed, c.TrueHeight, c.Claimed, c.ByClaimed, pok && h.Cmp(pt) > 0)
		}
		if !pok {
			return r.viol("pow-accepted-invalid-target", "%s accepted with prescribed bits %#x that decode to no valid target", desc, c.Prescribed)
		}
		if c.RefViol != "" {
			return r.viol("pow-retarget-not-prescribed-by-history", "%s accepted with the bits %#x the node itself prescribes at height %d, but %s", desc, c.Prescribed, c.TrueHeight, c.RefViol)
		}
		r.rc.St.Probes["acc-entitled-accepted"]++
		if c.Prescribed != r.p.Pow.Default {
			r.rc.St.Probes["pow-accepted-after-retarget"]++
		}
	}
	return nil
}

// ---- compact encodings --------------------------------------------------------------------------------

func (r *c16run) execCompact() *Violation {
	p := r.p
	var encs []uint32
	mants := []uint32{0, 1, 0x7f, 0x80, 0xff, 0x100, 0x7fff, 0x8000, 0xffff, 0x10000, 0x7fffff, 0x800000, 0x800001, 0x80ffff, 0xffffff, 0x00ff00, 0x123456}
	for size := uint32(0); size <= 40; size++ {
		for _, m := range mants {
			encs = append(encs, size<<24|m)
		}
	}
	for _, m := range mants {
		encs = append(encs, 0xff<<24|m, 0x80<<24|m)
	}
	encs = append(encs, p.Compacts...)
	two256 := new(big.Int).Lsh(big.NewInt(1), 256)
	maxT, _ := c16RefCompact(p.MaxEnc)
	for _, c := range encs {
		r.rc.St.Steps++
		ref, neg := c16RefCompact(c)
		got, gneg, gover := pow.SetCompact(c)
		r.rc.St.Probes["compact-decoded"]++
		if !gneg && !gover {
			if neg {
				return r.viol("compact-negative-accepted", "SetCompact(%#x) reports a usable target although the encoding is negative", c)
			}
			if got.Cmp(ref) != 0 {
				return r.viol("compact-decode-differs", "SetCompact(%#x) = %x, the encoding denotes %x", c, got, ref)
			}
			if ref.Sign() > 0 && ref.Cmp(two256) < 0 {
				// re-encoding must not change the target
				c2, ok := pow.GetCompact(new(big.Int).Set(ref))
				if ok {
					back, neg2 := c16RefCompact(c2)
					r.rc.St.Probes["compact-roundtrip"]++
					if neg2 || back.Cmp(ref) != 0 {
						return r.viol("compact-reencode-differs", "GetCompact(%x) = %#x which denotes %x (from encoding %#x)", ref, c2, back, c)
					}
				}
			}
		} else {
			r.rc.St.Probes["compact-refused-encoding"]++
		}
		// the proof check around the boundary of this encoding's target
		if ref.Cmp(two256) < 0 {
			for _, d := range []int64{-1, 0, 1, 2} {
				hv := new(big.Int).Add(ref, big.NewInt(d))
				if hv.Sign() < 0 || hv.Cmp(two256) >= 0 {
					continue
				}
				id := c16IntBytes32(hv)
				if pow.XsimIsProofed(true, p.MaxEnc, id, c) {
					r.rc.St.Probes["compact-proof-accepted"]++
					if neg || hv.Cmp(ref) > 0 {
						return r.viol("proof-above-target", "IsProofed(hash %x, bits %#x) holds, the encoding denotes target %x (negative %v)", hv, c, ref, neg)
					}
				} else {
					r.rc.St.Probes["compact-proof-refused"]++
				}
			}
		}
	}
	// re-encoding of arbitrary targets never loosens them and keeps at least 15 significant bits
	for _, c := range p.Compacts {
		n := new(big.Int).SetUint64(uint64(c)*2654435761 + 1)
		n.Lsh(n, uint(c>>24)%200)
		n.Add(n, big.NewInt(int64(c&0xffff)))
		c2, ok := pow.GetCompact(new(big.Int).Set(n))
		if !ok {
			continue
		}
		back, neg := c16RefCompact(c2)
		r.rc.St.Probes["compact-encoded"]++
		lo := new(big.Int).Sub(n, new(big.Int).Rsh(n, 15))
		if neg || back.Cmp(n) > 0 || back.Cmp(lo) < 0 {
			return r.viol("compact-encode-differs", "GetCompact(%x) = %#x which denotes %x", n, c2, back)
		}
	}
	// leading-zero style
	for bits := uint32(0); bits <= 256; bits += 1 + uint32(p.Seed%3) {
		t, _ := c16RefTarget(false, bits)
		for _, d := range []int64{-1, 0, 1} {
			hv := new(big.Int).Add(t, big.NewInt(d))
			if hv.Sign() < 0 || hv.Cmp(two256) >= 0 {
				continue
			}
			if pow.XsimIsProofed(false, 256, c16IntBytes32(hv), bits) && hv.Cmp(t) > 0 {
				return r.viol("proof-above-target", "IsProofed(hash %x, %d leading zero bits) holds, target %x", hv, bits, t)
			}
			r.rc.St.Probes["zero-bits-proof-checked"]++
		}
	}
	_ = maxT
	r.rc.St.States[fmt.Sprintf("compact max %#x", p.MaxEnc)] = true
	r.logf("compact: %d encodings", len(encs))
	return nil
}
