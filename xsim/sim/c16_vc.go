package sim

import (
	"bytes"
	"encoding/json"
	"fmt"
	"math/big"
	"strings"
	"time"

	"github.com/xuperchain/xupercore/bcs/consensus/xpoa"
	"github.com/xuperchain/xupercore/bcs/ledger/xledger/state"
	lpb "github.com/xuperchain/xupercore/bcs/ledger/xledger/xldgpb"
	"github.com/xuperchain/xupercore/kernel/consensus"
	pb "github.com/xuperchain/xupercore/protos"
)

// ---- C16: xpoa runs whose validator list is changed on chain ------------------------------------------
//
// The list is changed by real transactions that invoke the xpoa kernel contract's editValidates
// method (pre-executed by the receiving node's Chain.PreExec, signed, carried by an honest block
// that goes through Chain.ProcBlock like every other candidate). The oracle keeps its own record
// of the lists and of the heights of the blocks that installed them (c16Epoch) and judges a
// candidate against the reference rotation (c16RefXpoaEntitled) under the list(s) that may govern
// its height (c16Admissible): one list for heights before a change and c16Window or more blocks
// after it, either of two lists in between.

// c16VC is the harness' record of an xpoa run with validator changes.
type c16VC struct {
	epochs  []c16Epoch // lists installed so far; [0] is the configured one
	done    int        // events of the plan performed so far
	pool    []*Acct    // identities lists are drawn from
	byAddr  map[string]*Acct
	lastErr string // what the receiver answered to the last delivery
}

func (r *c16run) vcInit() {
	vc := &c16VC{byAddr: map[string]*Acct{}}
	for i := 0; i < c16Pool; i++ {
		vc.pool = append(vc.pool, Accts[i])
		vc.byAddr[Accts[i].Addr] = Accts[i]
	}
	vc.epochs = []c16Epoch{{H: 0, Set: append([]string{}, r.valAddrs...)}}
	r.vc = vc
	r.setBasis(vc.epochs[0].Set)
}

// setBasis makes `set` the list the candidate builder works with: r.valAddrs (rotation) and r.ids
// (the list's members in list order, then the other identities of the pool).
func (r *c16run) setBasis(set []string) {
	r.valAddrs = append([]string{}, set...)
	in := map[string]bool{}
	ids := make([]*Acct, 0, c16Pool)
	for _, a := range set {
		ids = append(ids, r.vc.byAddr[a])
		in[a] = true
	}
	for _, a := range r.vc.pool {
		if !in[a.Addr] {
			ids = append(ids, a)
		}
	}
	r.ids = ids
}

func (r *c16run) vcAddrs(idx []int) []string {
	var out []string
	for _, i := range idx {
		out = append(out, Accts[i].Addr)
	}
	return out
}

// vcEvents performs the plan's events that are due before step i.
func (r *c16run) vcEvents(i int, cursor *int64) *Violation {
	vc := r.vc
	for vc.done < len(r.p.VC) && r.p.VC[vc.done].At <= i {
		ev := &r.p.VC[vc.done]
		vc.done++
		switch ev.Kind {
		case 0:
			if v := r.vcEdit(ev, cursor); v != nil {
				return v
			}
		case 1:
			r.vcReopen()
		case 2:
			r.vcCompete()
		}
	}
	return nil
}

// vcHonestBlock builds and delivers a block of the producer entitled at its own timestamp, carrying
// txs. While two lists are admissible the producer of the older list is tried first, then the one of
// the newer list.
func (r *c16run) vcHonestBlock(cursor *int64, what string, txs []*lpb.Transaction) (bool, *Violation) {
	for sel := 0; sel < 2; sel++ {
		time.Sleep(time.Millisecond)
		st := &C16Step{SetSel: sel}
		r.extraTxs = txs
		c := r.buildCand(st, cursor)
		r.logf("%s block %s (list choice %d of %d)", what, hx(c.ID), sel, len(c.Adm))
		r.rc.St.Probes["xpoa-"+what+"-block-built"]++
		if v := r.deliver(c, st, 0, cursor); v != nil {
			return false, v
		}
		if r.r.L.ExistBlock(c.ID) {
			return true, nil
		}
		if len(c.Adm) < 2 {
			break
		}
	}
	return false, nil
}

// vcEdit changes the validator list on chain and appends the event's filler blocks.
func (r *c16run) vcEdit(ev *C16Ev, cursor *int64) *Violation {
	vc := r.vc
	// changes are kept c16Window blocks apart, so that never more than two lists are admissible
	for n := 0; n < 2*c16Window; n++ {
		last := vc.epochs[len(vc.epochs)-1]
		if len(vc.epochs) == 1 || r.tipOf(r.r).Height+1 >= last.H+c16Window {
			break
		}
		ok, v := r.vcHonestBlock(cursor, "spacer", nil)
		if v != nil {
			return v
		}
		if !ok {
			r.rc.St.Probes["xpoa-spacer-block-refused"]++
		}
	}
	if last := vc.epochs[len(vc.epochs)-1]; len(vc.epochs) > 1 && r.tipOf(r.r).Height+1 < last.H+c16Window {
		r.rc.St.Probes["xpoa-edit-skipped-window-open"]++
		return nil
	}
	newSet := r.vcAddrs(ev.Set)
	tx := r.vcEditTx(r.r, newSet)
	if tx == nil {
		return nil
	}
	ok, v := r.vcHonestBlock(cursor, "edit", []*lpb.Transaction{tx})
	if v != nil {
		return v
	}
	if !ok {
		r.rc.St.Probes["xpoa-edit-block-refused"]++
		return nil
	}
	r.vcInstalled(r.r, newSet)
	for i := 0; i < ev.Fill; i++ {
		ok, v := r.vcHonestBlock(cursor, "filler", nil)
		if v != nil {
			return v
		}
		if !ok {
			r.rc.St.Probes["xpoa-filler-block-refused"]++
		}
	}
	return nil
}

// vcInstalled records that n's tip block installed newSet; the harness makes sure the change really
// is in n's state by asking the contract.
func (r *c16run) vcInstalled(n *Node, newSet []string) {
	vc := r.vc
	tip := r.tipOf(n)
	if !bytes.Equal(tip.Blockid, n.L.GetMeta().TipBlockid) {
		panic("c16: the node stored the block that changes the validators but did not apply it")
	}
	if got := r.vcQuery(n); strings.Join(got, ";") != strings.Join(newSet, ";") {
		panic(fmt.Sprintf("c16: after the change the contract reports validators %v, want %v", c16Shorts(got), c16Shorts(newSet)))
	}
	old := vc.epochs[len(vc.epochs)-1]
	vc.epochs = append(vc.epochs, c16Epoch{H: tip.Height, Set: newSet})
	r.rc.St.Probes["xpoa-validator-set-changed"]++
	switch {
	case len(newSet) > len(old.Set):
		r.rc.St.Probes["xpoa-validator-set-grew"]++
	case len(newSet) < len(old.Set):
		r.rc.St.Probes["xpoa-validator-set-shrank"]++
	default:
		r.rc.St.Probes["xpoa-validator-set-same-size"]++
	}
	r.rc.St.States[fmt.Sprintf("xpoa change %d->%d", len(old.Set), len(newSet))] = true
	r.logf("validators %v -> %v by block %s at height %d", c16Shorts(old.Set), c16Shorts(newSet), hx(tip.Blockid), tip.Height)
}

// vcContract is the name under which an xpoa instance without bft_config registers its kernel contract.
var vcContracts = []string{"$poa", "$xpoa"}

// vcQuery reads the validator list through the contract's getValidates method.
func (r *c16run) vcQuery(n *Node) []string {
	for _, name := range vcContracts {
		req := &pb.InvokeRequest{ModuleName: "xkernel", ContractName: name, MethodName: "getValidates", Args: map[string][]byte{}}
		resp, err := n.Chain.PreExec(n.BaseCtx(), []*pb.InvokeRequest{req}, Accts[0].Addr, []string{Accts[0].Addr})
		if err != nil || len(resp.Responses) == 0 {
			continue
		}
		var out struct {
			Address []string `json:"address"`
		}
		if json.Unmarshal(resp.Responses[len(resp.Responses)-1].Body, &out) != nil {
			continue
		}
		return out.Address
	}
	return nil
}

// vcEditTx builds the transaction that installs newSet: editValidates pre-executed on node n. The
// method wants a threshold authorisation (rule 1) naming validators of the list the executing node
// schedules, more than half of them: all of them are named, weight 1 each, and sign the transaction.
func (r *c16run) vcEditTx(n *Node, newSet []string) *lpb.Transaction {
	aks := xpoa.XsimValidators(consensus.XsimCurrent(n.Ctx.Consensus))
	weights := map[string]float64{}
	var signers []*Acct
	for _, a := range aks {
		weights[a] = 1
		s := r.vc.byAddr[a]
		if s == nil {
			panic("c16: a scheduled validator is not one of the harness identities")
		}
		signers = append(signers, s)
	}
	wj, err := json.Marshal(weights)
	must(err)
	args := map[string][]byte{
		"validates":   []byte(strings.Join(newSet, ";")),
		"aksWeight":   wj,
		"rule":        []byte("1"),
		"acceptValue": []byte(fmt.Sprint(len(aks))),
	}
	from := Accts[0]
	var resp *pb.InvokeResponse
	for _, name := range vcContracts {
		req := &pb.InvokeRequest{ModuleName: "xkernel", ContractName: name, MethodName: "editValidates", Args: args}
		resp, err = n.Chain.PreExec(n.BaseCtx(), []*pb.InvokeRequest{req}, from.Addr, aks)
		if err == nil {
			break
		}
	}
	if err != nil {
		r.rc.St.Probes["xpoa-edit-preexec-refused"]++
		r.logf("editValidates %v refused by pre-execution: %v", c16Shorts(newSet), err)
		return nil
	}
	// the fee is paid from a spendable output of the initiator
	us, err := n.ListUtxos(from.Addr)
	must(err)
	need := big.NewInt(resp.GasUsed)
	var in []UtxoRef
	for _, u := range us {
		if u.Frozen == 0 && u.Amount.Cmp(need) >= 0 {
			in = append(in, u)
			break
		}
	}
	if len(in) == 0 {
		panic("c16: the initiator cannot pay the fee of editValidates")
	}
	tx, err := BuildTx(&TxSpec{From: from, Version: 3, Invoke: resp, Inputs: in, AuthRequire: aks, Signers: signers})
	must(err)
	r.logf("editValidates %v authorised by %v: tx %s", c16Shorts(newSet), c16Shorts(aks), hx(tx.Txid))
	return tx
}

// vcReopen restarts the receiving node: a new process on (a copy of) its disk.
func (r *c16run) vcReopen() {
	n, err := r.w.NodeOnDisk("r", r.p.RKey, r.r.Disk.Clone())
	if err != nil {
		panic(fmt.Sprintf("c16: reopen the receiver: %v", err))
	}
	r.rc.OnCleanup(n.Drop)
	r.r = n
	r.plug = consensus.XsimCurrent(n.Ctx.Consensus)
	r.ctx = n.BaseCtx()
	r.rc.BG = nil
	r.rc.St.Probes["xpoa-receiver-reopened"]++
	if len(r.vc.epochs) > 1 {
		r.rc.St.Probes["xpoa-receiver-reopened-after-change"]++
	}
	r.logf("receiver re-opened at height %d, schedules %v", r.tipOf(n).Height, c16Shorts(xpoa.XsimValidators(r.plug)))
}

// vcCompete lets the receiving node take a miner's turn decision (which refreshes the list it schedules).
func (r *c16run) vcCompete() {
	before := strings.Join(xpoa.XsimValidators(r.plug), ";")
	h := r.tipOf(r.r).Height + 1
	isMiner, _, err := r.r.Ctx.Consensus.CompeteMaster(h)
	r.rc.BG = nil
	r.rc.St.Probes["xpoa-receiver-competed"]++
	after := xpoa.XsimValidators(r.plug)
	if strings.Join(after, ";") != before {
		r.rc.St.Probes["xpoa-compete-refreshed-cached-list"]++
	}
	r.logf("receiver CompeteMaster(%d) -> miner=%v err=%v, schedules %v", h, isMiner, err, c16Shorts(after))
}

// vcCloneBuilder restarts the builder on a copy of the receiver's disk.
func (r *c16run) vcCloneBuilder() {
	n, err := r.w.NodeOnDisk("b", r.p.RKey, r.r.Disk.Clone())
	if err != nil {
		panic(fmt.Sprintf("c16: clone the builder: %v", err))
	}
	r.rc.OnCleanup(n.Drop)
	r.b = n
	r.bplg = consensus.XsimCurrent(n.Ctx.Consensus)
	r.rc.BG = nil
}

// vcDescribe says which list(s) govern a candidate and whom they entitle.
func (r *c16run) vcDescribe(c *c16Cand) string {
	s := &r.p.Sch
	var parts []string
	for i, e := range c.Adm {
		since := "the configured list"
		if e.H > 0 {
			since = fmt.Sprintf("installed on chain by the block at height %d", e.H)
		}
		parts = append(parts, fmt.Sprintf("%v (%s) entitles %s", c16Shorts(e.Set), since, shortAddr(c.EntAll[i])))
	}
	amb := "one validator list governs its height: "
	if len(c.Adm) > 1 {
		amb = fmt.Sprintf("its height lies within %d blocks after a change, so either validator list may govern it: ", c16Window)
	}
	return fmt.Sprintf("%s%s at its timestamp (period %d ms, block_num %d); the receiving node schedules %d cached validators", amb, strings.Join(parts, "; "), s.Period, s.BlockNum, len(xpoa.XsimValidators(r.plug)))
}

// vcCount counts what kind of judgement a candidate got.
func (r *c16run) vcCount(c *c16Cand, accepted bool) {
	pr := r.rc.St.Probes
	if len(c.Adm) > 1 {
		pr["xpoa-judged-in-transition-window"]++
		return
	}
	if len(r.vc.epochs) == 1 {
		pr["xpoa-judged-before-any-change"]++
		return
	}
	if c.Adm[0].H == 0 {
		pr["xpoa-judged-before-change-height"]++
	} else {
		pr["xpoa-judged-after-change"]++
	}
	if len(xpoa.XsimValidators(r.plug)) != len(c.Adm[0].Set) {
		pr["xpoa-judged-with-stale-cache"]++
		if accepted {
			pr["xpoa-stale-cache-accepted"]++
		} else {
			pr["xpoa-stale-cache-refused"]++
		}
	}
}

// vcAccepted judges a candidate the receiver stored.
func (r *c16run) vcAccepted(c *c16Cand, blk *lpb.InternalBlock, desc string) *Violation {
	if c.Ts < 0 {
		r.rc.St.Probes["xpoa-negative-timestamp-not-judged"]++
		return nil
	}
	r.vcCount(c, true)
	entitled := false
	for _, e := range c.EntAll {
		if e != "" && e == c.Proposer.Addr {
			entitled = true
		}
	}
	if !entitled {
		if c.Claimed != c.TrueHeight {
			for _, e := range c16Admissible(r.vc.epochs, c.Claimed) {
				if c16RefXpoaEntitled(c.Ts, r.p.Sch.Period, r.p.Sch.BlockNum, e.Set) == c.Proposer.Addr {
					// exactly: the unauthenticated height field of the block chose the validator list
					return r.viol("xpoa-validators-from-claimed-height", "xpoa: %s accepted; %s; the proposer is the one the list %v entitles, which governs the height the block claims for itself (the height field is not covered by the block id or the signature, the ledger stores the block at its true height)", desc, r.vcDescribe(c), c16Shorts(e.Set))
				}
			}
		}
		return r.viol("accepted-wrong-producer", "xpoa: %s accepted; %s", desc, r.vcDescribe(c))
	}
	if !r.sigOK(c, blk) {
		return r.viol("accepted-not-from-producer", "xpoa: %s accepted although it is not signed by the entitled producer's key", desc)
	}
	r.rc.St.Probes["acc-entitled-accepted"]++
	return nil
}

// vcRefused judges a candidate the receiver did not store: an honest block of the producer that
// every admissible list entitles, extending the receiver's tip, must not fail the producer check.
func (r *c16run) vcRefused(c *c16Cand) *Violation {
	if c.Ts < 0 {
		return nil
	}
	r.vcCount(c, false)
	if !r.honest(c) {
		return nil
	}
	blk := r.blocks[string(c.ID)]
	if !bytes.Equal(blk.PreHash, r.r.L.GetMeta().TipBlockid) {
		r.rc.St.Probes["xpoa-honest-refused-off-tip"]++
		return nil
	}
	if !bytes.Equal(r.r.S.GetLatestBlockid(), r.r.L.GetMeta().TipBlockid) {
		// (the lists are read through the state: a receiver whose state lags its ledger is another story)
		r.rc.St.Probes["xpoa-honest-refused-state-behind"]++
		return nil
	}
	// what refused it? only a refusal by the producer check concerns this property
	ok, err := r.r.Ctx.Consensus.CheckMinerMatch(r.r.BaseCtx(), state.NewBlockAgent(CloneBlock(blk)))
	if ok {
		r.rc.St.Probes["xpoa-honest-refused-not-by-schedule"]++
		if strings.Contains(r.vc.lastErr, "forbidden") {
			// (the receiver is still waiting for the height an earlier accepted block claimed)
			r.rc.St.Probes["xpoa-honest-refused-not-by-schedule-forbidden"]++
		} else {
			r.rc.St.Probes["xpoa-honest-refused-not-by-schedule-other"]++
			r.logf("honest block %s refused, not by the producer check: %s", hx(c.ID), r.vc.lastErr)
		}
		return nil
	}
	desc := fmt.Sprintf("block %s (step %d, proposer %s, honest key and height %d, timestamp %d ns)", hx(c.ID), c.Step, shortAddr(c.Proposer.Addr), c.TrueHeight, c.Ts)
	return r.viol("honest-block-refused", "xpoa: %s is refused by the receiving node's producer check (%v); %s", desc, err, r.vcDescribe(c))
}

// vcTilePrepare grows a short chain on the swept node - a block, the block with the change, the
// event's filler blocks (at least c16Window) - performs the node's role event and makes the new
// list the one the sweep is judged against.
func (r *c16run) vcTilePrepare() {
	r.vcInit()
	n := r.r
	mine := func() {
		time.Sleep(time.Millisecond)
		if _, err := n.Mine(MineOpts{MaxTx: -1}); err != nil {
			panic(fmt.Sprintf("c16: tile chain: %v", err))
		}
		r.rc.BG = nil
	}
	mine()
	var newSet []string
	for i := range r.p.VC {
		ev := &r.p.VC[i]
		switch ev.Kind {
		case 0:
			newSet = r.vcAddrs(ev.Set)
			tx := r.vcEditTx(n, newSet)
			if tx == nil {
				panic("c16: tile chain: editValidates refused")
			}
			if err := n.Chain.SubmitTx(n.BaseCtx(), CloneTx(tx)); err != nil {
				panic(fmt.Sprintf("c16: tile chain: submit: %v", err))
			}
			r.rc.BG = nil
			mine()
			r.vcInstalled(n, newSet)
			for j := 0; j < ev.Fill || j < c16Window; j++ {
				mine()
			}
		case 1:
			r.vcReopen()
			n = r.r
		case 2:
			r.vcCompete()
		}
	}
	if newSet == nil {
		panic("c16: tile plan without a change")
	}
	r.setBasis(newSet)
	r.rc.St.Probes["tile-after-validator-change"]++
	if len(xpoa.XsimValidators(r.plug)) != len(newSet) {
		r.rc.St.Probes["tile-with-stale-cache"]++
	}
}
