package sim

import (
	"pgregory.net/rapid"
)

// C14Plan is one complete C14 run.
//
// Mode "enum": validator set of N <= 4 (5 in the thorough tier) members; ALL multisets of size
// 0..N+2 over the entry universe of c14Universe are enumerated in a fixed order and the ones whose
// ordinal is congruent to Slice modulo Slices are executed (every (N, Slice) pair together is the
// exhaustive set). Mode "sample": explicit certificates drawn around the threshold for N <= 10.
type C14Plan struct {
	Seed      uint64    `json:"seed"`
	N         int       `json:"n"`
	Rot       int       `json:"rot"`       // which fixed identities form the validator set
	Collector int       `json:"collector"` // member index of the collector (proposer of the carrying proposal / block)
	Acceptor  int       `json:"acceptor"`  // member index of the checking node; N = a non-validator node
	Mode      string    `json:"mode"`
	Slice     int       `json:"slice"`
	Slices    int       `json:"slices"`
	Order     int       `json:"order"` // enum: 0 universe order (valid entries first), 1 reversed, 2 rotated by ordinal
	Batch     int       `json:"batch"` // enum, collect path: 0 one entry per vote message, 1 everything in the first message, 2 first two entries in one message
	Certs     []C14Cert `json:"certs,omitempty"`
	Chain     string    `json:"chain,omitempty"` // "", "xpoa", "tdpos": also present certificates as justify of real blocks
	ChainMax  int       `json:"chain_max,omitempty"`
	VC        *C14VC    `json:"vc,omitempty"` // xpoa chain path only: the validator set is changed on chain and certificates keep being judged
}

// c14Ids is the number of fixed identities validator sets are drawn from: identity j of a plan is
// Accts[(Rot+j) % c14Ids]; the configured (old) set is j = 0..N-1.
const c14Ids = 14

// C14VC describes a validator change made on the booted xpoa+BFT chain by a real editValidates
// transaction, and how far the chain is then driven. The harness finds out by itself (from the
// node) from which view on the new list is in force.
type C14VC struct {
	New  []int `json:"new"`           // the new validator list: identities j (see c14Ids), in list order
	Pre  int   `json:"pre,omitempty"` // honest blocks between the height-2 stage and the block that carries the change
	Tail int   `json:"tail"`          // heights judged beyond the boundary height
	Sel  int   `json:"sel,omitempty"` // varies the collectors (= producers of the judged candidate blocks)
	Max  int   `json:"max"`           // plan certificates presented per collector at the boundary height, half as many at the others (the motif certificates come on top)
}

// genC14VC draws a validator change for an old set of n members: kind 1 replaces d members by d
// fresh identities, 2 adds fresh identities, 3 removes members, 4 removes and adds independently.
func genC14VC(rt *rapid.T, n, kind int) *C14VC {
	vc := &C14VC{Max: 6}
	maxAdd := c14Ids - n
	if maxAdd > 4 {
		maxAdd = 4
	}
	drop, add := 0, 0
	if kind == 3 && n == 1 {
		kind = 1
	}
	switch kind {
	case 1:
		m := maxAdd
		if n < m {
			m = n
		}
		drop = rapid.IntRange(1, m).Draw(rt, "vc-replace")
		add = drop
	case 2:
		add = rapid.IntRange(1, maxAdd).Draw(rt, "vc-add")
	case 3:
		drop = rapid.IntRange(1, n-1).Draw(rt, "vc-drop")
	default:
		drop = rapid.IntRange(0, n-1).Draw(rt, "vc-drop")
		add = rapid.IntRange(0, maxAdd).Draw(rt, "vc-add")
		if drop+add == 0 {
			add = 1
		}
	}
	for n-drop+add > 11 { // at least three identities stay outside every set
		add--
	}
	if drop+add == 0 {
		drop = 1
	}
	dropAt := rapid.IntRange(0, n-1).Draw(rt, "vc-dropat")
	dropped := map[int]bool{}
	for i := 0; i < drop; i++ {
		dropped[(dropAt+i)%n] = true
	}
	var kept, fresh []int
	for i := 0; i < n; i++ {
		if !dropped[i] {
			kept = append(kept, i)
		}
	}
	for j := 0; j < add; j++ {
		fresh = append(fresh, n+j)
	}
	switch rapid.IntRange(0, 2).Draw(rt, "vc-order") {
	case 0:
		vc.New = append(append(vc.New, kept...), fresh...)
	case 1:
		vc.New = append(append(vc.New, fresh...), kept...)
	default:
		for i := 0; i < len(kept) || i < len(fresh); i++ {
			if i < len(fresh) {
				vc.New = append(vc.New, fresh[i])
			}
			if i < len(kept) {
				vc.New = append(vc.New, kept[i])
			}
		}
	}
	vc.Pre = rapid.IntRange(0, 2).Draw(rt, "vc-pre")
	vc.Tail = rapid.IntRange(1, 5).Draw(rt, "vc-tail")
	vc.Sel = rapid.IntRange(0, 7).Draw(rt, "vc-sel")
	return vc
}

// c14Universe lists the entry universe used by the exhaustive enumeration for a validator set of
// n members with the given collector: a valid signature of every member (the collector's last),
// two outsiders, and for the non-valid kinds the first and the last non-collector member (the
// collector itself when n == 1).
func c14Universe(n, coll int) []C14Entry {
	var others []int
	for i := 0; i < n; i++ {
		if i != coll {
			others = append(others, i)
		}
	}
	var u []C14Entry
	for _, m := range others {
		u = append(u, C14Entry{K: C14Valid, W: m})
	}
	u = append(u, C14Entry{K: C14Valid, W: coll})
	u = append(u, C14Entry{K: C14Outsider, W: 0}, C14Entry{K: C14Outsider, W: 1})
	bad := []int{coll}
	if len(others) == 1 {
		bad = []int{others[0]}
	} else if len(others) > 1 {
		bad = []int{others[0], others[len(others)-1]}
	}
	for i, m := range bad {
		u = append(u, C14Entry{K: C14WrongID, W: m, X: i})
	}
	for i, m := range bad {
		u = append(u, C14Entry{K: C14Corrupt, W: m, X: i})
	}
	for i, m := range bad {
		u = append(u, C14Entry{K: C14Mismatch, W: m, X: i * 2})
	}
	u = append(u, C14Entry{K: C14Mismatch, W: bad[0], X: 1})
	return u
}

// c14EnumMultisets calls f(ordinal, indices) for every multiset (non-decreasing index sequence)
// of size 0..maxSize over a universe of u elements, in a fixed order.
func c14EnumMultisets(u, maxSize int, f func(ord int, idx []int)) int {
	ord := 0
	cur := make([]int, 0, maxSize)
	var rec func(start, left int)
	rec = func(start, left int) {
		f(ord, cur)
		ord++
		if left == 0 {
			return
		}
		for i := start; i < u; i++ {
			cur = append(cur, i)
			rec(i, left-1)
			cur = cur[:len(cur)-1]
		}
	}
	rec(0, maxSize)
	return ord
}

// c14Slices is the number of slices the enumeration for n is cut into.
func c14Slices(n int, tier string) int {
	switch {
	case n <= 2:
		return 1
	case n == 3:
		return 8
	case n == 4:
		return 48
	}
	return 256
}

// GenC14Plan draws a plan. The smallest values are the benign ones (small validator set, valid
// entries only, canonical order, one signature per vote message, no chain).
func GenC14Plan(rt *rapid.T, tier string) *C14Plan {
	p := &C14Plan{}
	p.Seed = rapid.Uint64Range(1, 1<<40).Draw(rt, "seed")
	p.Rot = rapid.IntRange(0, 13).Draw(rt, "rot")
	maxEnum := 4
	if tier == "thorough" {
		maxEnum = 5
	}
	if rapid.IntRange(0, 9).Draw(rt, "mode") < 6 {
		p.Mode = "enum"
		// weight the sizes by the work they need
		ws := []int{1, 2, 3, 3, 4, 4, 4, 4, 4, 4, 4, 4}
		if maxEnum == 5 {
			ws = append(ws, 5, 5, 5, 5, 5, 5, 5, 5, 5, 5, 5, 5, 5, 5, 5, 5, 5, 5, 5, 5, 5, 5, 5, 5)
		}
		p.N = rapid.SampledFrom(ws).Draw(rt, "n")
		p.Slices = c14Slices(p.N, tier)
		p.Slice = rapid.IntRange(0, p.Slices-1).Draw(rt, "slice")
		p.Order = rapid.IntRange(0, 2).Draw(rt, "order")
		p.Batch = rapid.IntRange(0, 2).Draw(rt, "batch")
	} else {
		p.Mode = "sample"
		p.N = rapid.IntRange(1, 10).Draw(rt, "n")
	}
	p.Collector = rapid.IntRange(0, p.N-1).Draw(rt, "collector")
	if p.N == 1 {
		p.Acceptor = 1
	} else {
		p.Acceptor = rapid.IntRange(0, p.N-1).Draw(rt, "acceptor")
		if p.Acceptor >= p.Collector {
			p.Acceptor++ // any member but the collector, or N = a node outside the validator set
		}
	}
	if rapid.IntRange(0, 3).Draw(rt, "chain") == 3 {
		p.Chain = rapid.SampledFrom([]string{"xpoa", "tdpos"}).Draw(rt, "chainkind")
		p.ChainMax = 24
	}
	if p.Mode == "sample" {
		nc := rapid.IntRange(1, 24).Draw(rt, "ncerts")
		if tier == "thorough" {
			nc = rapid.IntRange(1, 64).Draw(rt, "ncerts2")
		}
		for i := 0; i < nc; i++ {
			p.Certs = append(p.Certs, genC14Cert(rt, p.N, p.Collector))
		}
	}
	// drawn last (the draws above are what they were before validator changes existed); 0 = no change.
	// Only plans whose smr-level part is cheap get a change (explicit certificates, or the enumeration
	// for n <= 2): rapid minimises a failing plan by re-executing variants of it, one whole execution
	// per step and without looking at the clock inside a step, and a failure of the change stage must
	// not drag an n = 3 / 4 enumeration slice through every one of those steps.
	if p.Chain == "xpoa" && (p.Mode == "sample" || p.N <= 2) {
		if kind := rapid.IntRange(0, 4).Draw(rt, "vc"); kind > 0 {
			p.VC = genC14VC(rt, p.N, kind)
		}
	}
	return p
}

// genC14Cert draws one certificate near the threshold: d distinct valid members other than the
// collector (d within [thr-2, thr+1]) and up to five extra entries of the kinds that must not help.
func genC14Cert(rt *rapid.T, n, coll int) C14Cert {
	thr := C14Threshold(n)
	var others []int
	for i := 0; i < n; i++ {
		if i != coll {
			others = append(others, i)
		}
	}
	d := thr + rapid.IntRange(-2, 1).Draw(rt, "d")
	if d < 0 {
		d = 0
	}
	if d > len(others) {
		d = len(others)
	}
	var c C14Cert
	off := 0
	if len(others) > 0 {
		off = rapid.IntRange(0, len(others)-1).Draw(rt, "off")
	}
	for i := 0; i < d; i++ {
		c.E = append(c.E, C14Entry{K: C14Valid, W: others[(off+i)%len(others)]})
	}
	extra := rapid.IntRange(0, 5).Draw(rt, "extra")
	for i := 0; i < extra; i++ {
		kind := rapid.SampledFrom([]string{"repeat", "repeat", "repeat-fresh", "collector", "collector", "outsider", "wrongid", "corrupt", "mismatch", "mismatch"}).Draw(rt, "xkind")
		w := rapid.IntRange(0, n-1).Draw(rt, "w")
		x := rapid.IntRange(0, 2).Draw(rt, "x")
		switch kind {
		case "repeat", "repeat-fresh":
			e := C14Entry{K: C14Valid, W: coll}
			if d > 0 {
				e.W = others[(off+w%d)%len(others)]
			}
			if kind == "repeat-fresh" {
				e.X = 1 + x
			}
			c.E = append(c.E, e)
		case "collector":
			c.E = append(c.E, C14Entry{K: C14Valid, W: coll, X: x % 2})
		case "outsider":
			c.E = append(c.E, C14Entry{K: C14Outsider, W: x})
		case "wrongid":
			c.E = append(c.E, C14Entry{K: C14WrongID, W: w, X: x})
		case "corrupt":
			c.E = append(c.E, C14Entry{K: C14Corrupt, W: w, X: x})
		case "mismatch":
			c.E = append(c.E, C14Entry{K: C14Mismatch, W: w, X: x})
		}
	}
	// presentation order: a drawn shuffle (Fisher-Yates from a drawn seed)
	if len(c.E) > 1 && rapid.Bool().Draw(rt, "shuffle") {
		s := rapid.Uint64Range(1, 1<<32).Draw(rt, "shufseed")
		for i := len(c.E) - 1; i > 0; i-- {
			s = s*6364136223846793005 + 1442695040888963407
			j := int((s >> 33) % uint64(i+1))
			c.E[i], c.E[j] = c.E[j], c.E[i]
		}
	}
	// vote-message batching for the collect path
	if len(c.E) > 1 && rapid.IntRange(0, 3).Draw(rt, "batched") == 3 {
		left := len(c.E)
		for left > 0 {
			b := rapid.IntRange(1, left).Draw(rt, "b")
			c.Batch = append(c.Batch, b)
			left -= b
		}
	}
	return c
}
