package sim

import (
	"bytes"
	"encoding/hex"
	"fmt"
	"math/big"
	"sort"

	lpb "github.com/xuperchain/xupercore/bcs/ledger/xledger/xldgpb"
)

// Reference model of the chain state, written from the property statements (C01-C03, C17, C18):
// a UTXO map, a versioned key/value map and the total supply obtained by folding the blocks
// genesis..B in order. It never looks at how xupercore stores anything.

// MUtxo is one unspent output in the model.
type MUtxo struct {
	Amount *big.Int
	Frozen int64
}

// MVer is the current version of a key in the model.
type MVer struct {
	Txid    []byte
	Off     int32
	Value   []byte
	Deleted bool
}

// MState is the model state after a sequence of blocks (plus optionally pool transactions).
type MState struct {
	Utxo       map[string]MUtxo // addr_txidhex_offset
	KV         map[string]MVer  // bucket/key
	Total      *big.Int         // sum of coinbase outputs applied
	PendingFee *big.Int         // fee outputs of pool transactions
	Height     int64
	// SpentBy / SupersededBy record who consumed what (double-spend scan)
	SpentBy map[string]string
}

func NewMState() *MState {
	return &MState{Utxo: map[string]MUtxo{}, KV: map[string]MVer{}, Total: new(big.Int), PendingFee: new(big.Int), SpentBy: map[string]string{}, Height: -1}
}

func (s *MState) Clone() *MState {
	n := NewMState()
	for k, v := range s.Utxo {
		n.Utxo[k] = v
	}
	for k, v := range s.KV {
		n.KV[k] = v
	}
	for k, v := range s.SpentBy {
		n.SpentBy[k] = v
	}
	n.Total.Set(s.Total)
	n.PendingFee.Set(s.PendingFee)
	n.Height = s.Height
	return n
}

func utxoKey(addr []byte, txid []byte, off int32) string {
	return fmt.Sprintf("%s_%x_%d", addr, txid, off)
}

const delFlag = "\x00"
const transientBucket = "$transient"

// Stale describes why a transaction's inputs are not current ("" if they are).
func (s *MState) Stale(tx *lpb.Transaction, ledgerHeight int64) string {
	seen := map[string]bool{}
	for _, in := range tx.TxInputs {
		k := utxoKey(in.FromAddr, in.RefTxid, in.RefOffset)
		if seen[k] {
			return "duplicate input " + k
		}
		seen[k] = true
		u, ok := s.Utxo[k]
		if !ok {
			return "input not unspent " + k
		}
		if u.Amount.Cmp(new(big.Int).SetBytes(in.Amount)) != 0 {
			return "input amount differs " + k
		}
		if u.Frozen == -1 || u.Frozen > ledgerHeight {
			return "input frozen " + k
		}
	}
	for _, in := range tx.TxInputsExt {
		k := in.Bucket + "/" + string(in.Key)
		cur, ok := s.KV[k]
		if len(in.RefTxid) == 0 {
			if ok {
				return "read of absent key but key exists " + k
			}
			continue
		}
		if !ok || !bytes.Equal(cur.Txid, in.RefTxid) || cur.Off != in.RefOffset {
			return "read version not current " + k
		}
	}
	return ""
}

// Balanced reports whether inputs and outputs (fee included) have equal sums.
func Balanced(tx *lpb.Transaction) bool {
	in, out := new(big.Int), new(big.Int)
	for _, i := range tx.TxInputs {
		in.Add(in, new(big.Int).SetBytes(i.Amount))
	}
	for _, o := range tx.TxOutputs {
		out.Add(out, new(big.Int).SetBytes(o.Amount))
	}
	return in.Cmp(out) == 0
}

// Apply applies a transaction. proposer == "" means the transaction is pending (pool): its fee
// outputs are not credited to anybody yet.
func (s *MState) Apply(tx *lpb.Transaction, proposer string) {
	txh := hex.EncodeToString(tx.Txid)
	for _, in := range tx.TxInputs {
		k := utxoKey(in.FromAddr, in.RefTxid, in.RefOffset)
		delete(s.Utxo, k)
		s.SpentBy[k] = txh
	}
	for off, o := range tx.TxOutputs {
		amt := new(big.Int).SetBytes(o.Amount)
		if tx.Coinbase {
			s.Total.Add(s.Total, amt)
		}
		if string(o.ToAddr) == "$" {
			if proposer == "" {
				s.PendingFee.Add(s.PendingFee, amt)
			} else if amt.Sign() != 0 {
				s.Utxo[utxoKey([]byte(proposer), tx.Txid, int32(off))] = MUtxo{Amount: amt}
			}
			continue
		}
		if amt.Sign() == 0 {
			continue // a zero-value output carries no token and is not an unspent output
		}
		s.Utxo[utxoKey(o.ToAddr, tx.Txid, int32(off))] = MUtxo{Amount: amt, Frozen: o.FrozenHeight}
	}
	for off, o := range tx.TxOutputsExt {
		if o.Bucket == transientBucket {
			continue
		}
		k := o.Bucket + "/" + string(o.Key)
		if old, ok := s.KV[k]; ok {
			s.SpentBy["kv:"+k+"@"+fmt.Sprintf("%x_%d", old.Txid, old.Off)] = txh
		}
		s.KV[k] = MVer{Txid: tx.Txid, Off: int32(off), Value: o.Value, Deleted: string(o.Value) == delFlag}
	}
}

// SumUtxo returns the sum of all unspent outputs and per-address balances.
func (s *MState) SumUtxo() (*big.Int, map[string]*big.Int) {
	tot := new(big.Int)
	bal := map[string]*big.Int{}
	for k, u := range s.Utxo {
		tot.Add(tot, u.Amount)
		a := addrOfKey(k)
		if bal[a] == nil {
			bal[a] = new(big.Int)
		}
		bal[a].Add(bal[a], u.Amount)
	}
	return tot, bal
}

func addrOfKey(k string) string {
	// addr_txid_off ; addr itself may contain '_'
	n := 0
	for i := len(k) - 1; i >= 0; i-- {
		if k[i] == '_' {
			n++
			if n == 2 {
				return k[:i]
			}
		}
	}
	return k
}

// SortedUtxoKeys returns the unspent-output keys in order.
func (s *MState) SortedUtxoKeys() []string {
	ks := make([]string, 0, len(s.Utxo))
	for k := range s.Utxo {
		ks = append(ks, k)
	}
	sort.Strings(ks)
	return ks
}

// MBlock is a block as the harness knows it (pristine copy, as produced).
type MBlock struct {
	ID       []byte
	Pre      []byte
	Height   int64
	Proposer string
	Block    *lpb.InternalBlock
	Seq      int // creation order
	Valid    bool
}

// ChainModel is the block store of the model plus memoised states.
type ChainModel struct {
	Blocks map[string]*MBlock
	Order  []*MBlock
	states map[string]*MState
	Root   []byte
}

func NewChainModel() *ChainModel {
	return &ChainModel{Blocks: map[string]*MBlock{}, states: map[string]*MState{}}
}

// Add registers a block (pristine copy).
func (c *ChainModel) Add(b *lpb.InternalBlock, height int64) *MBlock {
	if mb, ok := c.Blocks[string(b.Blockid)]; ok {
		return mb
	}
	mb := &MBlock{ID: b.Blockid, Pre: b.PreHash, Height: height, Proposer: string(b.Proposer), Block: b, Seq: len(c.Order), Valid: true}
	c.Blocks[string(b.Blockid)] = mb
	c.Order = append(c.Order, mb)
	if len(b.PreHash) == 0 {
		c.Root = b.Blockid
	}
	return mb
}

// StateAt folds genesis..id.
func (c *ChainModel) StateAt(id []byte) (*MState, error) {
	if s, ok := c.states[string(id)]; ok {
		return s, nil
	}
	mb, ok := c.Blocks[string(id)]
	if !ok {
		return nil, fmt.Errorf("model: unknown block %x", id)
	}
	var s *MState
	if len(mb.Pre) == 0 {
		s = NewMState()
	} else {
		p, err := c.StateAt(mb.Pre)
		if err != nil {
			return nil, err
		}
		s = p.Clone()
	}
	for _, tx := range mb.Block.Transactions {
		s.Apply(tx, mb.Proposer)
	}
	s.Height = mb.Height
	c.states[string(id)] = s
	return s, nil
}

// Path returns the ids genesis..id.
func (c *ChainModel) Path(id []byte) ([]*MBlock, error) {
	var p []*MBlock
	for {
		mb, ok := c.Blocks[string(id)]
		if !ok {
			return nil, fmt.Errorf("model: unknown block %x", id)
		}
		p = append(p, mb)
		if len(mb.Pre) == 0 {
			break
		}
		id = mb.Pre
	}
	for i, j := 0, len(p)-1; i < j; i, j = i+1, j-1 {
		p[i], p[j] = p[j], p[i]
	}
	return p, nil
}

// IsAncestor reports whether a is on the path genesis..b.
func (c *ChainModel) IsAncestor(a, b []byte) bool {
	for {
		if bytes.Equal(a, b) {
			return true
		}
		mb, ok := c.Blocks[string(b)]
		if !ok || len(mb.Pre) == 0 {
			return false
		}
		b = mb.Pre
	}
}
