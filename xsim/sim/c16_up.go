package sim

import (
	"bytes"
	"encoding/json"
	"fmt"
	"math/big"
	"os"
	"path/filepath"
	"strings"
	"time"

	"github.com/xuperchain/xupercore/bcs/consensus/pow"
	"github.com/xuperchain/xupercore/bcs/ledger/xledger/ledger"
	"github.com/xuperchain/xupercore/bcs/ledger/xledger/state"
	lpb "github.com/xuperchain/xupercore/bcs/ledger/xledger/xldgpb"
	"github.com/xuperchain/xupercore/kernel/consensus"
	pb "github.com/xuperchain/xupercore/protos"

	"xsim/simkv"
)

// ---- C16: runs whose consensus is upgraded on chain ---------------------------------------------------
//
// The chain starts under `single` (miner M0 = Accts[0]). A real transaction invoking the
// updateConsensus method of the $consensus kernel contract (pre-executed by a real node's
// Chain.PreExec, signed, carried by an honest block of M0 that goes through Chain.ProcBlock like
// every other candidate) appends a new configuration to the chain's history of configurations. The
// harness asks the receiving node after every block which instance is in charge; from the moment
// the new one is, candidates are built and judged under the new rule by the unchanged acceptance
// oracle of the property. A block of the superseded producer M0 that is perfectly valid under the
// old rule (valid signature, no proof of work, any timestamp) must then be refused - by the node
// that saw the upgrade happen and by every node that restarts on the same disk, whatever goes wrong
// while it rebuilds its instances from the persisted history. A restart that fails (cleanly or with
// a crash) accepts nothing and is outside the statement.

const (
	upBefore = iota // the genesis rule is in force
	upInForce
	upFailed // the upgrade did not happen (refused by pre-execution / never came into force): the run goes on under the genesis rule
)

type c16UpRun struct {
	u       *C16Up
	state   int
	miner   *Acct  // the miner of the `single` configuration in force (nil: M0)
	height  int64  // height of the block that carried the upgrade
	since   int64  // first height for which the receiving node had the new instance in charge (asked, not computed)
	kind    string // instance in charge on the node that saw the upgrade happen: the latest configuration
	idx     int    //   ... and its index in the history of configurations
	lastErr string // what the receiver answered to the last delivery
	ended   bool   // no further block is possible (the new rule prescribes a target nothing can meet)

	bootDisk *simkv.Disk // disk of the node that is starting up (nil: none)
	trace    []c16Ctor   // constructor calls seen during that start-up
}

// c16Ctor is one call of a consensus plugin constructor during a start-up: which configuration entry
// it was for and which reads of the disk (counted from the arming of the disk) fall into it.
type c16Ctor struct {
	Name     string
	Index    int
	From, To int // reads [From, To)
	Done     bool
	Built    bool
}

func (up *c16UpRun) refCovers(h, gap int64) bool {
	// the retarget reference speaks about windows of proof-of-work blocks only
	return up.state == upInForce && h-gap-1 > up.height
}

func (r *c16run) upCtorHook(name string, index int, done, built bool) {
	up := r.up
	if up == nil || up.bootDisk == nil {
		return
	}
	_, rd, _ := up.bootDisk.Seq()
	if !done {
		up.trace = append(up.trace, c16Ctor{Name: name, Index: index, From: rd, To: -1})
		return
	}
	for i := len(up.trace) - 1; i >= 0; i-- {
		if t := &up.trace[i]; t.Name == name && t.Index == index && !t.Done {
			t.To, t.Done, t.Built = rd, true, built
			return
		}
	}
}

// upBoot starts a node on disk d as a process start does; a crash of the start-up is caught.
func (r *c16run) upBoot(name string, d *simkv.Disk) (n *Node, err error, pan string) {
	up := r.up
	up.bootDisk, up.trace = d, nil
	defer func() {
		up.bootDisk = nil
		r.rc.BG = nil
		if x := recover(); x != nil {
			pan = fmt.Sprint(x)
			n, err = nil, nil
			root := filepath.Join(r.w.Dir, fmt.Sprintf("%s-%d", name, r.w.seq))
			simkv.Unmount(root)
			os.RemoveAll(root)
		}
	}()
	n, err = r.w.NodeOnDisk(name, r.p.RKey, d)
	return n, err, ""
}

func c16PlugKind(plug interface{}) string {
	if plug == nil {
		return ""
	}
	t := fmt.Sprintf("%T", plug)
	for _, k := range []string{"single", "pow", "xpoa", "tdpos"} {
		if strings.HasPrefix(t, "*"+k+".") {
			return k
		}
	}
	return t
}

// inCharge asks a node which instance its pluggable consensus dispatches to: the kind of plugin and
// the index of its configuration in the chain's history ("" when there is none).
func (r *c16run) inCharge(n *Node) (string, int) {
	k := c16PlugKind(consensus.XsimCurrent(n.Ctx.Consensus))
	if k == "" {
		return "", -1
	}
	st, err := n.Ctx.Consensus.GetConsensusStatus()
	if err != nil || st == nil {
		return k, -1
	}
	return k, st.GetStepConsensusIndex()
}

func (r *c16run) execUpgrade() *Violation {
	p, u := r.p, r.p.Up
	if u == nil {
		panic("c16: acc-upgrade plan without upgrade")
	}
	r.kind = "single"
	r.boot(true)
	r.up = &c16UpRun{u: u}
	r.rc.OnCleanup(consensus.XsimHookConstructors(r.upCtorHook))
	cursor := r.epochMs
	r.rc.St.States[fmt.Sprintf("upgrade single->%s %v %+v %+v harg%d", u.New, u.Set, p.Sch, p.Pow, u.HArg)] = true
	done := 0
	events := func(i int) *Violation {
		for done < len(u.Ev) && u.Ev[done].At <= i {
			ev := &u.Ev[done]
			done++
			if r.up.state != upInForce || r.up.ended {
				continue
			}
			if v := r.upEvent(ev, &cursor); v != nil {
				return v
			}
		}
		return nil
	}
	for i := range p.Steps {
		st := p.Steps[i]
		st.Hold = false // (blocks stacked across the upgrade are another story: every candidate is delivered at once)
		r.step = i
		r.rc.St.Steps++
		if r.up.state == upBefore && i >= u.Pre {
			if v := r.upUpgrade(&cursor); v != nil {
				return v
			}
		}
		if v := events(i); v != nil {
			return v
		}
		if r.up.ended || r.upHalted() {
			return nil
		}
		time.Sleep(time.Millisecond)
		c := r.buildCand(&st, &cursor)
		if v := r.deliver(c, &st, 0, &cursor); v != nil {
			return v
		}
	}
	r.step = len(p.Steps)
	return events(len(p.Steps))
}

// upConfig is the configuration the chain is upgraded to.
func (r *c16run) upConfig() (string, map[string]interface{}) {
	u, s, pw := r.p.Up, &r.p.Sch, &r.p.Pow
	switch u.New {
	case "pow":
		return "pow", map[string]interface{}{"defaultTarget": fmt.Sprint(pw.Default), "maxTarget": fmt.Sprint(pw.Max), "adjustHeightGap": fmt.Sprint(pw.Gap), "expectedPeriod": fmt.Sprint(pw.ExpMs)}
	case "xpoa":
		var addrs []string
		for _, i := range u.Set {
			addrs = append(addrs, Accts[i].Addr)
		}
		return "xpoa", map[string]interface{}{"period": s.Period, "block_num": s.BlockNum, "init_proposer": map[string]interface{}{"address": addrs}}
	case "single":
		return "single", map[string]interface{}{"miner": Accts[u.Set[0]].Addr, "period": "3000"}
	}
	panic("c16: unknown upgrade target " + u.New)
}

// upTx builds the transaction that upgrades the consensus: updateConsensus of the $consensus kernel
// contract, pre-executed by a node started for this purpose on a copy of the receiver's disk (the
// method builds and installs the new instance on whatever node executes it - also on one that only
// pre-executes).
func (r *c16run) upTx(heightArg int64) *lpb.Transaction {
	x, err, pan := r.upBoot("x", r.r.Disk.Clone())
	if x == nil {
		panic(fmt.Sprintf("c16: the pre-executing node does not start: %v %s", err, pan))
	}
	defer x.Drop()
	name, cfg := r.upConfig()
	aj, err := json.Marshal(map[string]interface{}{"name": name, "config": cfg})
	must(err)
	args := map[string][]byte{"height": []byte(fmt.Sprint(heightArg)), "args": aj}
	from := Accts[0]
	req := &pb.InvokeRequest{ModuleName: "xkernel", ContractName: "$consensus", MethodName: "updateConsensus", Args: args}
	resp, err := x.Chain.PreExec(x.BaseCtx(), []*pb.InvokeRequest{req}, from.Addr, []string{from.Addr})
	r.rc.BG = nil
	if err != nil {
		r.rc.St.Probes["upgrade-preexec-refused"]++
		if name == "single" {
			r.rc.St.Probes["upgrade-to-same-kind-refused"]++
		}
		r.logf("updateConsensus %s refused by pre-execution: %v", aj, err)
		return nil
	}
	us, err := x.ListUtxos(from.Addr)
	must(err)
	need := big.NewInt(resp.GasUsed)
	var in []UtxoRef
	for _, u := range us {
		if u.Frozen == 0 && u.Amount.Cmp(need) >= 0 {
			in = append(in, u)
			break
		}
	}
	if len(in) == 0 {
		panic("c16: the initiator cannot pay the fee of updateConsensus")
	}
	tx, err := BuildTx(&TxSpec{From: from, Version: 3, Invoke: resp, Inputs: in, AuthRequire: []string{from.Addr}, Signers: []*Acct{from}})
	must(err)
	r.logf("updateConsensus height=%d %s: tx %s", heightArg, aj, hx(tx.Txid))
	return tx
}

// upUpgrade performs the upgrade: the transaction, the honest block of M0 that carries it, and as many
// honest blocks of M0 as it takes until the receiving node says the new instance is in charge.
func (r *c16run) upUpgrade(cursor *int64) *Violation {
	up, u := r.up, r.p.Up
	up.state = upFailed
	k0, i0 := r.inCharge(r.r)
	h := r.tipOf(r.r).Height + 1
	harg := h + u.HArg
	if harg < 0 {
		harg = 0
	}
	tx := r.upTx(harg)
	if tx == nil {
		return nil
	}
	time.Sleep(time.Millisecond)
	st := &C16Step{Dt: 1000}
	r.extraTxs = []*lpb.Transaction{tx}
	c := r.buildCand(st, cursor)
	if v := r.deliver(c, st, 0, cursor); v != nil {
		return v
	}
	if !r.r.L.ExistBlock(c.ID) || !bytes.Equal(r.r.S.GetLatestBlockid(), c.ID) {
		r.rc.St.Probes["upgrade-block-refused"]++
		r.logf("the block carrying the upgrade was not applied: %s", up.lastErr)
		return nil
	}
	up.height = h
	r.rc.St.Probes["upgrade-confirmed"]++
	var k string
	var idx int
	for n := 0; ; n++ {
		k, idx = r.inCharge(r.r)
		if k != k0 || idx != i0 {
			break
		}
		if int64(n) > u.HArg+2 {
			r.rc.St.Probes["upgrade-never-in-force"]++
			r.logf("%d blocks after the upgrade the receiver still dispatches to %s #%d", n, k, idx)
			return nil
		}
		r.rc.St.Probes["upgrade-waited-a-block"]++
		if ok, v := r.upHonest(cursor, 1000); v != nil || !ok {
			return v
		}
	}
	if k != u.New {
		r.rc.St.Probes["upgrade-unexpected-instance"]++
		r.logf("after the upgrade the receiver dispatches to %s #%d", k, idx)
		return nil
	}
	up.kind, up.idx = k, idx
	up.since = r.tipOf(r.r).Height + 1
	up.state = upInForce
	r.kind = u.New
	pool := []*Acct{}
	for i := 0; i < c16Pool; i++ {
		pool = append(pool, Accts[i])
	}
	r.valAddrs, r.ids = nil, nil
	in := map[*Acct]bool{}
	switch u.New {
	case "xpoa":
		for _, i := range u.Set {
			r.valAddrs = append(r.valAddrs, Accts[i].Addr)
			r.ids = append(r.ids, Accts[i])
			in[Accts[i]] = true
		}
	case "single":
		up.miner = Accts[u.Set[0]]
		r.ids = append(r.ids, up.miner)
		in[up.miner] = true
	}
	for _, a := range pool {
		if !in[a] {
			r.ids = append(r.ids, a)
		}
	}
	r.plug = consensus.XsimCurrent(r.r.Ctx.Consensus)
	if kb, ib := r.inCharge(r.b); kb != k || ib != idx {
		r.upCloneBuilder()
	}
	r.bplg = consensus.XsimCurrent(r.b.Ctx.Consensus)
	if t := r.tipOf(r.r).Timestamp/1e6 + 1; t > *cursor {
		*cursor = t
	}
	nInst, _ := consensus.XsimInstances(r.r.Ctx.Consensus)
	r.rc.St.Probes["upgrade-in-force"]++
	r.rc.St.Probes["upgrade-to-"+k]++
	if up.since == up.height+1 {
		r.rc.St.Probes["upgrade-in-force-right-after-its-block"]++
	}
	r.logf("upgrade single -> %s #%d carried by the block at height %d (height argument %d): in charge on the receiver from height %d on (%d instances)", k, idx, up.height, harg, up.since, nInst)
	for i := 0; i < u.Fill && !up.ended; i++ {
		if _, v := r.upHonest(cursor, 1000); v != nil {
			return v
		}
	}
	return nil
}

// upCloneBuilder restarts the builder on a copy of the receiver's disk.
func (r *c16run) upCloneBuilder() {
	n, err, pan := r.upBoot("b", r.r.Disk.Clone())
	if n == nil {
		panic(fmt.Sprintf("c16: clone the builder: %v %s", err, pan))
	}
	r.rc.OnCleanup(n.Drop)
	r.b = n
	r.rc.St.Probes["upgrade-builder-restarted"]++
}

// upHalted says whether the new rule prescribes, for the next block, a target no header hash can meet.
func (r *c16run) upHalted() bool {
	up := r.up
	if up.state != upInForce || r.kind != "pow" {
		return false
	}
	tip := r.tipOf(r.b)
	bits, err, ok := pow.XsimRefresh(r.bplg, tip.Blockid, tip.Height+1)
	if !ok {
		panic("c16: the builder's instance in charge is not pow")
	}
	t, valid := c16RefTarget(r.p.Pow.Bitcoin, bits)
	if err == nil && valid && t.Sign() > 0 {
		return false
	}
	up.ended = true
	r.rc.St.Probes["upgrade-pow-prescribes-impossible-target"]++
	r.logf("the chain has halted: at height %d the history prescribes bits %#x (err %v)", tip.Height+1, bits, err)
	return true
}

// upHonest builds and delivers the block an honest producer entitled under the rule in force makes.
func (r *c16run) upHonest(cursor *int64, dtMs int64) (bool, *Violation) {
	if r.upHalted() {
		return false, nil
	}
	time.Sleep(time.Millisecond)
	st := &C16Step{Dt: dtMs}
	c := r.buildCand(st, cursor)
	if v := r.deliver(c, st, 0, cursor); v != nil {
		return false, v
	}
	return r.r.L.ExistBlock(c.ID), nil
}

// upOldCand builds, on the builder's tip, the block the superseded producer M0 would make under the
// superseded rule: its own signature, no proof of work, no regard for any slot schedule (nil: under
// the new rule M0 is the only validator, so no such block can be told from an honest one).
func (r *c16run) upOldCand(cursor *int64, dtMs int64) *c16Cand {
	m0 := Accts[0]
	parent := r.tipOf(r.b)
	ts := parent.Timestamp + dtMs*1e6
	if r.kind == "xpoa" {
		// an instant at which the new schedule does not happen to entitle M0
		found := false
		for t := *cursor; t < *cursor+20000; t++ {
			if l := r.label(t * 1e6); !l.Valid || l.Who != m0.Addr {
				ts, found = t*1e6, true
				*cursor = t
				break
			}
		}
		if !found {
			r.rc.St.Probes["upgrade-old-producer-always-entitled"]++
			return nil
		}
	}
	time.Sleep(time.Millisecond)
	c := &c16Cand{Step: r.step, Ts: ts, ParentTs: parent.Timestamp, TrueHeight: parent.Height + 1, Claimed: parent.Height + 1, Proposer: m0, Signer: m0, PubOf: m0, OldRule: true}
	blk, err := r.b.PackBlock(MineOpts{Proposer: m0, Timestamp: ts, MaxTx: 0})
	if err != nil {
		panic(fmt.Sprintf("c16: pack: %v", err))
	}
	blk.Timestamp = ts
	switch r.kind {
	case "xpoa":
		if l := r.label(ts); l.Valid {
			c.Entitled = l.Who
		}
	case "pow":
		bits, err, ok := pow.XsimRefresh(r.bplg, parent.Blockid, c.TrueHeight)
		if !ok {
			panic("c16: the builder's instance in charge is not pow")
		}
		c.Prescribed, c.PreErr, c.ByClaimed = bits, err != nil, bits
	}
	id, err := ledger.MakeBlockID(blk)
	must(err)
	blk.Blockid = id
	sig, err := Crypto.SignECDSA(m0.SK, id)
	must(err)
	blk.Sign = sig
	c.ID = id
	r.cands[string(id)] = c
	r.order = append(r.order, string(id))
	r.blocks[string(id)] = blk
	r.rc.St.Faults["byz-superseded-producer"]++
	r.logf("cand %s on %s: superseded producer %s under the superseded rule, ts=%d h=%d (new rule: entitled=%q presc=%x)", hx(id), hx(parent.Blockid), shortAddr(m0.Addr), ts, c.TrueHeight, shortAddr(c.Entitled), c.Prescribed)
	return c
}

func (r *c16run) upOldBlock(cursor *int64, dtMs int64) *Violation {
	if r.upHalted() {
		return nil
	}
	c := r.upOldCand(cursor, dtMs)
	if c == nil {
		return nil
	}
	return r.deliver(c, &C16Step{}, 0, cursor)
}

func (r *c16run) upDescribe() string {
	up := r.up
	return fmt.Sprintf("the chain was upgraded from single (miner %s) to %s by an updateConsensus transaction in the block at height %d; the node that processed it had the new instance (#%d of the history) in charge from height %d on", shortAddr(Accts[0].Addr), up.kind, up.height, up.idx, up.since)
}

// upRelabel names the violation of a superseded producer's block after what it is.
func (r *c16run) upRelabel(c *c16Cand, v *Violation) *Violation {
	if !c.OldRule || r.up.state != upInForce {
		return v
	}
	return r.viol("accepted-from-superseded-producer", "%s; a block of the superseded miner, valid under the superseded rule only, is accepted: %s", r.upDescribe(), v.Msg)
}

func (r *c16run) upAccepted(c *c16Cand) {
	if r.up.state != upInForce {
		return
	}
	switch {
	case c.OldRule:
		r.rc.St.Probes["upgrade-old-producer-block-valid-under-new-rule"]++
	case r.honest(c):
		r.rc.St.Probes["upgrade-new-rule-accepted"]++
	}
}

// upRefused looks at a refused candidate: a block of the superseded producer (fine), or an honest
// block under the rule in force. The latter concerns the property only when it is the producer check
// that refuses it although the rule in force admits it: the builder - another real node on the same
// chain under the same configuration, which never went down - is asked for its own producer check.
func (r *c16run) upRefused(c *c16Cand) *Violation {
	if r.up.state != upInForce {
		return nil
	}
	if c.OldRule {
		r.rc.St.Probes["upgrade-old-producer-refused"]++
		return nil
	}
	if !r.honest(c) || c.Ts < 0 {
		return nil
	}
	if r.kind == "pow" {
		// (an honest proof meets the prescribed target)
		if t, ok := c16RefTarget(r.p.Pow.Bitcoin, c.Prescribed); !ok || c.PreErr || c16HashInt(c.ID).Cmp(t) > 0 {
			return nil
		}
	}
	blk := r.blocks[string(c.ID)]
	if !bytes.Equal(blk.PreHash, r.r.L.GetMeta().TipBlockid) || !bytes.Equal(r.r.S.GetLatestBlockid(), r.r.L.GetMeta().TipBlockid) {
		r.rc.St.Probes["upgrade-honest-refused-off-tip"]++
		return nil
	}
	ok, err := r.r.Ctx.Consensus.CheckMinerMatch(r.r.BaseCtx(), state.NewBlockAgent(CloneBlock(blk)))
	if ok {
		r.rc.St.Probes["upgrade-honest-refused-not-by-producer-check"]++
		r.logf("honest block %s refused, not by the producer check: %s", hx(c.ID), r.up.lastErr)
		return nil
	}
	if !bytes.Equal(blk.PreHash, r.b.S.GetLatestBlockid()) {
		return nil
	}
	okb, _ := r.b.Ctx.Consensus.CheckMinerMatch(r.b.BaseCtx(), state.NewBlockAgent(CloneBlock(blk)))
	if !okb {
		r.rc.St.Probes["upgrade-honest-refused-by-the-rule-itself"]++
		return nil
	}
	kr, ir := r.inCharge(r.r)
	return r.viol("honest-block-refused", "%s; block %s (step %d, proposer %s, honest key and height %d, timestamp %d ns), made by the producer entitled under the new rule, fails the receiving node's producer check (%v; its instance in charge: %s #%d) while a node on the same chain that never restarted admits it", r.upDescribe(), hx(c.ID), c.Step, shortAddr(c.Proposer.Addr), c.TrueHeight, c.Ts, err, kr, ir)
}

func (r *c16run) upEvent(ev *C16UEv, cursor *int64) *Violation {
	switch ev.Kind {
	case 0:
		_, v := r.upHonest(cursor, ev.DtMs)
		return v
	case 1:
		return r.upOldBlock(cursor, ev.DtMs)
	case 2:
		return r.upRestart(cursor)
	case 5:
		return r.upPreExecOnly(cursor)
	default:
		return r.upFaultyRestart(ev, cursor)
	}
}

// latestCtor finds, in the trace of a start-up, the constructor call for the latest configuration.
func (r *c16run) latestCtor(trace []c16Ctor) *c16Ctor {
	for i := len(trace) - 1; i >= 0; i-- {
		if trace[i].Index == r.up.idx {
			return &trace[i]
		}
	}
	return nil
}

// upRestart re-opens the receiving node on a copy of its disk.
func (r *c16run) upRestart(cursor *int64) *Violation {
	h := r.tipOf(r.r).Height
	n, err, pan := r.upBoot("r", r.r.Disk.Clone())
	trace := r.up.trace
	switch {
	case pan != "":
		if lc := r.latestCtor(trace); lc != nil && lc.Done && !lc.Built {
			// the latest instance cannot be built from the chain as it stands: the start-up dies, nothing is accepted
			r.rc.St.Probes["upgrade-restart-panicked"]++
			r.rc.St.Probes["upgrade-restart-panicked-latest-instance-not-built"]++
			r.logf("receiver dies re-opening at height %d (the %s instance cannot be built): %s", h, lc.Name, firstLine(pan))
			return nil
		}
		return r.viol("restart-panics", "%s; re-opening the receiver on its own disk at height %d panics: %v", r.upDescribe(), h, pan)
	case err != nil:
		r.rc.St.Probes["upgrade-restart-refused"]++
		r.logf("receiver refuses to re-open at height %d: %v", h, err)
		return nil
	}
	r.rc.OnCleanup(n.Drop)
	if v := r.upCheckRestarted(n, "", "re-opened on a copy of its disk", cursor); v != nil {
		return v
	}
	r.r = n
	r.plug = consensus.XsimCurrent(n.Ctx.Consensus)
	r.ctx = n.BaseCtx()
	r.rc.St.Probes["upgrade-restart-ok"]++
	r.logf("receiver re-opened at height %d under %s #%d", h, r.up.kind, r.up.idx)
	// the superseded producer tries its luck at once
	return r.upOldBlock(cursor, 1000)
}

func firstLine(s string) string {
	if i := strings.IndexByte(s, '\n'); i >= 0 {
		return s[:i]
	}
	return s
}

func (r *c16run) procBlockOn(n *Node, blk *lpb.InternalBlock) (err error, pan string) {
	defer func() {
		r.rc.BG = nil
		if x := recover(); x != nil {
			pan = fmt.Sprint(x)
		}
	}()
	return n.Chain.ProcBlock(n.BaseCtx(), CloneBlock(blk)), ""
}

// upCheckRestarted judges a node that came up on the receiver's disk: its instance in charge must be
// the latest configuration of the chain's history. If it is not, a block of the superseded producer
// shows what follows.
func (r *c16run) upCheckRestarted(n *Node, where, how string, cursor *int64) *Violation {
	up := r.up
	k, idx := r.inCharge(n)
	if k == up.kind && idx == up.idx {
		return nil
	}
	nInst, nils := consensus.XsimInstances(n.Ctx.Consensus)
	if k == "" {
		// no instance in charge: every block is refused
		r.rc.St.Probes["upgrade-restarted-without-instance"]++
		r.logf("node %s has no instance in charge (%d instances, %d nil)", how, nInst, nils)
		return nil
	}
	h := r.tipOf(n).Height
	accepted, legit := false, false
	var c *c16Cand
	if !r.upHalted() {
		c = r.upOldCand(cursor, 1000)
	}
	msg := ""
	if c != nil {
		c.Judged = true
		perr, pan := r.procBlockOn(n, r.blocks[string(c.ID)])
		accepted = n.L.ExistBlock(c.ID)
		legit = accepted && r.judge(c) == nil
		r.logf("procblock %s on the restarted node -> stored=%v (%v %s)", hx(c.ID), accepted, perr, firstLine(pan))
		msg = fmt.Sprintf("block %s of the superseded miner %s for height %d (valid signature, no proof of work, timestamp %d ns) delivered to it is accepted: %v", hx(c.ID), shortAddr(c.Proposer.Addr), c.TrueHeight, c.Ts, accepted)
	}
	clause := "restart-under-superseded-consensus"
	if accepted && !legit {
		clause = "accepted-from-superseded-producer"
	}
	if where == "pre" {
		// the failing read came before any instance was built
		clause = "restart-ignores-consensus-history"
	}
	return r.viol(clause, "%s; a node %s at height %d comes up with %s #%d in charge (%d instances in its list, %d of them nil): %s", r.upDescribe(), how, h, k, idx, nInst, nils, msg)
}

// upFaultyRestart is a restart attempt on a copy of the receiver's disk during which one read fails.
// A dry start-up on another copy tells where the reads of the plugin constructors lie. The node
// that never went down goes on afterwards, whatever becomes of the attempt.
func (r *c16run) upFaultyRestart(ev *C16UEv, cursor *int64) *Violation {
	up := r.up
	h := r.tipOf(r.r).Height
	dry := r.r.Disk.Clone()
	dry.Arm(simkv.Faults{})
	n0, err0, pan0 := r.upBoot("d", dry)
	if n0 == nil {
		r.rc.St.Probes["upgrade-dry-restart-failed"]++
		r.logf("a restart at height %d fails without any fault: %v %s", h, err0, firstLine(pan0))
		return nil
	}
	_, total, _ := dry.Seq()
	trace := append([]c16Ctor{}, up.trace...)
	n0.Drop()
	if total == 0 || len(trace) == 0 {
		panic("c16: start-up without reads or constructor calls")
	}
	k := ev.Arg * total / 1000
	if lc := r.latestCtor(trace); ev.Kind == 3 && lc != nil && lc.To > lc.From {
		k = lc.From + ev.Arg%(lc.To-lc.From)
		r.rc.St.Probes["upgrade-fault-aimed-at-latest-constructor"]++
	} else if ev.Kind == 3 {
		r.rc.St.Probes["upgrade-latest-constructor-reads-nothing"]++
	}
	where := "post"
	if k < trace[0].From {
		where = "pre"
	}
	for _, t := range trace {
		if k >= t.From && k < t.To {
			where = fmt.Sprintf("ctor %s #%d", t.Name, t.Index)
		}
	}
	d := r.r.Disk.Clone()
	d.Arm(simkv.Faults{FailRead: map[int]bool{k: true}})
	n, err, pan := r.upBoot("f", d)
	fired := d.St.FailedReads > 0
	d.Disarm()
	if fired {
		r.rc.St.Faults["restart-read-fault"]++
	}
	how := fmt.Sprintf("restarted on a copy of the receiver's disk while read %d of %d of the start-up failed (%s)", k, total, where)
	switch {
	case pan != "":
		r.rc.St.Probes["upgrade-restart-panicked"]++
		r.logf("node %s at height %d dies: %s", how, h, firstLine(pan))
		return nil
	case err != nil:
		r.rc.St.Probes["upgrade-restart-refused"]++
		r.logf("node %s at height %d refuses to come up: %v", how, h, err)
		return nil
	}
	r.rc.OnCleanup(n.Drop)
	r.rc.St.Probes["upgrade-restart-under-fault-came-up"]++
	r.logf("node %s at height %d comes up (fault fired: %v)", how, h, fired)
	if v := r.upCheckRestarted(n, where, how, cursor); v != nil {
		return v
	}
	// a side branch: the superseded producer's block must be refused by this node as well
	if r.upHalted() {
		return nil
	}
	c := r.upOldCand(cursor, 1000)
	if c == nil {
		return nil
	}
	c.Judged = true
	perr, ppan := r.procBlockOn(n, r.blocks[string(c.ID)])
	r.logf("procblock %s on the restarted node -> stored=%v (%v %s)", hx(c.ID), n.L.ExistBlock(c.ID), perr, firstLine(ppan))
	if n.L.ExistBlock(c.ID) {
		if v := r.judge(c); v != nil {
			return r.viol("accepted-from-superseded-producer", "%s; a node %s at height %d (instance in charge: %s #%d) accepts a block of the superseded miner, valid under the superseded rule only: %s", r.upDescribe(), how, h, up.kind, up.idx, v.Msg)
		}
		r.rc.St.Probes["upgrade-old-producer-block-valid-under-new-rule"]++
	} else {
		r.rc.St.Probes["upgrade-old-producer-refused"]++
		r.rc.St.Probes["upgrade-old-producer-refused-after-faulty-restart"]++
	}
	return nil
}

// upPreExecOnly (event kind 5; the generator does not draw it yet): a client asks the receiving node
// to PRE-EXECUTE an updateConsensus request that names a configuration of the client's own choosing
// (xpoa with the client as the only validator). Nothing is signed, nothing is put on chain, so the
// rule of the chain is what it was. If the node's instance in charge changed nevertheless, the
// client's block shows what follows; the run ends there (the node is no longer what the chain says).
func (r *c16run) upPreExecOnly(cursor *int64) *Violation {
	up := r.up
	if r.kind != "pow" {
		r.rc.St.Probes["upgrade-preexec-only-skipped"]++
		return nil
	}
	att := Accts[5]
	cfg := map[string]interface{}{"period": 3000, "block_num": 10, "init_proposer": map[string]interface{}{"address": []string{att.Addr}}}
	aj, err := json.Marshal(map[string]interface{}{"name": "xpoa", "config": cfg})
	must(err)
	parent := r.tipOf(r.b)
	args := map[string][]byte{"height": []byte(fmt.Sprint(parent.Height + 1)), "args": aj}
	req := &pb.InvokeRequest{ModuleName: "xkernel", ContractName: "$consensus", MethodName: "updateConsensus", Args: args}
	_, perr := r.r.Chain.PreExec(r.r.BaseCtx(), []*pb.InvokeRequest{req}, att.Addr, []string{att.Addr})
	r.rc.BG = nil
	k, idx := r.inCharge(r.r)
	nInst, _ := consensus.XsimInstances(r.r.Ctx.Consensus)
	r.logf("a client pre-executes updateConsensus %s on the receiver (err %v): the receiver now dispatches to %s #%d (%d instances)", aj, perr, k, idx, nInst)
	if k == up.kind && idx == up.idx {
		r.rc.St.Probes["upgrade-preexec-only-left-the-rule-alone"]++
		return nil
	}
	up.ended = true
	time.Sleep(time.Millisecond)
	ts := parent.Timestamp + 1000*1e6
	blk, err := r.b.PackBlock(MineOpts{Proposer: att, Timestamp: ts, MaxTx: 0})
	if err != nil {
		panic(fmt.Sprintf("c16: pack: %v", err))
	}
	blk.Timestamp = ts
	id, err := ledger.MakeBlockID(blk)
	must(err)
	blk.Blockid = id
	sig, err := Crypto.SignECDSA(att.SK, id)
	must(err)
	blk.Sign = sig
	berr, pan := r.procBlockOn(r.r, blk)
	accepted := r.r.L.ExistBlock(id)
	r.logf("procblock %s (the client's own block, no proof of work) -> stored=%v (%v %s)", hx(id), accepted, berr, firstLine(pan))
	return r.viol("rule-changed-by-pre-execution", "%s; a client (%s, no validator, nothing on chain) has the receiving node PRE-EXECUTE an updateConsensus request for xpoa with itself as the only validator: the node now dispatches to %s #%d (%d instances in its list) although the chain's history of configurations is unchanged; the client's block %s for height %d (its own signature, no proof of work) delivered to the node is accepted: %v", r.upDescribe(), shortAddr(att.Addr), k, idx, nInst, hx(id), parent.Height+1, accepted)
}
