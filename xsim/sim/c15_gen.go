package sim

import (
	"pgregory.net/rapid"
)

// ---- C15 plan -----------------------------------------------------------------------------------
//
// A plan is a UNIVERSE (a tree of proposals below a genesis proposal: parent index and view of each)
// plus a sequence of message-level events aimed at one or two real Smr instances. Everything the
// events need (who signs a justify, who votes, whether a justify announces a commit, arrival order,
// duplicates, drops, rollbacks, restarts) is drawn here; execution is a pure function of the plan.

// C15Prop is one proposal of the universe. Index 0 is the genesis proposal (Parent = -1, View 0).
type C15Prop struct {
	Parent int   `json:"p"`
	View   int64 `json:"v"`
}

// C15Ev is one message-level event.
//
//	prop     proposal message for X (justify = QC of X's parent signed by Mask, proposer By, Commit =
//	         the justify announces a commit state) handed to handleReceivedProposal of node N
//	confirm  confirmed block X on node N: UpdateJustifyQcStatus(justify of X's parent signed by Mask)
//	         (K&1 == 0 only) followed by UpdateQcStatus(BlockToProposalNode(X))
//	justify  UpdateJustifyQcStatus(QC of X signed by Mask) alone
//	vote     vote message for X from validator By handed to handleReceivedVoteMsg of node N
//	rollback EnforceUpdateHighQC: K%3 == 0 -> X, 1 -> current generic marker (as tdpos does), 2 -> ledger tip
//	propose  real ProcessProposal on node N for the (X mod #children)-th universe child of its HighQC;
//	         the emitted message goes to the pool; K&1 == 1: also delivered to N itself at once
//	pool     the (K mod len)-th message emitted by a real node so far is delivered to node N
//	restart  node N is rebuilt from its ledger (InitQCTree + NewSmr + LoadVotes, as tdpos does)
type C15Ev struct {
	Op     string `json:"op"`
	N      int    `json:"n"`
	X      int    `json:"x"`
	Mask   int    `json:"mask,omitempty"`
	By     int    `json:"by,omitempty"`
	Commit bool   `json:"commit,omitempty"`
	K      int    `json:"k,omitempty"`
}

// C15Plan is a complete plan.
type C15Plan struct {
	Seed   uint64    `json:"seed"`
	Nodes  int       `json:"nodes"`
	Props  []C15Prop `json:"props"`
	Events []C15Ev   `json:"events"`
}

// C15Validators is the size of the validator set (identities sim.Accts[0..3]; node i owns key i, the
// other keys are held by the harness = Byzantine / remote validators).
const C15Validators = 4

const c15FullMask = 1<<C15Validators - 1

func c15Mask(rt *rapid.T) int {
	switch rapid.IntRange(0, 7).Draw(rt, "weak") {
	case 6:
		return rapid.IntRange(0, c15FullMask).Draw(rt, "mask")
	case 7:
		return 1 << uint(rapid.IntRange(0, C15Validators-1).Draw(rt, "single"))
	}
	return c15FullMask
}

// GenC15Plan draws a plan. Smallest values are the benign ones: a chain, delivered in order as
// confirmed blocks with full justifies, no extras.
func GenC15Plan(rt *rapid.T, tier string) *C15Plan {
	maxP, maxExtra, maxTail := 12, 2, 6
	if tier == "thorough" {
		maxP, maxExtra, maxTail = 16, 3, 12
	}
	pl := &C15Plan{}
	pl.Seed = rapid.Uint64Range(1, 1<<40).Draw(rt, "seed")
	pl.Nodes = 1
	if rapid.IntRange(0, 3).Draw(rt, "twonodes") == 3 {
		pl.Nodes = 2
	}
	n := rapid.IntRange(1, maxP).Draw(rt, "nprops")
	pl.Props = []C15Prop{{Parent: -1, View: 0}}
	for i := 1; i <= n; i++ {
		par := i - 1
		switch rapid.IntRange(0, 7).Draw(rt, "shape") {
		case 5: // competing child: sibling of the previous proposal
			if i >= 2 {
				par = pl.Props[i-1].Parent
			}
		case 6: // uncle
			if i >= 2 {
				par = i - 2
			}
		case 7:
			par = rapid.IntRange(0, i-1).Draw(rt, "parent")
		}
		gap := int64(0)
		if rapid.IntRange(0, 7).Draw(rt, "gap") == 7 {
			gap = 1
		}
		pl.Props = append(pl.Props, C15Prop{Parent: par, View: pl.Props[par].View + 1 + gap})
	}
	// arrival order of first deliveries
	order := make([]int, n)
	for i := range order {
		order[i] = i + 1
	}
	switch rapid.IntRange(0, 7).Draw(rt, "order") {
	case 1, 2: // a few local swaps
		k := rapid.IntRange(1, 4).Draw(rt, "swaps")
		for j := 0; j < k && n >= 2; j++ {
			a := rapid.IntRange(0, n-2).Draw(rt, "swapat")
			order[a], order[a+1] = order[a+1], order[a]
		}
	case 3: // one window reversed (children before parents)
		if n >= 2 {
			a := rapid.IntRange(0, n-2).Draw(rt, "wfrom")
			b := rapid.IntRange(a+1, n-1).Draw(rt, "wto")
			for a < b {
				order[a], order[b] = order[b], order[a]
				a, b = a+1, b-1
			}
		}
	case 4: // everything reversed
		for a, b := 0, n-1; a < b; a, b = a+1, b-1 {
			order[a], order[b] = order[b], order[a]
		}
	case 5, 6: // arbitrary permutation
		for a := n - 1; a > 0; a-- {
			b := rapid.IntRange(0, a).Draw(rt, "perm")
			order[a], order[b] = order[b], order[a]
		}
	}
	extra := func(upto int) {
		ev := C15Ev{N: rapid.IntRange(0, pl.Nodes-1).Draw(rt, "n")}
		// X is mostly one of the proposals delivered so far
		if upto > 0 && rapid.IntRange(0, 3).Draw(rt, "recent") != 3 {
			ev.X = order[rapid.IntRange(0, upto-1).Draw(rt, "xi")]
		} else {
			ev.X = rapid.IntRange(1, n).Draw(rt, "x")
		}
		switch rapid.IntRange(0, 15).Draw(rt, "extra") {
		case 0, 1, 2:
			ev.Op = "vote"
			ev.By = rapid.IntRange(0, C15Validators-1).Draw(rt, "by")
			pl.Events = append(pl.Events, ev)
		case 3, 4, 5: // a burst of votes from several validators
			m := rapid.IntRange(1, c15FullMask).Draw(rt, "voters")
			for v := 0; v < C15Validators; v++ {
				if m&(1<<uint(v)) != 0 {
					e := ev
					e.Op, e.By = "vote", v
					pl.Events = append(pl.Events, e)
				}
			}
		case 6:
			ev.Op, ev.Mask = "justify", c15Mask(rt)
			pl.Events = append(pl.Events, ev)
		case 7, 8:
			ev.Op, ev.K = "rollback", rapid.IntRange(0, 2).Draw(rt, "rbmode")
			pl.Events = append(pl.Events, ev)
		case 9, 10: // duplicate / late delivery as a message
			ev.Op, ev.Mask, ev.By = "prop", c15Mask(rt), rapid.IntRange(0, C15Validators-1).Draw(rt, "by")
			ev.Commit = rapid.IntRange(0, 1).Draw(rt, "commit") == 1
			pl.Events = append(pl.Events, ev)
		case 11: // duplicate / late delivery as a confirmed block
			ev.Op, ev.Mask, ev.K = "confirm", c15Mask(rt), rapid.IntRange(0, 1).Draw(rt, "nojustify")
			pl.Events = append(pl.Events, ev)
		case 12, 13:
			ev.Op, ev.K = "propose", rapid.IntRange(0, 1).Draw(rt, "self")
			pl.Events = append(pl.Events, ev)
		case 14:
			ev.Op, ev.K = "pool", rapid.IntRange(0, 63).Draw(rt, "pool")
			pl.Events = append(pl.Events, ev)
		case 15:
			ev.Op = "restart"
			if upto < 3 { // a restart before anything is on the ledger is the initial state again
				ev.Op, ev.Mask = "justify", c15FullMask
			}
			pl.Events = append(pl.Events, ev)
		}
	}
	for pos, x := range order {
		for nd := 0; nd < pl.Nodes; nd++ {
			kind := rapid.IntRange(0, 7).Draw(rt, "kind")
			if kind == 7 { // dropped on this node (may still arrive later as a duplicate)
				continue
			}
			if kind >= 3 {
				ev := C15Ev{Op: "prop", N: nd, X: x, Mask: c15Mask(rt), By: rapid.IntRange(0, C15Validators-1).Draw(rt, "by")}
				ev.Commit = rapid.IntRange(0, 1).Draw(rt, "commit") == 1
				pl.Events = append(pl.Events, ev)
			}
			if kind <= 2 || kind >= 5 {
				ev := C15Ev{Op: "confirm", N: nd, X: x, Mask: c15Mask(rt)}
				if rapid.IntRange(0, 5).Draw(rt, "nojustify") == 5 {
					ev.K = 1
				}
				pl.Events = append(pl.Events, ev)
			}
		}
		ne := rapid.IntRange(0, maxExtra).Draw(rt, "nextra")
		for j := 0; j < ne; j++ {
			extra(pos + 1)
		}
	}
	nt := rapid.IntRange(0, maxTail).Draw(rt, "ntail")
	for j := 0; j < nt; j++ {
		extra(n)
	}
	return pl
}
