// Package simkv is the simulated disk of xsim: an ordered in-memory key/value engine registered
// through the existing kvdb.Register seam under the name "simkv".
//
// Semantics mirror what xupercore relies on from the goleveldb driver (validated by the
// differential self-test in selftest_test.go): a single Put/Delete and a Batch.Write are each one
// atomic write unit; a batch keeps its operations after Write until Reset; iterators read a
// snapshot taken at creation; not-found errors end in "not found".
//
// A Disk outlives the "process" (the set of handles opened on it): every write unit of every
// database on the disk is appended to one global journal, which gives crash images at every
// write boundary, and a fault plan decides which write / read / iterator fails.
package simkv

import (
	"bytes"
	"errors"
	"fmt"
	"sort"
	"strings"
	"sync"

	"github.com/xuperchain/xupercore/lib/storage/kvdb"
)

var (
	// ErrNotFound must end with "not found" (def.NormalizedKVError, kvdb.ErrNotFound).
	ErrNotFound   = errors.New("simkv: not found")
	ErrInjWrite   = errors.New("simkv: injected write failure")
	ErrInjRead    = errors.New("simkv: injected read failure")
	ErrInjIter    = errors.New("simkv: injected iterator failure")
	ErrDiskFull   = errors.New("simkv: no space left on device")
	ErrClosedDisk = errors.New("simkv: process crashed")
)

// Op is one key operation inside a write unit.
type Op struct {
	K, V []byte
	Del  bool
}

// Unit is one atomic write unit (single put, single delete, or a batch).
type Unit struct {
	DB  string // database name relative to the disk ("xuper/ledger", "xuper/state")
	Ops []Op
}

type store struct {
	m    map[string][]byte
	keys []string // sorted
}

func newStore() *store { return &store{m: map[string][]byte{}} }

func (s *store) clone() *store {
	n := &store{m: make(map[string][]byte, len(s.m)), keys: append([]string(nil), s.keys...)}
	for k, v := range s.m {
		n.m[k] = v // values are immutable once stored
	}
	return n
}

func (s *store) put(k, v []byte) {
	ks := string(k)
	if _, ok := s.m[ks]; !ok {
		i := sort.SearchStrings(s.keys, ks)
		s.keys = append(s.keys, "")
		copy(s.keys[i+1:], s.keys[i:])
		s.keys[i] = ks
	}
	s.m[ks] = append([]byte{}, v...)
}

func (s *store) del(k []byte) {
	ks := string(k)
	if _, ok := s.m[ks]; !ok {
		return
	}
	delete(s.m, ks)
	i := sort.SearchStrings(s.keys, ks)
	s.keys = append(s.keys[:i], s.keys[i+1:]...)
}

func (s *store) apply(ops []Op) {
	for _, o := range ops {
		if o.Del {
			s.del(o.K)
		} else {
			s.put(o.K, o.V)
		}
	}
}

// Faults is the fault plan of a disk. Indices count events from the last Arm() call.
type Faults struct {
	FailWrite map[int]bool // k-th write unit fails, nothing applied
	FailRead  map[int]bool // k-th Get/Has fails
	FailIter  map[int]int  // k-th iterator created stops after n items with Error()!=nil
	DiskFull  bool         // every write fails
	CrashAt   int          // >0: after CrashAt write units have been applied every later op fails (process death); 0 = off
}

// Stats counts what actually happened.
type Stats struct {
	WriteUnits, Reads, Iters               int
	FailedWrites, FailedReads, FailedIters int
	CrashedOps                             int
}

// Disk is the durable medium of one node.
type Disk struct {
	mu      sync.Mutex
	dbs     map[string]*store
	journal []Unit
	jOn     bool
	f       Faults
	wSeq    int
	rSeq    int
	iSeq    int
	St      Stats
	crashed bool
	// Trace, when non-nil, receives a line per write unit (used by the determinism self-test)
	Trace func(string)
}

func NewDisk() *Disk { return &Disk{dbs: map[string]*store{}} }

// Clone returns an independent copy of the durable content (no journal, no faults).
func (d *Disk) Clone() *Disk {
	d.mu.Lock()
	defer d.mu.Unlock()
	n := NewDisk()
	for name, s := range d.dbs {
		n.dbs[name] = s.clone()
	}
	return n
}

// StartJournal begins recording write units (dropping any previous journal).
func (d *Disk) StartJournal() {
	d.mu.Lock()
	defer d.mu.Unlock()
	d.journal = nil
	d.jOn = true
}

// StopJournal stops recording and returns the units recorded.
func (d *Disk) StopJournal() []Unit {
	d.mu.Lock()
	defer d.mu.Unlock()
	d.jOn = false
	j := d.journal
	d.journal = nil
	return j
}

// JournalLen returns the number of units recorded so far.
func (d *Disk) JournalLen() int {
	d.mu.Lock()
	defer d.mu.Unlock()
	return len(d.journal)
}

// Apply applies a recorded unit to the disk (used to build crash images from a base clone).
func (d *Disk) Apply(u Unit) {
	d.mu.Lock()
	defer d.mu.Unlock()
	d.db(u.DB).apply(u.Ops)
}

// Arm installs a fault plan; event indices count from now.
func (d *Disk) Arm(f Faults) {
	d.mu.Lock()
	defer d.mu.Unlock()
	d.f = f
	d.wSeq, d.rSeq, d.iSeq = 0, 0, 0
	d.crashed = false
}

// Disarm removes all faults.
func (d *Disk) Disarm() { d.Arm(Faults{}) }

// Seq returns the number of write units / reads / iterators seen since the last Arm.
func (d *Disk) Seq() (w, r, i int) {
	d.mu.Lock()
	defer d.mu.Unlock()
	return d.wSeq, d.rSeq, d.iSeq
}

func (d *Disk) db(name string) *store {
	s, ok := d.dbs[name]
	if !ok {
		s = newStore()
		d.dbs[name] = s
	}
	return s
}

// Dump returns the sorted content of one database restricted to a key prefix.
func (d *Disk) Dump(name string, prefix string) [][2]string {
	d.mu.Lock()
	defer d.mu.Unlock()
	s := d.db(name)
	var out [][2]string
	i := sort.SearchStrings(s.keys, prefix)
	for ; i < len(s.keys) && strings.HasPrefix(s.keys[i], prefix); i++ {
		out = append(out, [2]string{s.keys[i], string(s.m[s.keys[i]])})
	}
	return out
}

// DBNames lists the databases present on the disk.
func (d *Disk) DBNames() []string {
	d.mu.Lock()
	defer d.mu.Unlock()
	var ns []string
	for n := range d.dbs {
		ns = append(ns, n)
	}
	sort.Strings(ns)
	return ns
}

// Equal reports whether two disks hold the same durable content; diff describes the first difference.
func (d *Disk) Equal(o *Disk) (bool, string) {
	for _, n := range d.DBNames() {
		a, b := d.Dump(n, ""), o.Dump(n, "")
		for i := 0; i < len(a) || i < len(b); i++ {
			if i >= len(a) {
				return false, fmt.Sprintf("%s: extra key %q in second", n, b[i][0])
			}
			if i >= len(b) {
				return false, fmt.Sprintf("%s: extra key %q in first", n, a[i][0])
			}
			if a[i] != b[i] {
				return false, fmt.Sprintf("%s: %q=%x vs %q=%x", n, a[i][0], a[i][1], b[i][0], b[i][1])
			}
		}
	}
	return true, ""
}

func (d *Disk) write(name string, ops []Op) error {
	d.mu.Lock()
	defer d.mu.Unlock()
	if d.crashed {
		d.St.CrashedOps++
		return ErrClosedDisk
	}
	k := d.wSeq
	d.wSeq++
	if d.f.DiskFull {
		d.St.FailedWrites++
		return ErrDiskFull
	}
	if d.f.FailWrite[k] {
		d.St.FailedWrites++
		return ErrInjWrite
	}
	d.St.WriteUnits++
	cp := make([]Op, len(ops))
	for i, o := range ops {
		cp[i] = Op{K: append([]byte{}, o.K...), V: append([]byte{}, o.V...), Del: o.Del}
	}
	d.db(name).apply(cp)
	if d.jOn {
		d.journal = append(d.journal, Unit{DB: name, Ops: cp})
	}
	if d.Trace != nil {
		d.Trace(fmt.Sprintf("w %s %d ops", name, len(cp)))
	}
	if d.f.CrashAt > 0 && d.wSeq >= d.f.CrashAt {
		d.crashed = true
	}
	return nil
}

func (d *Disk) read(name string, k []byte) ([]byte, bool, error) {
	d.mu.Lock()
	defer d.mu.Unlock()
	if d.crashed {
		d.St.CrashedOps++
		return nil, false, ErrClosedDisk
	}
	i := d.rSeq
	d.rSeq++
	d.St.Reads++
	if d.f.FailRead[i] {
		d.St.FailedReads++
		return nil, false, ErrInjRead
	}
	v, ok := d.db(name).m[string(k)]
	if !ok {
		return nil, false, nil
	}
	return append([]byte{}, v...), true, nil
}

func (d *Disk) iter(name string, start, limit []byte) *iter {
	d.mu.Lock()
	defer d.mu.Unlock()
	it := &iter{pos: -1, failAfter: -1}
	if d.crashed {
		d.St.CrashedOps++
		it.failAfter = 0
		it.ferr = ErrClosedDisk
		return it
	}
	n := d.iSeq
	d.iSeq++
	d.St.Iters++
	if fa, ok := d.f.FailIter[n]; ok {
		d.St.FailedIters++
		it.failAfter = fa
		it.ferr = ErrInjIter
	}
	s := d.db(name)
	lo := 0
	if start != nil {
		lo = sort.SearchStrings(s.keys, string(start))
	}
	hi := len(s.keys)
	if limit != nil {
		hi = sort.SearchStrings(s.keys, string(limit))
	}
	for i := lo; i < hi; i++ {
		it.ks = append(it.ks, []byte(s.keys[i]))
		it.vs = append(it.vs, s.m[s.keys[i]])
	}
	return it
}

// ---- mounting ---------------------------------------------------------------------------------

var (
	mountMu sync.Mutex
	mounts  = map[string]*Disk{} // root path prefix -> disk
)

// Mount makes every database path below root live on disk d.
func Mount(root string, d *Disk) {
	mountMu.Lock()
	defer mountMu.Unlock()
	mounts[strings.TrimRight(root, "/")] = d
}

// Unmount removes a mount.
func Unmount(root string) {
	mountMu.Lock()
	defer mountMu.Unlock()
	delete(mounts, strings.TrimRight(root, "/"))
}

func lookup(path string) (*Disk, string, error) {
	mountMu.Lock()
	defer mountMu.Unlock()
	best := ""
	for r := range mounts {
		if strings.HasPrefix(path, r+"/") && len(r) > len(best) {
			best = r
		}
	}
	if best == "" {
		return nil, "", fmt.Errorf("simkv: no disk mounted for %s", path)
	}
	rel := strings.TrimPrefix(path, best+"/")
	// name = last two components (chain/ledger|state)
	parts := strings.Split(rel, "/")
	if len(parts) > 2 {
		parts = parts[len(parts)-2:]
	}
	return mounts[best], strings.Join(parts, "/"), nil
}

func init() {
	kvdb.Register("simkv", func(p *kvdb.KVParameter) (kvdb.Database, error) {
		d, name, err := lookup(p.DBPath)
		if err != nil {
			return nil, err
		}
		return &DB{d: d, name: name}, nil
	})
}

// Open returns a handle on database name of disk d (for harness-side direct access).
func Open(d *Disk, name string) *DB { return &DB{d: d, name: name} }

// ---- kvdb.Database ----------------------------------------------------------------------------

// DB is a handle ("open database") on one database of a Disk.
type DB struct {
	d    *Disk
	name string
}

func (h *DB) Open(path string, options map[string]interface{}) error { return nil }
func (h *DB) Close()                                                 {}

func (h *DB) Put(k, v []byte) error { return h.d.write(h.name, []Op{{K: k, V: v}}) }
func (h *DB) Delete(k []byte) error { return h.d.write(h.name, []Op{{K: k, Del: true}}) }

func (h *DB) Get(k []byte) ([]byte, error) {
	v, ok, err := h.d.read(h.name, k)
	if err != nil {
		return nil, err
	}
	if !ok {
		return nil, ErrNotFound
	}
	return v, nil
}

func (h *DB) Has(k []byte) (bool, error) {
	_, ok, err := h.d.read(h.name, k)
	return ok, err
}

func (h *DB) NewBatch() kvdb.Batch { return &batch{h: h, keys: map[string]bool{}} }

func (h *DB) NewIteratorWithRange(start, limit []byte) kvdb.Iterator {
	return h.d.iter(h.name, start, limit)
}

func (h *DB) NewIteratorWithPrefix(prefix []byte) kvdb.Iterator {
	var start, limit []byte
	if len(prefix) > 0 {
		start = prefix
	}
	for i := len(prefix) - 1; i >= 0; i-- {
		if prefix[i] < 0xff {
			limit = append([]byte{}, prefix[:i+1]...)
			limit[i]++
			break
		}
	}
	return h.d.iter(h.name, start, limit)
}

type batch struct {
	h    *DB
	ops  []Op
	size int
	keys map[string]bool
}

func (b *batch) ValueSize() int { return b.size }
func (b *batch) Write() error   { return b.h.d.write(b.h.name, b.ops) }
func (b *batch) Reset()         { b.ops = nil; b.size = 0; b.keys = map[string]bool{} }
func (b *batch) Put(k, v []byte) error {
	b.ops = append(b.ops, Op{K: append([]byte{}, k...), V: append([]byte{}, v...)})
	b.size += len(v)
	return nil
}
func (b *batch) Delete(k []byte) error {
	b.ops = append(b.ops, Op{K: append([]byte{}, k...), Del: true})
	b.size += len(k)
	return nil
}
func (b *batch) PutIfAbsent(k, v []byte) error {
	if b.keys[string(k)] {
		return fmt.Errorf("duplicated key in batch, (HEX) %x", k)
	}
	b.keys[string(k)] = true
	return b.Put(k, v)
}
func (b *batch) Exist(k []byte) bool { return b.keys[string(k)] }

// iter follows goleveldb's iterator protocol: positioned before the first element after creation,
// Next from the last element leaves it exhausted (Key()==nil), Prev from exhausted goes to last.
type iter struct {
	ks, vs    [][]byte
	pos       int // -1 before first, len after last
	failAfter int // -1: no fault; else Next fails after that many successful items
	ferr      error
	served    int
	failed    bool
	released  bool
}

func (it *iter) valid() bool { return !it.released && !it.failed && it.pos >= 0 && it.pos < len(it.ks) }
func (it *iter) Key() []byte {
	if !it.valid() {
		return nil
	}
	return it.ks[it.pos]
}
func (it *iter) Value() []byte {
	if !it.valid() {
		return nil
	}
	return it.vs[it.pos]
}
func (it *iter) step() bool {
	if it.failAfter >= 0 && it.served >= it.failAfter {
		it.failed = true
		return false
	}
	it.served++
	return true
}
func (it *iter) Next() bool {
	if it.released || it.failed {
		return false
	}
	if it.pos < len(it.ks) {
		it.pos++
	}
	if it.pos >= len(it.ks) {
		return false
	}
	return it.step()
}
func (it *iter) Prev() bool {
	if it.released || it.failed {
		return false
	}
	if it.pos >= 0 {
		it.pos--
	}
	if it.pos < 0 {
		return false
	}
	return it.step()
}
func (it *iter) Last() bool {
	if it.released || it.failed {
		return false
	}
	it.pos = len(it.ks) - 1
	if it.pos < 0 {
		it.pos = len(it.ks)
		return false
	}
	return it.step()
}
func (it *iter) First() bool {
	if it.released || it.failed {
		return false
	}
	if len(it.ks) == 0 {
		it.pos = -1
		return false
	}
	it.pos = 0
	return it.step()
}
func (it *iter) Error() error {
	if it.failed {
		return it.ferr
	}
	return nil
}
func (it *iter) Release() { it.released = true }

var _ = bytes.Compare
