package simkv

import (
	"bytes"
	"fmt"
	"os"
	"testing"

	"github.com/xuperchain/xupercore/lib/storage/kvdb"
	_ "github.com/xuperchain/xupercore/lib/storage/kvdb/leveldb"
	"pgregory.net/rapid"
)

// TestDifferential drives simkv and the real goleveldb driver with the same seeded operation
// sequences and requires identical results, error classes and iteration sequences.
func TestDifferential(t *testing.T) {
	n := 0
	rapid.Check(t, func(rt *rapid.T) {
		n++
		dir, err := os.MkdirTemp("", "simkv-diff")
		if err != nil {
			t.Fatal(err)
		}
		defer os.RemoveAll(dir)
		real, err := kvdb.CreateKVInstance(&kvdb.KVParameter{DBPath: dir + "/db", KVEngineType: "leveldb", StorageType: "single", MemCacheSize: 8, FileHandlersCacheSize: 16})
		if err != nil {
			t.Fatal(err)
		}
		defer real.Close()
		disk := NewDisk()
		var sim kvdb.Database = Open(disk, "x/db")

		keyGen := rapid.Custom(func(rt *rapid.T) []byte {
			alpha := []byte{'a', 'b', 0xff, 0x00, '/'}
			l := rapid.IntRange(0, 3).Draw(rt, "klen")
			k := make([]byte, l)
			for i := range k {
				k[i] = alpha[rapid.IntRange(0, len(alpha)-1).Draw(rt, "kc")]
			}
			return k
		})
		optKey := rapid.Custom(func(rt *rapid.T) []byte {
			if rapid.IntRange(0, 4).Draw(rt, "nil") == 0 {
				return nil
			}
			return keyGen.Draw(rt, "k")
		})
		valGen := rapid.SliceOfN(rapid.Byte(), 0, 4)
		var rb, sb kvdb.Batch
		rb, sb = real.NewBatch(), sim.NewBatch()
		steps := rapid.IntRange(1, 60).Draw(rt, "steps")
		for s := 0; s < steps; s++ {
			switch rapid.IntRange(0, 9).Draw(rt, "op") {
			case 0:
				k, v := keyGen.Draw(rt, "k"), valGen.Draw(rt, "v")
				e1, e2 := real.Put(k, v), sim.Put(k, v)
				if (e1 == nil) != (e2 == nil) {
					rt.Fatalf("put err %v %v", e1, e2)
				}
			case 1:
				k := keyGen.Draw(rt, "k")
				e1, e2 := real.Delete(k), sim.Delete(k)
				if (e1 == nil) != (e2 == nil) {
					rt.Fatalf("del err %v %v", e1, e2)
				}
			case 2:
				k := keyGen.Draw(rt, "k")
				v1, e1 := real.Get(k)
				v2, e2 := sim.Get(k)
				if (e1 == nil) != (e2 == nil) || !bytes.Equal(v1, v2) {
					rt.Fatalf("get %q: %q,%v vs %q,%v", k, v1, e1, v2, e2)
				}
				if e1 != nil && kvdb.ErrNotFound(e1) != kvdb.ErrNotFound(e2) {
					rt.Fatalf("notfound class differs: %v %v", e1, e2)
				}
				h1, _ := real.Has(k)
				h2, _ := sim.Has(k)
				if h1 != h2 {
					rt.Fatalf("has differs")
				}
			case 3:
				k, v := keyGen.Draw(rt, "k"), valGen.Draw(rt, "v")
				rb.Put(k, v)
				sb.Put(k, v)
			case 4:
				k := keyGen.Draw(rt, "k")
				rb.Delete(k)
				sb.Delete(k)
			case 5:
				k, v := keyGen.Draw(rt, "k"), valGen.Draw(rt, "v")
				e1, e2 := rb.PutIfAbsent(k, v), sb.PutIfAbsent(k, v)
				if (e1 == nil) != (e2 == nil) || rb.Exist(k) != sb.Exist(k) {
					rt.Fatalf("putifabsent differs")
				}
			case 6:
				if rb.ValueSize() != sb.ValueSize() {
					rt.Fatalf("valuesize %d %d", rb.ValueSize(), sb.ValueSize())
				}
				e1, e2 := rb.Write(), sb.Write()
				if (e1 == nil) != (e2 == nil) {
					rt.Fatalf("write err")
				}
				if rapid.Bool().Draw(rt, "reset") {
					rb.Reset()
					sb.Reset()
				}
			case 7, 8:
				type mini interface {
					Next() bool
					Key() []byte
					Value() []byte
					Error() error
					Release()
				}
				var i1, i2 mini
				quick := false
				switch rapid.IntRange(0, 2).Draw(rt, "itkind") {
				case 0:
					p := optKey.Draw(rt, "prefix")
					i1, i2 = real.NewIteratorWithPrefix(p), sim.NewIteratorWithPrefix(p)
				case 1:
					a, b := optKey.Draw(rt, "start"), optKey.Draw(rt, "limit")
					i1, i2 = real.NewIteratorWithRange(a, b), sim.NewIteratorWithRange(a, b)
				case 2:
					p, m := keyGen.Draw(rt, "prefix"), optKey.Draw(rt, "mid")
					i1, i2 = kvdb.NewQuickIterator(real, p, m), kvdb.NewQuickIterator(sim, p, m)
					quick = true
				}
				// mutate underneath: iterators must be snapshots
				if rapid.Bool().Draw(rt, "mut") {
					k, v := keyGen.Draw(rt, "k"), valGen.Draw(rt, "v")
					real.Put(k, v)
					sim.Put(k, v)
				}
				moves := rapid.IntRange(0, 12).Draw(rt, "moves")
				for m := 0; m < moves; m++ {
					mv := 0
					if !quick {
						mv = rapid.SampledFrom([]int{0, 0, 0, 0, 1, 2, 3}).Draw(rt, "mv")
					}
					var b1, b2 bool
					switch mv {
					case 0:
						b1, b2 = i1.Next(), i2.Next()
					case 1:
						b1, b2 = i1.(kvdb.Iterator).Prev(), i2.(kvdb.Iterator).Prev()
					case 2:
						b1, b2 = i1.(kvdb.Iterator).First(), i2.(kvdb.Iterator).First()
					case 3:
						b1, b2 = i1.(kvdb.Iterator).Last(), i2.(kvdb.Iterator).Last()
					}
					if b1 != b2 {
						rt.Fatalf("iter move %d: %v vs %v", mv, b1, b2)
					}
					if quick && !b1 {
						break
					}
					if !bytes.Equal(i1.Key(), i2.Key()) || !bytes.Equal(i1.Value(), i2.Value()) {
						rt.Fatalf("iter at: %q=%q vs %q=%q", i1.Key(), i1.Value(), i2.Key(), i2.Value())
					}
					if (i1.Error() == nil) != (i2.Error() == nil) {
						rt.Fatalf("iter error differs")
					}
				}
				i1.Release()
				i2.Release()
			case 9:
				// full content must agree
				i1, i2 := real.NewIteratorWithPrefix(nil), sim.NewIteratorWithPrefix(nil)
				for {
					b1, b2 := i1.Next(), i2.Next()
					if b1 != b2 {
						rt.Fatalf("content length differs")
					}
					if !b1 {
						break
					}
					if !bytes.Equal(i1.Key(), i2.Key()) || !bytes.Equal(i1.Value(), i2.Value()) {
						rt.Fatalf("content differs")
					}
				}
				i1.Release()
				i2.Release()
			}
		}
	})
	fmt.Printf("simkv differential: %d sequences agreed\n", n)
}

func TestJournalAndFaults(t *testing.T) {
	d := NewDisk()
	db := Open(d, "c/state")
	db.Put([]byte("a"), []byte("1"))
	base := d.Clone()
	d.StartJournal()
	b := db.NewBatch()
	b.Put([]byte("b"), []byte("2"))
	b.Delete([]byte("a"))
	if err := b.Write(); err != nil {
		t.Fatal(err)
	}
	db.Put([]byte("c"), []byte("3"))
	d.Arm(Faults{FailWrite: map[int]bool{0: true}})
	if err := db.Put([]byte("d"), []byte("4")); err == nil {
		t.Fatal("expected injected failure")
	}
	if err := db.Put([]byte("e"), []byte("5")); err != nil {
		t.Fatal(err)
	}
	j := d.StopJournal()
	if len(j) != 3 {
		t.Fatalf("journal len %d", len(j))
	}
	img := base.Clone()
	for _, u := range j {
		img.Apply(u)
	}
	if ok, diff := img.Equal(d); !ok {
		t.Fatal(diff)
	}
	if _, err := db.Get([]byte("d")); err == nil {
		t.Fatal("failed write must not apply")
	}
}
