package main

// props configures tiers per property; rules describe generation / non-triviality for evidence.
var props = map[string]propCfg{
	"C01": defCfg(),
	"C02": defCfg(),
	"C03": defCfg(),
	"C04": defCfg(),
	"C05": defCfg(),
	"C13": defCfg(),
	"C17": defCfg(),
	"C18": defCfg(),
}

var rules = map[string]string{
	"C01": "seeded plans (rapid) of tx / kv-contract tx / mine / deliver / walk / reopen / clock steps on 1-3 real nodes with randomised cache sizes, map orders and deferred background recovery; non-trivial = a run in which at least one walk undid a block and a fresh-replay comparison ran; distinct = distinct event-log digests among non-trivial runs",
}
