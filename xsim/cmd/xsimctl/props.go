package main

// props configures tiers per property; rules describe generation / non-triviality for evidence.
var props = map[string]propCfg{
	"C01": defCfg(),
	"C02": defCfg(),
	"C03": defCfg(),
	"C04": defCfg(),
	"C05": defCfg(),
	"C06": func() propCfg { c := defCfg(); c.Level = "fault_enumeration"; return c }(),
	"C12": defCfg(),
	"C13": defCfg(),
	"C17": defCfg(),
	"C18": defCfg(),
	"C20": defCfg(),
}

const chainRule = "plans are drawn by rapid from one seed per worker process: 1-3 nodes, knobs (utxo / block / ext-utxo cache sizes, slide window, nofee, map-order seed) and up to 24 (quick) / 40+ (thorough) steps of the listed operation mix with selectors resolved against live state; distinct = distinct event-log digests (every operation, result, block / tx id); "

var rules = map[string]string{
	"C01": chainRule + "non-trivial = at least one walk undid a block and a fresh-replay comparison ran",
	"C02": chainRule + "non-trivial = more than one transaction admitted and at least one block with transactions mined",
	"C03": chainRule + "non-trivial = at least one refusal and more than one admission were judged by the admission oracle",
	"C04": chainRule + "non-trivial = at least one main-chain switch or truncation happened",
	"C05": chainRule + "non-trivial = at least one failed operation was checked for traces and more than three live-vs-reopened comparisons ran",
	"C06": chainRule + "each scenario (3-14 steps on node 0, a second node produces competing blocks) is run uninterrupted with the write journal on, then EVERY prefix of its write units (all boundaries when the scenario issued <= 64 units, else all boundaries of the last three steps plus a sample) is restarted and checked (ledger battery, C01 fresh replay, C02 sums, Walk to tip, one more block and transfer); evaluations counts scenarios, faults_fired.crash-restart counts crash images; non-trivial = more than three crash images were restarted and synced",
	"C12": "plans: a sequential setup (up to 8 tx / kv-contract tx / mine steps, mirrored to a second node), then 2-4 concurrent requests (SubmitTx of transfers and kv-contract calls built against the same pre-state so that they conflict on outputs / keys by selector collision, locking SelectUtxos, at most one ConfirmBlock+Play of a competing block mined by the second node) run as cooperative tasks with up to 4 planned preemptions at lock / statement granularity (focus list: SpinLock, doTxSync, SelectUtxos, tryLockKey ...); oracle: outcomes and final observations equal those of some permutation executed serially on a node booted from a clone of the pre-state disk, selectors disjoint, C02/C03 invariants, no deadlock, no panic; non-trivial = a run with real task switches beyond task starts was checked against the serial orders; distinct = distinct event-log digests; distinct_interleavings = distinct task-switch traces",
	"C13": chainRule + "non-trivial = a block with pool transactions was mined and replayed on a fresh node",
	"C17": chainRule + "non-trivial = a walk failed (refused at the irreversible height or otherwise) or undid a block",
	"C20": "plans: 1-4 messages built by the real NewMessage (all payload kinds: nil, empty, small, incompressible, large compressible, block; options), corruption faults on the encoded payload (ALL single-bit flips for payloads <= 48 bytes, seeded bursts <= 32 bits otherwise), 1-4 subscribers (handler / channel, chain and sender filters), 1-3 concurrent tasks of Register / UnRegister / Dispatch ops under the cooperative scheduler with up to 4 planned preemptions at statement granularity, then sequential repeats across clock steps; non-trivial = a history with preemptions was checked for linearizability and at least one dispatch delivered; distinct = distinct event-log digests",
	"C18": chainRule + "non-trivial = more than two snapshot comparisons below the tip ran",
}
