package main

// props configures tiers per property; rules describe generation / non-triviality for evidence.
var props = map[string]propCfg{
	"C01": defCfg(),
	"C02": defCfg(),
	"C03": defCfg(),
	"C04": defCfg(),
	"C05": defCfg(),
	"C13": defCfg(),
	"C17": defCfg(),
	"C18": defCfg(),
}

const chainRule = "plans are drawn by rapid from one seed per worker process: 1-3 nodes, knobs (utxo / block / ext-utxo cache sizes, slide window, nofee, map-order seed) and up to 24 (quick) / 40+ (thorough) steps of the listed operation mix with selectors resolved against live state; distinct = distinct event-log digests (every operation, result, block / tx id); "

var rules = map[string]string{
	"C01": chainRule + "non-trivial = at least one walk undid a block and a fresh-replay comparison ran",
	"C02": chainRule + "non-trivial = more than one transaction admitted and at least one block with transactions mined",
	"C03": chainRule + "non-trivial = at least one refusal and more than one admission were judged by the admission oracle",
	"C04": chainRule + "non-trivial = at least one main-chain switch or truncation happened",
	"C05": chainRule + "non-trivial = at least one failed operation was checked for traces and more than three live-vs-reopened comparisons ran",
	"C13": chainRule + "non-trivial = a block with pool transactions was mined and replayed on a fresh node",
	"C17": chainRule + "non-trivial = a walk failed (refused at the irreversible height or otherwise) or undid a block",
	"C18": chainRule + "non-trivial = more than two snapshot comparisons below the tip ran",
}
