// xsimctl is the driver behind /verif/bin/check: it rebuilds the instrumented worker binary from
// /repo's current working tree, fans a seeded search out over worker processes, aggregates their
// reports into the evidence file and prints VIOLATION / KNOWN-FINDING lines.
//
// exit 0: property held on everything explored; 1: violation; 2: build / watchdog trouble.
package main

import (
	"bytes"
	"crypto/sha256"
	"encoding/hex"
	"encoding/json"
	"flag"
	"fmt"
	"io"
	"os"
	"os/exec"
	"path/filepath"
	"sort"
	"strconv"
	"strings"
	"sync"
	"syscall"
	"time"

	sim "xsim/wire"
)

var (
	verif = envOr("XSIM_VERIF", "/verif")
	repo  = envOr("XSIM_REPO", "/repo")
)

var goEnv = []string{"GOFLAGS=-mod=mod", "GOPROXY=off", "GOSUMDB=off", "GOTOOLCHAIN=local", "PATH=/opt/veriftools/go1.26.8/bin:" + os.Getenv("PATH")}

func cacheDir() string {
	if d := os.Getenv("XSIM_CACHE"); d != "" {
		return d
	}
	return "/var/tmp/xsim-cache"
}

func die(code int, format string, a ...interface{}) {
	fmt.Fprintf(os.Stderr, "xsimctl: "+format+"\n", a...)
	os.Exit(code)
}

func hashTree(h io.Writer, root string, exts ...string) {
	var files []string
	filepath.Walk(root, func(p string, info os.FileInfo, err error) error {
		if err != nil {
			return nil
		}
		if info.IsDir() {
			b := filepath.Base(p)
			if b == ".git" || b == "evidence" || b == "replays" || b == "seeded" {
				return filepath.SkipDir
			}
			return nil
		}
		for _, e := range exts {
			if strings.HasSuffix(p, e) {
				files = append(files, p)
			}
		}
		return nil
	})
	sort.Strings(files)
	for _, f := range files {
		b, err := os.ReadFile(f)
		if err != nil {
			continue
		}
		fmt.Fprintf(h, "%s %d\n", f, len(b))
		h.Write(b)
	}
}

// build returns the path of the worker binary for the current trees, building it if needed.
func build(extraOverlay string) (string, string) {
	h := sha256.New()
	hashTree(h, repo, ".go", "go.mod", "go.sum")
	hashTree(h, filepath.Join(verif, "xsim"), ".go", "go.mod", "go.sum")
	hashTree(h, filepath.Join(verif, "simrewrite"), ".go", "go.mod")
	if extraOverlay != "" {
		hashTree(h, extraOverlay, ".go")
	}
	sum := hex.EncodeToString(h.Sum(nil))[:16]
	dir := filepath.Join(cacheDir(), "build-"+sum)
	bin := filepath.Join(dir, "props.test")
	os.MkdirAll(cacheDir(), 0o755)
	lock, err := os.OpenFile(filepath.Join(cacheDir(), "build.lock"), os.O_CREATE|os.O_RDWR, 0o644)
	if err != nil {
		die(2, "lock: %v", err)
	}
	defer lock.Close()
	syscall.Flock(int(lock.Fd()), syscall.LOCK_EX)
	defer syscall.Flock(int(lock.Fd()), syscall.LOCK_UN)
	if _, err := os.Stat(bin); err == nil {
		now := time.Now()
		os.Chtimes(dir, now, now)
		return bin, dir
	}
	start := time.Now()
	os.MkdirAll(dir, 0o755)
	rw := filepath.Join(cacheDir(), "simrewrite-"+sum)
	run := func(wd string, name string, args ...string) {
		c := exec.Command(name, args...)
		c.Dir = wd
		c.Env = append(os.Environ(), goEnv...)
		out, err := c.CombinedOutput()
		if err != nil {
			os.RemoveAll(dir)
			die(2, "build step failed: %s %v\n%s", name, args, out)
		}
	}
	run(filepath.Join(verif, "simrewrite"), "go", "build", "-o", rw, ".")
	args := []string{"-repo", repo, "-out", filepath.Join(dir, "ov"), "-verif", filepath.Join(verif, "xsim"), "-report", filepath.Join(dir, "rewrite-report.json")}
	if extraOverlay != "" {
		args = append(args, "-extra", extraOverlay)
	}
	run(verif, rw, args...)
	os.Remove(rw)
	testArgs := []string{"test", "-c", "-vet=off", "-overlay", filepath.Join(dir, "ov", "overlay.json"), "-o", bin + ".tmp"}
	if repo != "/repo" {
		// a scratch copy of the repository (seeded-change evaluation): same module file with the
		// replace directive pointing at the copy
		mod, err := os.ReadFile(filepath.Join(verif, "xsim", "go.mod"))
		if err != nil {
			die(2, "go.mod: %v", err)
		}
		mod = bytes.Replace(mod, []byte("github.com/xuperchain/xupercore => /repo"), []byte("github.com/xuperchain/xupercore => "+repo), 1)
		sumb, _ := os.ReadFile(filepath.Join(verif, "xsim", "go.sum"))
		os.WriteFile(filepath.Join(dir, "go.mod"), mod, 0o644)
		os.WriteFile(filepath.Join(dir, "go.sum"), sumb, 0o644)
		testArgs = append(testArgs, "-modfile", filepath.Join(dir, "go.mod"))
	}
	run(filepath.Join(verif, "xsim"), "go", append(testArgs, "./props/")...)
	os.Rename(bin+".tmp", bin)
	fmt.Fprintf(os.Stderr, "xsimctl: built worker for tree %s in %.1fs\n", sum, time.Since(start).Seconds())
	// keep the newest three builds
	ents, _ := filepath.Glob(filepath.Join(cacheDir(), "build-*"))
	sort.Slice(ents, func(i, j int) bool {
		a, _ := os.Stat(ents[i])
		b, _ := os.Stat(ents[j])
		return a.ModTime().After(b.ModTime())
	})
	for i, e := range ents {
		if i >= 3 && e != dir {
			os.RemoveAll(e)
		}
	}
	return bin, dir
}

type tierCfg struct {
	Workers int
	Budget  float64 // seconds of search per worker slot
	MaxRuns int     // runs per worker process (process is recycled afterwards)
}

type propCfg struct {
	Quick, Thorough tierCfg
	Level           string
	Assumptions     []string
}

func defCfg() propCfg {
	return propCfg{Quick: tierCfg{Workers: 16, Budget: 25, MaxRuns: 250}, Thorough: tierCfg{Workers: 16, Budget: 600, MaxRuns: 250}, Level: "exploration"}
}

var commonAssumptions = []string{
	"real code: ledger, state (utxo, xmodel, meta, tx pool), kernel contracts, ACL, consensus plugins, chained-bft, xuperos Chain, p2p codec/dispatcher, crypto; stubs: simkv (KV engine; differential self-test against the goleveldb driver), simnet endpoint (transport)",
	"not executed: libp2p/gRPC transports, LevelDB internals, wasm/evm/native contract VMs",
	"not injected: torn/short writes inside a write unit, lost un-fsynced suffix (power loss), allocation / syscall failures",
	"sampled seeded search: a clean batch is evidence, not proof",
}

type agg struct {
	Runs, NonTrivial, Steps int
	Distinct                map[string]bool
	States                  map[string]bool
	Traces                  int
	Faults, Probes, Ops     map[string]int
	Known                   map[string]int
	KnownWhat               map[string]string
	Sim, Wall               float64
	Samples                 []interface{}
	Seeds                   []uint64
	Viol                    *sim.WorkerOut
	Procs                   int
}

func runWorkers(bin string, prop string, tier string, seed uint64, tc tierCfg, extraEnv []string) (*agg, int) {
	a := &agg{Distinct: map[string]bool{}, States: map[string]bool{}, Faults: map[string]int{}, Probes: map[string]int{}, Ops: map[string]int{}, Known: map[string]int{}, KnownWhat: map[string]string{}}
	outDir, _ := os.MkdirTemp(cacheDir(), "out-")
	defer os.RemoveAll(outDir)
	var mu sync.Mutex
	var wg sync.WaitGroup
	infra := 0
	stop := false
	deadline := time.Now().Add(time.Duration(tc.Budget * float64(time.Second)))
	for w := 0; w < tc.Workers; w++ {
		wg.Add(1)
		go func(w int) {
			defer wg.Done()
			for gen := 0; ; gen++ {
				mu.Lock()
				s := stop
				mu.Unlock()
				left := time.Until(deadline).Seconds()
				if s || left < 1 {
					return
				}
				wseed := seed*1000003 + uint64(w)*1009 + uint64(gen)
				of := filepath.Join(outDir, fmt.Sprintf("w%d-%d.json", w, gen))
				c := exec.Command(bin, "-test.run", "^TestProp$", "-test.timeout", "0", "-test.cpu", "2",
					"-rapid.checks", strconv.Itoa(tc.MaxRuns), "-rapid.seed", strconv.FormatUint(wseed, 10), "-rapid.shrinktime", "45s", "-rapid.nofailfile")
				c.Env = append(os.Environ(), "XSIM_PROP="+prop, "XSIM_OUT="+of, "XSIM_TIER="+tier, fmt.Sprintf("XSIM_BUDGET=%f", left),
					"XSIM_MAXRUNS="+strconv.Itoa(tc.MaxRuns), "XSIM_KNOWN="+filepath.Join(verif, "known_findings.json"), "XSIM_SCRATCH="+cacheDir(), "GOMAXPROCS=2")
				c.Env = append(c.Env, extraEnv...)
				var out strings.Builder
				c.Stdout, c.Stderr = &out, &out
				done := make(chan error, 1)
				if err := c.Start(); err != nil {
					mu.Lock()
					infra++
					mu.Unlock()
					return
				}
				go func() { done <- c.Wait() }()
				var werr error
				select {
				case werr = <-done:
				case <-time.After(time.Duration((left + 180) * float64(time.Second))):
					c.Process.Kill()
					<-done
					fmt.Fprintf(os.Stderr, "xsimctl: worker %d wedged (watchdog)\n%s\n", w, tail(out.String(), 40))
					mu.Lock()
					infra++
					stop = true
					mu.Unlock()
					return
				}
				b, rerr := os.ReadFile(of)
				var wo sim.WorkerOut
				if rerr != nil || json.Unmarshal(b, &wo) != nil {
					fmt.Fprintf(os.Stderr, "xsimctl: worker %d produced no report (err=%v)\n%s\n", w, werr, tail(out.String(), 60))
					mu.Lock()
					infra++
					stop = true
					mu.Unlock()
					return
				}
				mu.Lock()
				a.Procs++
				a.Runs += wo.Runs
				a.NonTrivial += wo.NonTrivial
				a.Steps += wo.Steps
				for _, d := range wo.Distinct {
					a.Distinct[d] = true
				}
				for _, d := range wo.StateSet {
					a.States[d] = true
				}
				a.Traces += wo.Traces
				for k, v := range wo.Faults {
					a.Faults[k] += v
				}
				for k, v := range wo.Probes {
					a.Probes[k] += v
				}
				for k, v := range wo.Ops {
					a.Ops[k] += v
				}
				for k, v := range wo.Known {
					a.Known[k] += v
					a.KnownWhat[k] = wo.KnownWhat[k]
				}
				a.Sim += wo.SimSeconds
				a.Wall += wo.WallSeconds
				if len(a.Samples) < 3 {
					a.Samples = append(a.Samples, wo.Samples...)
				}
				a.Seeds = append(a.Seeds, wseed)
				if wo.Panic != "" {
					fmt.Fprintf(os.Stderr, "xsimctl: worker %d infrastructure panic:\n%s\n", w, wo.Panic)
					infra++
					stop = true
				}
				if wo.Violation != nil && a.Viol == nil {
					cp := wo
					cp.Seed = wseed
					a.Viol = &cp
					stop = true
				}
				if werr != nil && wo.Violation == nil && wo.Panic == "" {
					fmt.Fprintf(os.Stderr, "xsimctl: worker %d failed without violation (%v)\n%s\n", w, werr, tail(out.String(), 60))
					infra++
					stop = true
				}
				mu.Unlock()
			}
		}(w)
	}
	wg.Wait()
	return a, infra
}

func tail(s string, n int) string {
	ls := strings.Split(s, "\n")
	if len(ls) > n {
		ls = ls[len(ls)-n:]
	}
	return strings.Join(ls, "\n")
}

func main() {
	if len(os.Args) < 2 {
		die(2, "usage: check <property> [--tier quick|thorough] [--seed N] | replay <file> | build | selftest-determinism [prop...] | clean")
	}
	cmd := os.Args[1]
	fs := flag.NewFlagSet("check", flag.ExitOnError)
	tier := fs.String("tier", envOr("VERIF_TIER", "quick"), "quick|thorough")
	seedS := fs.String("seed", envOr("VERIF_SEED", "1"), "base seed")
	budget := fs.Float64("budget", 0, "override per-worker search budget (seconds)")
	workers := fs.Int("workers", 0, "override worker count")
	extra := fs.String("overlay-extra", os.Getenv("XSIM_OVERLAY_EXTRA"), "directory with extra overlay files (mutants)")
	noEvidence := fs.Bool("no-evidence", false, "do not write the evidence file")
	fs.Parse(os.Args[2:])
	seed, err := strconv.ParseUint(*seedS, 10, 64)
	if err != nil {
		// tolerate negative / huge seeds
		h := sha256.Sum256([]byte(*seedS))
		seed = uint64(h[0])<<24 | uint64(h[1])<<16 | uint64(h[2])<<8 | uint64(h[3])
	}
	switch cmd {
	case "clean":
		os.RemoveAll(cacheDir())
		return
	case "build":
		bin, _ := build(*extra)
		fmt.Println(bin)
		return
	case "replay":
		if fs.NArg() < 1 {
			die(2, "replay <file>")
		}
		os.Exit(replay(fs.Arg(0), *extra))
	case "selftest-simkv":
		c := exec.Command("go", "test", "-count=1", "./simkv/", "-rapid.checks=1500")
		c.Dir = filepath.Join(verif, "xsim")
		c.Env = append(os.Environ(), goEnv...)
		out, err := c.CombinedOutput()
		fmt.Print(string(out))
		if err != nil {
			os.Exit(2)
		}
		return
	case "selftest-determinism":
		os.Exit(selftestDeterminism(fs.Args(), seed, *extra))
	}
	prop := cmd
	pc, ok := props[prop]
	if !ok {
		die(2, "unknown property %s", prop)
	}
	tc := pc.Quick
	if *tier == "thorough" {
		tc = pc.Thorough
	}
	if *budget > 0 {
		tc.Budget = *budget
	}
	if *workers > 0 {
		tc.Workers = *workers
	}
	start := time.Now()
	bin, _ := build(*extra)
	a, infra := runWorkers(bin, prop, *tier, seed, tc, nil)
	wall := time.Since(start).Seconds()
	if infra > 0 && a.Viol == nil {
		die(2, "%d worker(s) had infrastructure trouble; no verdict", infra)
	}
	nviol := 0
	var replayPath string
	if a.Viol != nil {
		nviol = 1
		os.MkdirAll(filepath.Join(verif, "replays"), 0o755)
		replayPath = filepath.Join(verif, "replays", fmt.Sprintf("%s-%d.json", prop, a.Viol.Seed))
		rf := sim.ReplayFile{Property: prop, Seed: a.Viol.Seed, Violation: a.Viol.Violation, LogDigest: a.Viol.LogDigest, Plan: a.Viol.Plan, Log: a.Viol.Log,
			Note: "minimised by rapid; replay with: /verif/bin/check replay " + replayPath}
		b, _ := json.MarshalIndent(rf, "", " ")
		os.WriteFile(replayPath, b, 0o644)
		// a violation is only reported if its replay file reproduces it exactly in a fresh process;
		// anything else is trouble with the machinery (exit 2), never an alarm
		c := exec.Command(bin, "-test.run", "^TestProp$", "-test.timeout", "0", "-test.cpu", "2")
		c.Env = append(os.Environ(), "XSIM_PROP="+prop, "XSIM_REPLAY="+replayPath, "XSIM_SCRATCH="+cacheDir())
		rout, _ := c.CombinedOutput()
		if !strings.Contains(string(rout), "exact=true") {
			fmt.Printf("xsim: the violation found by a worker does not reproduce from its replay file %s:\n%s\n", replayPath, tail(string(rout), 12))
			die(2, "non-reproducible violation (%s): machinery trouble, no verdict", a.Viol.Violation.Fingerprint())
		}
	}
	// a listed open finding the search did not happen to hit this time is re-executed from its
	// committed replay file (fresh process); it is reported only if it still reproduces
	var listed struct {
		Findings []sim.KnownFinding `json:"findings"`
	}
	if b, err := os.ReadFile(filepath.Join(verif, "known_findings.json")); err == nil {
		json.Unmarshal(b, &listed)
	}
	for _, kf := range listed.Findings {
		if kf.Status != "open" || kf.Property != prop || kf.Replay == "" {
			continue
		}
		hit := false
		for k := range a.Known {
			if strings.HasPrefix(k, kf.Fingerprint+"|") || k == kf.Fingerprint {
				hit = true
			}
		}
		if hit {
			continue
		}
		c := exec.Command(bin, "-test.run", "^TestProp$", "-test.timeout", "0", "-test.cpu", "2")
		c.Env = append(os.Environ(), "XSIM_PROP="+prop, "XSIM_REPLAY="+filepath.Join(verif, kf.Replay), "XSIM_SCRATCH="+cacheDir())
		rout, _ := c.CombinedOutput()
		if strings.Contains(string(rout), "violation="+kf.Fingerprint+" ") {
			key := kf.Fingerprint + "|"
			a.Known[key]++
			a.KnownWhat[key] = kf.What + " [not drawn by this run's search; reproduced from " + kf.Replay + "]"
		} else {
			fmt.Printf("xsim: note: listed finding %s was neither hit by the search nor reproduced from %s\n", kf.Fingerprint, kf.Replay)
		}
	}
	if !*noEvidence {
		writeEvidence(prop, *tier, seed, pc, a, wall, nviol)
	}
	var kk []string
	for k := range a.Known {
		kk = append(kk, k)
	}
	sort.Strings(kk)
	for _, k := range kk {
		fmt.Printf("KNOWN-FINDING: property=%s %s (fingerprint %s, hit in %d runs)\n", prop, a.KnownWhat[k], strings.TrimSuffix(k, "|"), a.Known[k])
	}
	fmt.Printf("xsim: property=%s tier=%s seed=%d runs=%d non-trivial=%d distinct=%d states=%d sim=%.0fs wall=%.1fs workers=%d procs=%d\n",
		prop, *tier, seed, a.Runs, a.NonTrivial, len(a.Distinct), len(a.States), a.Sim, wall, tc.Workers, a.Procs)
	if a.Viol != nil {
		fmt.Printf("violation: %s\n", a.Viol.Violation.Error())
		fmt.Printf("VIOLATION property=%s replay=%s\n", prop, replayPath)
		os.Exit(1)
	}
}

func envOr(k, d string) string {
	if v := os.Getenv(k); v != "" {
		return v
	}
	return d
}

func writeEvidence(prop, tier string, seed uint64, pc propCfg, a *agg, wall float64, nviol int) {
	samples := a.Samples
	if len(samples) == 0 {
		samples = []interface{}{"no non-trivial run sampled"}
	}
	rule := rules[prop]
	runsPerHour := 0.0
	if wall > 0 {
		runsPerHour = float64(a.Runs) / wall * 3600
	}
	cov := map[string]interface{}{
		"evaluations":            a.Runs,
		"distinct_nontrivial":    len(a.Distinct),
		"rule":                   rule,
		"samples":                samples,
		"nontrivial_runs":        a.NonTrivial,
		"steps_executed":         a.Steps,
		"operations":             a.Ops,
		"faults_fired":           a.Faults,
		"probes":                 a.Probes,
		"distinct_states":        len(a.States),
		"distinct_states_rule":   "distinct digests of the canonical observation vector (all ledger / state queries of the battery) over all steps of all runs",
		"distinct_interleavings": a.Traces,
		"simulated_seconds":      a.Sim,
		"runs_per_hour":          runsPerHour,
		"seeds":                  len(a.Seeds),
		"worker_processes":       a.Procs,
		"known_findings_hit":     a.Known,
		"real_components":        "ledger, state(utxo/xmodel/meta/pool), contract manager+bridge+kernel VM+sandbox, ACL, pluggable consensus + single/tdpos/xpoa/pow, chained-bft, xuperos Chain/Miner, p2p codec + Dispatcher, crypto",
		"stub_components":        "simkv (kvdb engine), simnet endpoint (transport)",
		"exhaustive":             false,
	}
	ev := map[string]interface{}{
		"property_id": prop,
		"tier":        tier,
		"seed":        seed,
		"level":       pc.Level,
		"coverage":    cov,
		"assumptions": append(append([]string{}, commonAssumptions...), pc.Assumptions...),
		"wall_s":      wall,
		"violations":  nviol,
	}
	os.MkdirAll(filepath.Join(verif, "evidence"), 0o755)
	b, _ := json.MarshalIndent(ev, "", " ")
	os.WriteFile(filepath.Join(verif, "evidence", prop+".json"), b, 0o644)
}

func replay(path string, extra string) int {
	b, err := os.ReadFile(path)
	if err != nil {
		die(2, "%v", err)
	}
	var rf sim.ReplayFile
	if err := json.Unmarshal(b, &rf); err != nil {
		die(2, "%v", err)
	}
	bin, _ := build(extra)
	c := exec.Command(bin, "-test.run", "^TestProp$", "-test.timeout", "0", "-test.cpu", "2")
	abs, _ := filepath.Abs(path)
	c.Env = append(os.Environ(), "XSIM_PROP="+rf.Property, "XSIM_REPLAY="+abs, "XSIM_SCRATCH="+cacheDir())
	out, err := c.CombinedOutput()
	for _, l := range strings.Split(string(out), "\n") {
		if strings.HasPrefix(l, "REPLAY ") || strings.HasPrefix(l, "LOG ") || strings.Contains(l, "replay") {
			fmt.Println(l)
		}
	}
	if err != nil {
		if strings.Contains(string(out), "exact=true") {
			return 1
		}
		fmt.Println(tail(string(out), 30))
		return 3
	}
	if strings.Contains(string(out), "exact=true") {
		fmt.Printf("VIOLATION property=%s replay=%s\n", rf.Property, path)
		return 1
	}
	return 0
}

// selftestDeterminism executes the same seeds in separate OS processes under GOMAXPROCS 1, 4 and
// 16 and requires byte-identical per-run event-log digests.
func selftestDeterminism(which []string, seed uint64, extra string) int {
	if len(which) == 0 {
		for p := range props {
			which = append(which, p)
		}
		sort.Strings(which)
	}
	bin, _ := build(extra)
	bad := 0
	outDir, _ := os.MkdirTemp(cacheDir(), "det-")
	defer os.RemoveAll(outDir)
	type job struct {
		prop string
		s    uint64
		gmp  int
	}
	var jobs []job
	for _, p := range which {
		for s := uint64(0); s < 4; s++ {
			for _, g := range []int{1, 4, 16} {
				jobs = append(jobs, job{p, seed*77 + s, g})
			}
		}
	}
	res := map[string][]string{}
	var mu sync.Mutex
	sem := make(chan bool, 12)
	var wg sync.WaitGroup
	for i, j := range jobs {
		wg.Add(1)
		sem <- true
		go func(i int, j job) {
			defer wg.Done()
			defer func() { <-sem }()
			of := filepath.Join(outDir, fmt.Sprintf("j%d.json", i))
			c := exec.Command(bin, "-test.run", "^TestProp$", "-test.timeout", "0", "-test.cpu", strconv.Itoa(j.gmp), "-rapid.checks", "16", "-rapid.seed", strconv.FormatUint(j.s, 10), "-rapid.nofailfile")
			c.Env = append(os.Environ(), "XSIM_PROP="+j.prop, "XSIM_OUT="+of, "XSIM_TIER=quick", "XSIM_BUDGET=600", "XSIM_MAXRUNS=16", "XSIM_DIGESTS=1",
				"XSIM_KNOWN="+filepath.Join(verif, "known_findings.json"), "XSIM_SCRATCH="+cacheDir(), "GOMAXPROCS="+strconv.Itoa(j.gmp))
			c.CombinedOutput()
			b, _ := os.ReadFile(of)
			var wo sim.WorkerOut
			json.Unmarshal(b, &wo)
			mu.Lock()
			res[fmt.Sprintf("%s/%d", j.prop, j.s)] = append(res[fmt.Sprintf("%s/%d", j.prop, j.s)], strings.Join(wo.Digests, ","))
			mu.Unlock()
		}(i, j)
	}
	wg.Wait()
	var keys []string
	for k := range res {
		keys = append(keys, k)
	}
	sort.Strings(keys)
	total := 0
	for _, k := range keys {
		v := res[k]
		same := true
		for _, x := range v {
			if x != v[0] || x == "" {
				same = false
			}
		}
		n := len(strings.Split(v[0], ","))
		total += n
		if !same {
			bad++
			fmt.Printf("NONDETERMINISTIC %s: %d processes disagree\n", k, len(v))
			for _, x := range v {
				fmt.Printf("   %s\n", clip(x, 200))
			}
		}
	}
	fmt.Printf("selftest-determinism: %d seed groups x 3 processes (GOMAXPROCS 1/4/16), %d runs each compared, %d groups disagree\n", len(keys), total, bad)
	if bad > 0 {
		return 2
	}
	return 0
}

func clip(s string, n int) string {
	if len(s) > n {
		return s[:n] + "..."
	}
	return s
}
