#!/usr/bin/env python3
# Generates /verif/MANIFEST.json from the table below (kept in one place so that it stays valid).
import json
claimed = {
 "C07": ('exploration', 'tx engine: honest transactions of every supported form (transfers v1-v3 with fee / frozen outputs, two-owner multi-signer, kernel-contract invocation, spend of a threshold-account / key-set-account output, two-owner transfer under one aggregated multi-signature) and unauthorised forms (foreign output plain / with forged contract-input record / with forged regulator mark / with a single signature in the aggregate field / under a rogue-key multi-signature); for every form ALL single-field mutations reachable by reflection over the pb.Transaction schema, each with and without recomputing the txid, plus foreign-key / replay / swap / removal signature operators; no mutant of a semantic field, signature or signer is admitted, neither by SubmitTx on a copy of the node nor packed into a block of the entitled producer and processed by Chain.ProcBlock (plain, flagged auto-generated, posing as the award); the unmutated transaction is admitted; digest equal implies semantic content equal over all originals and mutants', 'exhaustive single-field corruption (schema walk) per generated transaction + independent signature verifier'),
 "C08": ('exploration', "block engine: honest blocks of 1-9 transactions from the real miner path; in flight every mutation reachable by reflection over the InternalBlock schema in 5 variants (raw, merkle recomputed, merkle+id recomputed, re-signed by a foreign key with / without its pubkey); VerifyBlock refuses every mutant differing in hashed header fields, ordered tx list or signature; what verifies goes through the real ProcBlock on a copy of the replica whose ledger must not hold a differing block and whose state must equal the producer's", 'single-field corruption (schema walk) of blocks in flight + end-to-end ledger comparison'),
 "C14": ('exploration', "QC engine: real Smr / DefaultSaftyRules / crypto and real xpoa+BFT / tdpos+BFT nodes; certificates assembled from entry kinds {valid member, repeated member, non-member, wrong id, corrupted, key/address mismatch, collector's own}: ALL multisets up to size n+2 for n <= 4 (sliced over runs), sampled up to n = 10, on every entry path (CheckProposal, proposal handler, vote collection, CheckVote, CalVotesThreshold, CheckMinerMatch, ProcBlock); accepted implies valid signatures over the certified id from a quorum of distinct members besides the collector (independent verifier)", 'forged-certificate fault enumeration against an independent verifier'),
 "C09": ('exploration', 'Engine A operation invoke: generated kernel-contract programs (get / put / delete / bounded scan / nested call / copy / failing status / error) go through the real Chain.PreExec, are assembled, then ONE of 11 mutations of read set / write set / transient outputs / requests / limits / gas, or a stale read, or nothing; unmutated must be admitted and its commit must change exactly the write-set keys and declared outputs (raw table diff), everything else must be rejected and change nothing', 'pre-exec = verify = commit differential with single-mutation fault operators'),
 "C10": ('exploration', 'sandbox engine: random Get / Put / Del / Select(bounds, early stop) / Transfer sequences on a real StateSandbox over the real XModel (live, deleted, never-written keys, several buckets, transient bucket, unconfirmed writes) against an overlay-map model per call; RW-set checks, replay over XMReaderFromRWSet, soundness by perturbing every unread backing key, storage read / iterator faults', 'overlay-map reference model + replay + perturbation under injected read faults'),
 "C11": ('exploration', 'ACL engine: rules (thresholds with boundary weights, key sets, nested accounts) created through the real $acl contract; for every generated rule ALL signer subsets over <= 8 URIs plus duplicate / foreign / inner-name variants are evaluated by the real IdentifyAccount / CheckContractMethodPerm against a reference evaluator; sampled through full signed transactions with the rule change pending / confirmed / undone by a reorganisation', 'exhaustive signer-subset enumeration per generated rule + model-based admission oracle'),
 "C12": ('exploration', 'Engine B (coopsim): 2-4 concurrent SubmitTx / locking SelectUtxos / block play requests on one real node as cooperative tasks with planned preemptions at lock and statement granularity; outcomes and final observations must equal some serial order executed on a clone of the pre-state; selectors disjoint, C02/C03 invariants, no deadlock, no crash; after the batch every still unspent output a request named is spent alone on the node and on the serial reference (nothing stays locked); injected write error inside the batch', 'seeded schedule exploration (cooperative scheduler) + serial-order equivalence oracle'),
 "C15": ('exploration', 'Engine C: real Smr / QCPendingTree / safety rules / pacemaker / crypto driven with trees of <= 12 (16) proposals in every drawn arrival order (children first, duplicates, competing children), votes, confirmed blocks, explicit rollbacks, crash-restart; after every event: tree shape, exactly-once storage incl. orphan adoption, HighQC monotone, markers are successive ancestors, root only moves to descendants', 'message-order fault exploration with structural invariants after every event'),
 "C16": ('exploration', "schedule engine: (a) tiling sweep of the real tdpos / xpoa scheduling over configuration boxes (quick: slot boundaries +-2 ms over >= 3 terms; thorough: every millisecond) against the tiling oracle; (b) acceptance through the real CheckMinerMatch / ProcBlock for single / tdpos / xpoa / pow with right and wrong proposer, key, slot, receiver clock skew and jumps, PoW targets from the chain's own history with an independent compact decoder", 'bounded sweep + seeded acceptance scenarios with clock faults'),
 "C19": ('exploration', 'governance engine: sequences of Init / Transfer (self, fresh, 0, > balance, huge) / Propose / Vote / Thaw / Lock / UnLock / the real $tdpos nominate, revoke, vote and revoke-vote methods and timer settlements through the real tx pipeline on 1-2 nodes with chain switches; conservation of the sum, locks change only by lock / unlock effects, no transfer below a lock, no negative amounts, on confirmed state and state+pool', 'effect-fold reference model over seeded histories with reorganisations'),
 "C20": ('exploration', 'p2p engine: (a) every message built by the real NewMessage crosses the simulated wire; ALL single-bit flips (payloads <= 48 bytes) and seeded bursts <= 32 bits of the encoded payload must be detected; response-type map injective; (b) real Dispatcher under 1-3 concurrent tasks of Register / UnRegister / Dispatch with planned preemptions: porcupine linearizability against a subscriber-set model, exactly-once delivery to exactly the matching subscribers, de-duplication window across clock steps', 'corruption fault enumeration + linearizability (porcupine) of seeded schedules'),
 "C01": ("exploration", "Engine A (chainsim): seeded plans of tx / kv-contract tx / mine / deliver / walk (cross-fork, prune) / reopen / clock steps on 1-3 real nodes; after every step the node is compared (a) with a fresh node that plays genesis..B and re-admits the pool and (b) with the reference model S(B)+pool (U table, totals, key values and versions, scans)", "differential fresh replay + reference model over seeded histories"),
 "C02": ("exploration", "Engine A: conservation sums (table U + pending fees = GetTotal = sum of coinbase outputs of applied blocks; balance = sum of own outputs; every admitted tx balanced) after every step, including failed and adversarial submissions (unbalanced amounts, huge / zero / leading-zero encodings, duplicated inputs, coinbase flag, second coinbase, wrong award)", "conservation invariants checked after every simulated step"),
 "C03": ("exploration", "Engine A: admission oracle from the model (admitted iff every token input unspent / unfrozen / owned / sized as cited and every read version current in S(tip)+pool), global double-spend scan over chain+pool, conflict families (same output, R-R / R-W / W-W on a key) split between pool, blocks, branches and walks", "model-based admission oracle + double-spend scan over seeded histories"),
 "C04": ("exploration", "Engine A: every ledger query (meta, block by id / header / height, InTrunk, next / prev links, tx lookup, tx-to-block, branch tips, undo/todo paths) compared with a block-tree model under the main-chain rule after every step; forks, reorganisations, truncations, reopen, shrunken LRU caches", "block-tree reference model, all queries compared after every step"),
 "C05": ("exploration", "Engine A with storage faults (k-th write unit fails, disk full, k-th read fails) and failing operations mixed in: after every step a second instance opened on a clone of the disk must answer the whole battery like the live one; an operation that reported failure must leave the battery unchanged", "live-vs-reopened differential + no-trace check under injected storage faults"),
 "C06": ("fault_enumeration", "Engine A scenarios (tx admission, mining, sync with pending-block saves, reorganising walks, truncation) run with the write journal on; EVERY prefix of the sequence of write units across both databases (sampled only for scenarios with more than 64 units) is restarted: ledger and state open, ledger battery (C04) against the tree the image contains, C01 fresh replay and C02 sums at the persisted pointer, pool only holds applicable transactions, Walk(ledger tip) succeeds and matches a fresh replay, one more block and one more transfer are accepted", "exhaustive crash-point enumeration over the write journal of seeded scenarios"),
 "C13": ("exploration", "Engine A: producer pools with dependency chains, read-only sharers followed by writers, fee payers; map iteration orders are the explored dimension; every mined block is replayed on a fresh node and the reported pool order is applied to the model", "seeded map-order exploration + fresh-replica replay"),
 "C17": ("exploration", "Engine A with slide windows 0..5: irreversible height against the model (max applied height - w), monotone without prune, non-prune walks never leave the state on a chain excluding a finalised block, survives reopen", "finality model checked after every step"),
 "C18": ("exploration", "Engine A: key histories (create / overwrite / delete / re-create, several writes per block, pending writes) - snapshot reads at every main-chain block compared with the model state S(B) after every step", "snapshot reads vs reference model at every height"),
}
pending = {
}
import importlib.util, os
ov = "/verif/manifest_overrides.json"
if os.path.exists(ov):
    o = json.load(open(ov))
    claimed.update({k: tuple(v) for k, v in o.get("claimed", {}).items()})
    for k in o.get("claimed", {}): pending.pop(k, None)
    pending.update(o.get("pending", {}))
checks = []
for pid in sorted(claimed):
    level, text, tech = claimed[pid]
    checks.append({
        "property_id": pid,
        "quick_cmd": "./bin/check %s --tier quick" % pid,
        "thorough_cmd": "./bin/check %s --tier thorough" % pid,
        "evidence_file": "/verif/evidence/%s.json" % pid,
        "replay_cmd_template": "./bin/check replay {path}",
        "engine": "xsim",
        "level_claimed": {"category": level, "text": text, "design_ref": "DESIGN.md section 6 (%s)" % pid},
        "level_note": "trusted base: simkv stands in for goleveldb (differential self-test), the simulated endpoint for the p2p transports; wasm/evm/native VMs not executed; seeded search samples, it does not enumerate",
        "technique": "deterministic simulation with fault injection: " + tech,
    })
m = {
 "version": 1,
 "setup_cmd": "./bin/check build && ./bin/check selftest-simkv",
 "hooks": {
  "guard": "xsim-overlay (instrumentation is injected at build time with `go build -overlay`; nothing is committed to /repo)",
  "enable": "bin/check runs simrewrite on /repo's working tree and builds the worker with go1.26.8 `go test -c -overlay <scratch>/overlay.json`",
  "baseline_off_cmd": "for m in $(cat /w/out/gomods.txt); do MF=$(cd /repo/$m && . /w/out/goenv.sh && gomodflag); (cd /repo/$m && go test $MF -json -vet=off -count=1 -timeout 25m ./...); done",
  "source_commits": [],
  "add_only": True,
 },
 "engines": [
  {"name": "xsim", "path": "/verif/xsim", "serves_properties": sorted(claimed), "kind_free_text": "deterministic simulator: real xupercore nodes on simulated disks (simkv) and transport inside a synctest bubble; seeded plans (rapid) decide operations, faults, map orders, schedules; replay files reproduce exactly"},
 ],
 "checks": checks,
 "not_applicable": [{"property_id": k, "reason": v} for k, v in sorted(pending.items())],
 "notes": "fix: commits in /repo repair genuine defects found by the checks (see known_findings.json and DESIGN.md section 7).",
}
json.dump(m, open("/verif/MANIFEST.json", "w"), indent=1)
print("checks:", len(checks), "not_applicable:", len(pending))
