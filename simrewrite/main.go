// simrewrite reads /repo's current working tree, rewrites the sources of nondeterminism that have
// no seam (map iteration order, sync.Map.Range, listed background `go` statements, lock
// operations and focus-list statements, tunable cache constants) into calls to lib/xsimrt, writes
// the changed files to a scratch directory and emits an overlay.json for `go build -overlay`.
// /repo itself is never modified.
package main

import (
	"bytes"
	"encoding/json"
	"flag"
	"fmt"
	"go/ast"
	"go/format"
	"go/token"
	"go/types"
	"os"
	"path/filepath"
	"sort"
	"strings"

	"golang.org/x/tools/go/ast/astutil"
	"golang.org/x/tools/go/packages"
)

const rtPath = "github.com/xuperchain/xupercore/lib/xsimrt"

var (
	repo    = flag.String("repo", "/repo", "repository root")
	out     = flag.String("out", "", "scratch output directory")
	verif   = flag.String("verif", "/verif/xsim", "xsim source root (xsimrt, shims)")
	extra   = flag.String("extra", "", "optional directory with extra overlay files (mutants): mirrors repo layout")
	report  = flag.String("report", "", "write a JSON report of rewritten / untouched sites here")
	pkgsArg = flag.String("pkgs", strings.Join(defaultPkgs, ","), "package patterns")
)

var defaultPkgs = []string{
	"./bcs/ledger/...", "./bcs/consensus/...", "./kernel/engines/...", "./kernel/consensus/...",
	"./kernel/contract/...", "./kernel/network/p2p/...", "./kernel/network/def/...", "./kernel/permission/...", "./kernel/ledger/...",
	"./lib/cache/...", "./lib/utils/...", "./lib/timer/...",
}

// background `go` sites handed to the simulation (by callee name).
var bgCallees = map[string]bool{
	"recoverUnconfirmedTx": true, "broadcastBlock": true, "SendMessage": true,
	"handleReceivedProposal": true, "handleReceivedVoteMsg": true, "procAsyncMsg": true,
}

// go func(){...}() literals handed to the simulation, by enclosing function name.
var bgLiteralIn = map[string]bool{"processUnconfirmTxs": true}

// constants used as call arguments that become per-run knobs.
var tunables = map[string]bool{"BlockCacheSize": true, "bucketExtUTXOCacheSize": true, "awardCacheSize": true}

// functions whose every statement gets a yield point (focus list, DESIGN §2.2 T5).
var focusFuncs = map[string]bool{
	"SpinLock.TryLock": true, "SpinLock.Unlock": true, "State.doTxSync": true, "UtxoVM.tryLockKey": true,
	"UtxoVM.SelectUtxos": true, "UtxoVM.SelectUtxosBySize": true, "UtxoVM.UnlockKey": true, "UtxoVM.clearExpiredLocks": true,
	"dispatcher.Register": true, "dispatcher.UnRegister": true, "dispatcher.Dispatch": true, "dispatcher.IsHandled": true, "dispatcher.MaskHandled": true,
	"Smr.handleReceivedProposal": true, "Smr.handleReceivedVoteMsg": true, "Smr.UpdateQcStatus": true, "Smr.UpdateJustifyQcStatus": true,
	"QCPendingTree.updateHighQC": true, "QCPendingTree.updateQcStatus": true, "QCPendingTree.insert": true, "QCPendingTree.insertOrphan": true,
	"QCPendingTree.updateCommit": true, "QCPendingTree.enforceUpdateHighQC": true, "QCPendingTree.adoptOrphans": true,
	"refCounter.Add": true, "refCounter.Release": true,
}

type site struct {
	Kind string `json:"kind"`
	Pos  string `json:"pos"`
	Note string `json:"note,omitempty"`
}

type rewriter struct {
	pkg       *packages.Package
	file      *ast.File
	changed   bool
	done      []site
	untouched []site
	n         int
}

func (r *rewriter) pos(p token.Pos) string {
	pp := r.pkg.Fset.Position(p)
	rel, _ := filepath.Rel(*repo, pp.Filename)
	return fmt.Sprintf("%s:%d", rel, pp.Line)
}

func (r *rewriter) fresh(prefix string) string {
	r.n++
	return fmt.Sprintf("_xs%s%d", prefix, r.n)
}

func sel(x, s string) *ast.SelectorExpr {
	return &ast.SelectorExpr{X: ast.NewIdent(x), Sel: ast.NewIdent(s)}
}
func rtCall(fn string, args ...ast.Expr) *ast.CallExpr {
	return &ast.CallExpr{Fun: sel("xsimrt", fn), Args: args}
}
func strLit(s string) *ast.BasicLit {
	return &ast.BasicLit{Kind: token.STRING, Value: fmt.Sprintf("%q", s)}
}

func isBlank(e ast.Expr) bool {
	if e == nil {
		return true
	}
	id, ok := e.(*ast.Ident)
	return ok && id.Name == "_"
}

// T1: for k, v := range m  ==>  for _, e := range xsimrt.Iter(m) { if !e.Live() {continue}; k, v := e.K(), e.V(); body }
func (r *rewriter) rewriteRange(rs *ast.RangeStmt) {
	tv, ok := r.pkg.TypesInfo.Types[rs.X]
	if !ok {
		return
	}
	if _, ok := tv.Type.Underlying().(*types.Map); !ok {
		return
	}
	ent := r.fresh("e")
	var pre []ast.Stmt
	pre = append(pre, &ast.IfStmt{
		Cond: &ast.UnaryExpr{Op: token.NOT, X: &ast.CallExpr{Fun: sel(ent, "Live")}},
		Body: &ast.BlockStmt{List: []ast.Stmt{&ast.BranchStmt{Tok: token.CONTINUE}}},
	})
	var lhs, rhs []ast.Expr
	if !isBlank(rs.Key) {
		lhs = append(lhs, rs.Key)
		rhs = append(rhs, &ast.CallExpr{Fun: sel(ent, "K")})
	}
	if !isBlank(rs.Value) {
		lhs = append(lhs, rs.Value)
		rhs = append(rhs, &ast.CallExpr{Fun: sel(ent, "V")})
	}
	if len(lhs) > 0 {
		tok := rs.Tok
		if tok == token.ILLEGAL {
			tok = token.ASSIGN
		}
		pre = append(pre, &ast.AssignStmt{Lhs: lhs, Tok: tok, Rhs: rhs})
	}
	rs.Key = ast.NewIdent("_")
	rs.Value = ast.NewIdent(ent)
	rs.Tok = token.DEFINE
	rs.X = rtCall("Iter", rs.X)
	rs.Body.List = append(pre, rs.Body.List...)
	r.changed = true
	r.done = append(r.done, site{Kind: "T1-maprange", Pos: r.pos(rs.Pos())})
}

func isSyncMap(t types.Type) (ptr bool, ok bool) {
	if p, isP := t.(*types.Pointer); isP {
		_, ok := isSyncMap(p.Elem())
		return true, ok
	}
	n, isN := t.(*types.Named)
	if !isN || n.Obj().Pkg() == nil {
		return false, false
	}
	return false, n.Obj().Pkg().Path() == "sync" && n.Obj().Name() == "Map"
}

func isSyncType(t types.Type, name string) bool {
	if p, isP := t.(*types.Pointer); isP {
		t = p.Elem()
	}
	n, isN := t.(*types.Named)
	if !isN || n.Obj().Pkg() == nil {
		return false
	}
	return n.Obj().Pkg().Path() == "sync" && n.Obj().Name() == name
}

// addrOf returns an expression of pointer type for x (x itself when already a pointer).
func (r *rewriter) addrOf(x ast.Expr) ast.Expr {
	tv := r.pkg.TypesInfo.Types[x]
	if _, isP := tv.Type.(*types.Pointer); isP {
		return x
	}
	return &ast.UnaryExpr{Op: token.AND, X: x}
}

// T2 / T4 / T6 / T8 on call expressions. Returns a replacement expression or nil.
func (r *rewriter) rewriteCall(c *ast.CallExpr, withLocks bool) ast.Expr {
	// T8 tunables as call arguments
	for i, a := range c.Args {
		if id, ok := a.(*ast.Ident); ok && tunables[id.Name] {
			if _, isConst := r.pkg.TypesInfo.Uses[id].(*types.Const); isConst {
				c.Args[i] = rtCall("Tune", strLit(id.Name), id)
				r.changed = true
				r.done = append(r.done, site{Kind: "T8-tune", Pos: r.pos(id.Pos()), Note: id.Name})
			}
		}
	}
	s, ok := c.Fun.(*ast.SelectorExpr)
	if !ok {
		return nil
	}
	// package-level functions: time.Sleep
	if id, ok := s.X.(*ast.Ident); ok {
		if pn, ok := r.pkg.TypesInfo.Uses[id].(*types.PkgName); ok {
			if pn.Imported().Path() == "github.com/patrickmn/go-cache" && s.Sel.Name == "New" && len(c.Args) == 2 {
				// T9: no janitor goroutine under simulation (Get checks expiry itself)
				c.Args[1] = rtCall("Janitor", c.Args[1])
				r.changed = true
				r.done = append(r.done, site{Kind: "T9-janitor", Pos: r.pos(c.Pos())})
				return nil
			}
			if pn.Imported().Path() == "time" && s.Sel.Name == "Sleep" {
				r.changed = true
				r.done = append(r.done, site{Kind: "T6-sleep", Pos: r.pos(c.Pos())})
				return rtCall("Sleep", c.Args...)
			}
			return nil
		}
	}
	selInfo, ok := r.pkg.TypesInfo.Selections[s]
	if !ok {
		return nil
	}
	recv := selInfo.Recv()
	if _, ok := isSyncMap(recv); ok && s.Sel.Name == "Range" && len(c.Args) == 1 {
		r.changed = true
		r.done = append(r.done, site{Kind: "T2-syncmaprange", Pos: r.pos(c.Pos())})
		return rtCall("SyncMapRange", r.addrOf(s.X), c.Args[0])
	}
	if !withLocks {
		return nil
	}
	fn, _ := selInfo.Obj().(*types.Func)
	if fn == nil || fn.Pkg() == nil || fn.Pkg().Path() != "sync" {
		return nil
	}
	// the method must be one of sync.Mutex / sync.RWMutex (possibly promoted through embedding)
	sig := fn.Type().(*types.Signature)
	if sig.Recv() == nil {
		return nil
	}
	rt := sig.Recv().Type()
	var helper string
	switch {
	case isSyncType(rt, "Mutex") && s.Sel.Name == "Lock":
		helper = "MLock"
	case isSyncType(rt, "Mutex") && s.Sel.Name == "Unlock":
		helper = "MUnlock"
	case isSyncType(rt, "RWMutex") && s.Sel.Name == "Lock":
		helper = "RWLock"
	case isSyncType(rt, "RWMutex") && s.Sel.Name == "Unlock":
		helper = "RWUnlock"
	case isSyncType(rt, "RWMutex") && s.Sel.Name == "RLock":
		helper = "RWRLock"
	case isSyncType(rt, "RWMutex") && s.Sel.Name == "RUnlock":
		helper = "RWRUnlock"
	default:
		return nil
	}
	// receiver expression must be the mutex itself (not promoted) to take its address simply
	if !isSyncType(recv, "Mutex") && !isSyncType(recv, "RWMutex") {
		r.untouched = append(r.untouched, site{Kind: "T4-lock-promoted", Pos: r.pos(c.Pos())})
		return nil
	}
	r.changed = true
	r.done = append(r.done, site{Kind: "T4-" + helper, Pos: r.pos(c.Pos())})
	return rtCall(helper, r.addrOf(s.X), strLit(r.pos(c.Pos())))
}

func calleeName(c *ast.CallExpr) string {
	switch f := c.Fun.(type) {
	case *ast.Ident:
		return f.Name
	case *ast.SelectorExpr:
		return f.Sel.Name
	}
	return ""
}

// T3: go f(args) ==> { f' := f; a0 := arg0 ...; xsimrt.Go(site, func(){ f'(a0...) }) }
func (r *rewriter) rewriteGo(g *ast.GoStmt, enclosing string) ast.Stmt {
	name := calleeName(g.Call)
	_, isLit := g.Call.Fun.(*ast.FuncLit)
	if !(bgCallees[name] || (isLit && bgLiteralIn[enclosing])) {
		r.untouched = append(r.untouched, site{Kind: "T3-go-forkjoin", Pos: r.pos(g.Pos()), Note: name})
		return nil
	}
	var stmts []ast.Stmt
	fv := r.fresh("f")
	stmts = append(stmts, &ast.AssignStmt{Lhs: []ast.Expr{ast.NewIdent(fv)}, Tok: token.DEFINE, Rhs: []ast.Expr{g.Call.Fun}})
	var args []ast.Expr
	for _, a := range g.Call.Args {
		tv := r.pkg.TypesInfo.Types[a]
		if tv.Value != nil || tv.IsNil() { // constants and nil stay inline (typed by the callee)
			args = append(args, a)
			continue
		}
		av := r.fresh("a")
		stmts = append(stmts, &ast.AssignStmt{Lhs: []ast.Expr{ast.NewIdent(av)}, Tok: token.DEFINE, Rhs: []ast.Expr{a}})
		args = append(args, ast.NewIdent(av))
	}
	call := &ast.CallExpr{Fun: ast.NewIdent(fv), Args: args, Ellipsis: g.Call.Ellipsis}
	if g.Call.Ellipsis != token.NoPos {
		call.Ellipsis = 1
	}
	siteName := enclosing + ">" + name
	if isLit {
		siteName = enclosing + ">func"
	}
	stmts = append(stmts, &ast.ExprStmt{X: rtCall("Go", strLit(siteName),
		&ast.FuncLit{Type: &ast.FuncType{Params: &ast.FieldList{}}, Body: &ast.BlockStmt{List: []ast.Stmt{&ast.ExprStmt{X: call}}}})})
	r.changed = true
	r.done = append(r.done, site{Kind: "T3-go", Pos: r.pos(g.Pos()), Note: siteName})
	return &ast.BlockStmt{List: stmts}
}

func funcKey(fd *ast.FuncDecl) string {
	if fd.Recv == nil || len(fd.Recv.List) == 0 {
		return fd.Name.Name
	}
	t := fd.Recv.List[0].Type
	if st, ok := t.(*ast.StarExpr); ok {
		t = st.X
	}
	if id, ok := t.(*ast.Ident); ok {
		return id.Name + "." + fd.Name.Name
	}
	return fd.Name.Name
}

// T10: the accesses to built-in maps made by the head of a statement (the part evaluated before any
// nested block), announced to the simulation's happens-before checker just before the statement.
// Only operands that are certainly evaluated are announced (nothing to the right of && / ||, nothing
// inside function literals, no loop conditions), so an announcement never names an access that
// does not happen.
func (r *rewriter) mapAccesses(s ast.Stmt) []ast.Stmt {
	var outStmts []ast.Stmt
	seen := map[string]bool{}
	isMap := func(e ast.Expr) bool {
		tv, ok := r.pkg.TypesInfo.Types[e]
		if !ok || tv.Type == nil {
			return false
		}
		_, ok = tv.Type.Underlying().(*types.Map)
		return ok
	}
	var pure func(e ast.Expr) bool
	pure = func(e ast.Expr) bool {
		switch x := e.(type) {
		case *ast.Ident:
			return true
		case *ast.BasicLit:
			return true
		case *ast.SelectorExpr:
			return pure(x.X)
		case *ast.ParenExpr:
			return pure(x.X)
		case *ast.StarExpr:
			return pure(x.X)
		case *ast.IndexExpr:
			return isMap(x.X) && pure(x.X) && pure(x.Index)
		case *ast.CallExpr:
			// a.B().C() chains of argument-less getters (msg.GetHeader().GetType())
			if len(x.Args) != 0 {
				return false
			}
			se, ok := x.Fun.(*ast.SelectorExpr)
			return ok && strings.HasPrefix(se.Sel.Name, "Get") && pure(se.X)
		}
		return false
	}
	announce := func(m ast.Expr, write bool) {
		if !pure(m) {
			return
		}
		var b bytes.Buffer
		format.Node(&b, r.pkg.Fset, m)
		key := fmt.Sprint(write, b.String())
		if seen[key] {
			return
		}
		seen[key] = true
		fn := "MapRead"
		if write {
			fn = "MapWrite"
		}
		outStmts = append(outStmts, &ast.ExprStmt{X: rtCall(fn, m, strLit(r.pos(s.Pos())))})
		r.done = append(r.done, site{Kind: "T10-" + fn, Pos: r.pos(m.Pos()), Note: b.String()})
	}
	var reads func(e ast.Expr)
	reads = func(e ast.Expr) {
		if e == nil {
			return
		}
		ast.Inspect(e, func(n ast.Node) bool {
			switch x := n.(type) {
			case *ast.FuncLit:
				return false
			case *ast.BinaryExpr:
				if x.Op == token.LAND || x.Op == token.LOR {
					reads(x.X)
					return false
				}
			case *ast.IndexExpr:
				if isMap(x.X) {
					// inner maps first (d.mc[t][s] reads d.mc, then d.mc[t])
					reads(x.X)
					reads(x.Index)
					announce(x.X, false)
					return false
				}
			case *ast.CallExpr:
				if id, ok := x.Fun.(*ast.Ident); ok && id.Name == "delete" && len(x.Args) == 2 && isMap(x.Args[0]) {
					reads(x.Args[0])
					reads(x.Args[1])
					announce(x.Args[0], true)
					return false
				}
				if se, ok := x.Fun.(*ast.SelectorExpr); ok {
					if id, ok := se.X.(*ast.Ident); ok && id.Name == "xsimrt" && se.Sel.Name == "Iter" {
						// the range start is announced by Iter itself
						if len(x.Args) == 1 {
							if ie, ok := x.Args[0].(*ast.IndexExpr); ok {
								reads(ie)
							}
						}
						return false
					}
				}
			}
			return true
		})
	}
	lhs := func(e ast.Expr) {
		if ie, ok := e.(*ast.IndexExpr); ok && isMap(ie.X) {
			reads(ie.X)
			reads(ie.Index)
			announce(ie.X, true)
			return
		}
		reads(e)
	}
	var simple func(st ast.Stmt)
	simple = func(st ast.Stmt) {
		switch x := st.(type) {
		case nil:
		case *ast.ExprStmt:
			reads(x.X)
		case *ast.AssignStmt:
			for _, e := range x.Rhs {
				reads(e)
			}
			for _, e := range x.Lhs {
				lhs(e)
			}
		case *ast.IncDecStmt:
			lhs(x.X)
		case *ast.SendStmt:
			reads(x.Chan)
			reads(x.Value)
		case *ast.ReturnStmt:
			for _, e := range x.Results {
				reads(e)
			}
		}
	}
	switch x := s.(type) {
	case *ast.IfStmt:
		simple(x.Init)
		reads(x.Cond)
	case *ast.SwitchStmt:
		simple(x.Init)
		reads(x.Tag)
	case *ast.ForStmt:
		simple(x.Init)
	case *ast.RangeStmt:
		reads(x.X)
	case *ast.GoStmt:
		for _, e := range x.Call.Args {
			reads(e)
		}
	case *ast.DeferStmt:
		for _, e := range x.Call.Args {
			reads(e)
		}
	default:
		simple(s)
	}
	return outStmts
}

// insertYields puts a yield point before every statement of a block (recursively).
func (r *rewriter) insertYields(b *ast.BlockStmt, fn string) {
	if b == nil {
		return
	}
	var out []ast.Stmt
	for _, s := range b.List {
		switch s.(type) {
		case *ast.DeclStmt, *ast.LabeledStmt, *ast.EmptyStmt:
		default:
			if !s.Pos().IsValid() { // synthesized prelude of a rewritten range
				break
			}
			out = append(out, &ast.ExprStmt{X: rtCall("Yield", strLit(fmt.Sprintf("%s@%s", fn, r.pos(s.Pos()))))})
		}
		out = append(out, r.mapAccesses(s)...)
		out = append(out, s)
		ast.Inspect(s, func(n ast.Node) bool {
			switch x := n.(type) {
			case *ast.FuncLit:
				return false
			case *ast.BlockStmt:
				if x != b {
					r.insertYields(x, fn)
					return false
				}
			case *ast.CaseClause:
				blk := &ast.BlockStmt{List: x.Body}
				r.insertYields(blk, fn)
				x.Body = blk.List
				return false
			case *ast.CommClause:
				return false
			}
			return true
		})
	}
	b.List = out
	r.changed = true
}

func (r *rewriter) run(withLocks bool) {
	for _, d := range r.file.Decls {
		fd, ok := d.(*ast.FuncDecl)
		if !ok || fd.Body == nil {
			continue
		}
		fk := funcKey(fd)
		astutil.Apply(fd.Body, func(c *astutil.Cursor) bool {
			switch n := c.Node().(type) {
			case *ast.GoStmt:
				if repl := r.rewriteGo(n, fd.Name.Name); repl != nil {
					c.Replace(repl)
				}
			}
			return true
		}, func(c *astutil.Cursor) bool {
			switch n := c.Node().(type) {
			case *ast.RangeStmt:
				r.rewriteRange(n)
			case *ast.CallExpr:
				if repl := r.rewriteCall(n, withLocks); repl != nil {
					c.Replace(repl)
				}
			}
			return true
		})
		if withLocks && focusFuncs[fk] {
			r.insertYields(fd.Body, fk)
			r.done = append(r.done, site{Kind: "T5-focus", Pos: r.pos(fd.Pos()), Note: fk})
		}
	}
}

func main() {
	flag.Parse()
	if *out == "" {
		fmt.Fprintln(os.Stderr, "simrewrite: -out required")
		os.Exit(2)
	}
	must(os.MkdirAll(*out, 0o755))
	cfg := &packages.Config{
		Mode: packages.NeedName | packages.NeedFiles | packages.NeedCompiledGoFiles | packages.NeedSyntax | packages.NeedTypes | packages.NeedTypesInfo | packages.NeedImports | packages.NeedDeps,
		Dir:  *repo,
		Env:  append(os.Environ(), "GOFLAGS=-mod=mod", "GOPROXY=off", "GOSUMDB=off", "GOTOOLCHAIN=local", "CGO_ENABLED=1"),
	}
	pkgs, err := packages.Load(cfg, strings.Split(*pkgsArg, ",")...)
	must(err)
	overlay := map[string]string{}
	var done, untouched []site
	nerr := 0
	sort.Slice(pkgs, func(i, j int) bool { return pkgs[i].PkgPath < pkgs[j].PkgPath })
	for _, p := range pkgs {
		if strings.HasSuffix(p.PkgPath, "/main") || strings.Contains(p.PkgPath, "/mock") {
			continue
		}
		for _, e := range p.Errors {
			nerr++
			fmt.Fprintln(os.Stderr, "simrewrite: load error:", e)
		}
		if len(p.Errors) > 0 {
			continue
		}
		// the cooperative-scheduler instrumentation (locks, focus yields) is confined to the
		// packages Engine B/C drive; everything else only gets order/goroutine control.
		withLocks := strings.Contains(p.PkgPath, "xledger/state") || strings.HasSuffix(p.PkgPath, "kernel/network/p2p") ||
			strings.HasSuffix(p.PkgPath, "chained-bft") || strings.HasSuffix(p.PkgPath, "xledger/tx") || strings.HasSuffix(p.PkgPath, "xledger/ledger")
		for i, f := range p.Syntax {
			fn := p.CompiledGoFiles[i]
			if !strings.HasPrefix(fn, *repo+"/") || strings.HasSuffix(fn, "_test.go") || strings.HasSuffix(fn, ".pb.go") {
				continue
			}
			r := &rewriter{pkg: p, file: f}
			r.run(withLocks)
			done = append(done, r.done...)
			untouched = append(untouched, r.untouched...)
			if !r.changed {
				continue
			}
			astutil.AddImport(p.Fset, f, rtPath)
			var buf bytes.Buffer
			must(format.Node(&buf, p.Fset, f))
			src := buf.Bytes()
			if bytes.Contains(src, []byte("//go:build")) || bytes.Contains(src, []byte("// +build")) {
				fmt.Fprintln(os.Stderr, "simrewrite: file with build constraint rewritten:", fn)
				os.Exit(2)
			}
			src = append([]byte("//go:build go1.21\n\n"), src...)
			rel, _ := filepath.Rel(*repo, fn)
			dst := filepath.Join(*out, "src", rel)
			must(os.MkdirAll(filepath.Dir(dst), 0o755))
			must(os.WriteFile(dst, src, 0o644))
			overlay[fn] = dst
		}
	}
	if nerr > 0 {
		os.Exit(2)
	}
	// runtime package and export shims are added as overlay-only files
	overlay[filepath.Join(*repo, "lib/xsimrt/xsimrt.go")] = filepath.Join(*verif, "xsimrt/xsimrt.go")
	shimRoot := filepath.Join(*verif, "shims")
	filepath.Walk(shimRoot, func(p string, info os.FileInfo, err error) error {
		if err != nil || info.IsDir() || !strings.HasSuffix(p, ".go") {
			return nil
		}
		rel, _ := filepath.Rel(shimRoot, p)
		overlay[filepath.Join(*repo, rel)] = p
		return nil
	})
	if *extra != "" {
		filepath.Walk(*extra, func(p string, info os.FileInfo, err error) error {
			if err != nil || info.IsDir() {
				return nil
			}
			rel, _ := filepath.Rel(*extra, p)
			overlay[filepath.Join(*repo, rel)] = p
			return nil
		})
	}
	ob, _ := json.MarshalIndent(map[string]interface{}{"Replace": overlay}, "", " ")
	must(os.WriteFile(filepath.Join(*out, "overlay.json"), ob, 0o644))
	if *report != "" {
		rb, _ := json.MarshalIndent(map[string]interface{}{"rewritten": done, "untouched": untouched}, "", " ")
		must(os.WriteFile(*report, rb, 0o644))
	}
	kinds := map[string]int{}
	for _, s := range done {
		kinds[s.Kind]++
	}
	fmt.Printf("simrewrite: %d files, sites %v, untouched %d\n", len(overlay), kinds, len(untouched))
}

func must(err error) {
	if err != nil {
		fmt.Fprintln(os.Stderr, "simrewrite:", err)
		os.Exit(2)
	}
}
